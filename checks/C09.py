"""C09 -- concurrent cache use is race-free and behaves like some sequential order."""
import os, re, time, threading, concurrent.futures
import vlib

META = dict(
    property_id='C09',
    design_ref='DESIGN.md section 4, C09',
    technique='Coq proof over a lock-scope/member-access table REGENERATED from src/cache_storage.cpp on every run (clang AST + '
              'independent lexical cross-check; one table entry per path of a method) + a data-carrying lock-level model proved linearizable and '
              'proved to refine the table semantics + ThreadSanitizer multi-thread stress of the real cache (incl. injected allocation faults) + '
              'recorded-history linearizability checking against the extracted sequential model (C07) + history oracle',
    level_text=('Theorems in coq/C09/Props.v. The table of lock scopes (rdlock/wrlock on access_lock, lock_guard on lru_mutex, their block '
                'extents) and member accesses (field, read/write; helpers inlined) of every base_cache entry point of '
                'mem_cache<thread_settings> is extracted from the CURRENT source by tools/locktab.py, one entry per path: a call of another '
                'locked method made outside every lock and followed by return (store: catch(std::bad_alloc){remove(key);return;}) is a path of '
                'its own; such a call under a held lock is a self-deadlock and is reported. The decidable checks are '
                're-proved on the table by vm_compute: race_free (every pair of conflicting accesses shares a lock in incompatible modes), '
                'ordered (locks nest in a fixed order, never re-taken), two_phase (on every path no lock taken after one was released), alt_paths '
                '(the failed-store path has exactly the critical sections of remove), unlocked_only_constants, per-member guards, '
                'lock_model_shape and reader_sections (the lock protocol and read/write discipline the data-level model assumes). '
                'Soundness theorems, for ANY table, ANY number of threads and calls, over a small-step interleaving semantics with a '
                'readers-writer lock and a mutex: race_free_sound (no reachable configuration has two threads standing at conflicting accesses), '
                'mutual_exclusion, deadlock_free (some active thread can always move: every operation completes), field_guarded_sound, '
                'writer_alone; instantiated for the current source: cache_race_free, cache_deadlock_free, cache_no_torn_value (the value copy-out '
                'is under access_lock and never concurrent with a write of the value), cache_mutators_isolated (every mutator runs alone). '
                'Two-phase locking on an instrumented semantics (clock, one transaction per call, lock point = latest acquisition, access log): '
                'conflicts_follow_lock_points, conflict_graph_acyclic, lock_point_in_interval, lock_points_respect_real_time, and '
                'cache_conflict_serializable for the current source (calls are conflict-serializable in lock-point order, which respects real time). '
                'Linearizability: atomic_effect_linearizable (any system in which each call takes effect atomically between invocation and '
                'response produces only linearizable histories w.r.t. the sequential object, here C07\'s model of mem_cache incl. the failed store, '
                'which failed_store_is_remove shows to be a remove); lock_model_linearizable (the data-carrying lock-level model - mutators one '
                'exclusive section, fetch split into lookup / LRU move under lru_mutex / copy-out under the shared lock, arbitrary interleaving - '
                'is linearizable, any number of threads and calls); lock_model_refines_table (every reachable configuration of that model '
                'corresponds to a reachable, race-free configuration of the table semantics of the CURRENT source holding exactly the same locks). '
                'The clauses of the property text for concurrent histories (concurrent_hit_explained, lock_model_hit_explained: for any history '
                'linearizable w.r.t. the cache object, hence for every execution of the data-level model): a hit is exactly the entry of a store to '
                'the same key (no torn value, no value of another key), that store was not invoked after the fetch returned, and no rise of one of '
                'its triggers / remove / clear / other store / failed store of the key ran entirely between that store and the fetch; and (limit 0, no '
                'failed store) a fetch invoked after a live store returned, with every other invalidating call over before that store, does not miss; every stats() '
                'answer has keys <= triggers, keys = 0 iff triggers = 0, and keys <= limit when a limit is set. '
                'Not a Coq theorem: that the data effect of each section of the real code is the step the data-level model gives it (C07\'s '
                'sequential correspondence + the shared-lock read discipline proved on the table); that link is covered by search: recorded '
                'histories of 2..8 threads on the real cache, with injected allocation faults, are checked linearizable against the extracted model.'),
    level_note=('Trusted: Coq kernel + vm_compute; tools/locktab.py (clang 14 JSON AST; the lexical extractor cross-checks lock scopes, '
                'literally named members and the calls of locked methods in tail position; classification of std:: container methods as '
                'mutating/read-only is a name list; virtual calls inside the class resolved statically - no derived class, checked); pthread '
                'rwlock/mutex behave as the lock model (the chain guard class -> booster::shared_mutex -> pthread_rwlock_* is checked by the '
                'translator); locks are synchronising (C++11 memory model); field-level granularity (all entries of a container are one region: '
                'conservative); process-shared variant (fcntl/pshared locks) not covered; sequential semantics of each call = C07 model (tied by '
                'C07\'s correspondence and re-tied here single-threaded); allocation faults other than the value copy of store not in the '
                'sequential object used here; ThreadSanitizer and the Wing-Gong checker are search tools: absence of reports is evidence, not proof.'),
)

NOW = 1000
KEYS = [b'k1', b'k2', b'k3']
TRIGS = [b't1', b't2', b'k2']          # a trigger may be named like a key


def hx(b):
    return b.hex() if b else '-'


def fnv_tok(v):
    if len(v) <= 32:
        return hx(v)
    h = 14695981039346656037
    for c in v:
        h ^= c
        h = (h * 1099511628211) & 0xFFFFFFFFFFFFFFFF
    return '#%d.%016x' % (len(v), h)


def value_of(t):
    if t.startswith('#'):
        x = t.index('x')
        ln = int(t[1:x])
        r = vlib.unhex(t[x + 1:])
        if len(r) < ln:
            r += b'v' * (ln - len(r))
        return r
    return vlib.unhex(t)


def trigtok(s):
    if not s:
        return '.'
    return '+'.join(hx(t) for t in sorted(s))


# --------------------------------------------------------------------------------------------
# case parsing
# --------------------------------------------------------------------------------------------
class Op:
    __slots__ = ('kind', 'key', 'val', 'trigs', 'deadline', 'gen', 'tok', 'g', 'i', 'inv', 'res', 'out')

    def __init__(self, tok, g, i):
        f = tok.split(':')
        self.tok, self.g, self.i = tok, g, i
        self.kind = f[0]
        self.key = self.val = None
        self.trigs = frozenset()
        self.deadline = self.gen = None
        self.inv = self.res = 0
        self.out = None
        if self.kind in 'SX':
            self.key = vlib.unhex(f[1])
            self.val = value_of(f[2])
            self.trigs = frozenset(vlib.unhex(t) for t in f[3].split('+')) if f[3] != '.' else frozenset()
            self.deadline = int(f[4])
            self.gen = None if f[5] == '-' else int(f[5])
        elif self.kind in 'FRD':
            self.key = vlib.unhex(f[1])

    def all_trigs(self):
        return self.trigs | {self.key}


def parse_case(line):
    """-> (mode, limit, now, seed, groups of Op) ; group 0 = prefill"""
    t = line.split()
    if len(t) < 5 or t[0] != 'mt':
        raise ValueError('bad case')
    mode, limit, now, seed = t[1], int(t[2]), int(t[3]), int(t[4])
    groups = [[]]
    for tok in t[5:]:
        if tok == ';':
            groups.append([])
        else:
            groups[-1].append(Op(tok, len(groups) - 1, len(groups[-1])))
    return mode, limit, now, seed, groups


def parse_out(groups, out):
    """attach stamps/results to the ops; returns (tsan_count, kinds) or raises ValueError when the answer is incomplete"""
    parts = out.split(' ;')
    m = re.match(r'tsan=(\d+)(?::(\S*))?\s*$', parts[0])
    if not m:
        raise ValueError('no tsan header')
    if len(parts) - 1 != len(groups):
        raise ValueError('thread groups: %d answered of %d' % (len(parts) - 1, len(groups)))
    for g, p in zip(groups, parts[1:]):
        toks = p.split()
        if len(toks) != len(g):
            raise ValueError('ops: %d answered of %d' % (len(toks), len(g)))
        for o, tk in zip(g, toks):
            a, b, r = tk.split(',', 2)
            o.inv, o.res, o.out = int(a), int(b), r
    return int(m.group(1)), (m.group(2) or '')


# --------------------------------------------------------------------------------------------
# the property evaluated on the implementation's answer alone
# --------------------------------------------------------------------------------------------
def oracle(case, out):
    try:
        mode, limit, now, seed, groups = parse_case(case)
    except Exception:
        return None
    if out.startswith('HANG'):
        return ('operation-does-not-complete', 'threads did not finish within the watchdog time: ' + out)
    if out == '<skipped>':
        return None
    if out.startswith('<crash'):
        m = re.search(r'ThreadSanitizer: ([a-z\- ]+)', out)
        if m:
            return (tsan_key(m.group(1)), 'ThreadSanitizer report, then the process died: ' + out[:600])
        if 'rc=-14' in out:
            return ('operation-does-not-complete', 'the run did not finish within 120 s and was killed by the harness alarm (a call that never '
                    'returns, e.g. a thread blocking on a lock it holds itself): ' + out[:300])
        return ('crash', 'harness process died while running the case (memory corruption?): ' + out[:600])
    try:
        tsan, kinds = parse_out(groups, out)
    except ValueError as e:
        return ('incomplete-answer', 'not every operation produced a result: %s' % e)
    if tsan:
        return (tsan_key(kinds.split(',')[0]), 'ThreadSanitizer reported %d problem(s) inside the cache: %s' % (tsan, kinds))
    ops = [o for g in groups for o in g]
    nthreads = len(groups) - 1
    stamped = mode == 'l' or nthreads <= 1

    def before(a, b):
        if a is b:
            return False
        if mode == 'l':
            return a.res < b.inv
        if a.g == b.g:
            return a.i < b.i
        if nthreads <= 1:
            return a.g < b.g
        return a.g == 0 and b.g != 0
    # X = store during which the value copy throws std::bad_alloc: it must take the failure path (answer x), it never creates
    # an entry, and it invalidates the entry of its key like remove does (the superseded value must not be served any more)
    expect = {'S': 's', 'X': 'x', 'R': 'r', 'D': 'd', 'C': 'c'}
    stores = {}
    for o in ops:
        if o.kind == 'S':
            stores.setdefault(o.key, []).append(o)
    nkeys = len(stores)
    auto_gen_seen = {}
    for o in ops:
        r = o.out
        if o.kind in expect:
            if o.kind == 'X' and r == 's':
                return ('alloc-fault-not-taken', 'op %s: the injected std::bad_alloc did not reach store()\'s value copy (value too short, or the '
                        'copy is no longer the first allocation of store)' % o.tok)
            if r != expect[o.kind]:
                return ('wrong-result-kind', 'op %s answered %s' % (o.tok, r))
            continue
        if o.kind == 'Z':
            m = re.match(r'z:(\d+)/(\d+)$', r)
            if not m:
                return ('wrong-result-kind', 'stats answered %s' % r)
            k, t = int(m.group(1)), int(m.group(2))
            if k > nkeys or (limit > 0 and k > limit):
                return ('stats-keys-out-of-range', 'stats() reports %d keys (limit %d, %d distinct keys ever stored)' % (k, limit, nkeys))
            if (k == 0) != (t == 0) or t < k:
                return ('stats-inconsistent', 'stats() reports %d keys and %d triggers (every entry has at least its own key as trigger)' % (k, t))
            continue
        # fetch
        if r == 'm':
            if limit == 0:
                # a live entry stored strictly before the fetch, with every possible invalidator strictly before that store
                for s in stores.get(o.key, []):
                    if s.deadline >= now and before(s, o):
                        inval = [x for x in ops if x is not s and (
                            (x.kind == 'R' and x.key in s.all_trigs()) or (x.kind in 'DX' and x.key == s.key) or x.kind == 'C' or
                            (x.kind == 'S' and x.key == s.key))]
                        if all(before(x, s) for x in inval):
                            return ('miss-of-live-entry', 'fetch %s missed although %s completed before it and nothing could have invalidated it' % (o.tok, s.tok))
            continue
        if not r.startswith('h:'):
            return ('wrong-result-kind', 'fetch answered %s' % r)
        f = r.split(':')
        if len(f) != 5:
            return ('wrong-result-kind', 'fetch answered %s' % r)
        cands = []
        for s in stores.get(o.key, []):
            if f[1] == fnv_tok(s.val) and f[2] == trigtok(s.all_trigs()) and int(f[3]) == s.deadline and (s.gen is None or int(f[4]) == s.gen):
                cands.append(s)
        if not cands:
            return ('hit-not-a-stored-entry', 'fetch %s returned %s: not the (value, triggers, deadline, generation) of any store to that key '
                    '(torn value / value of another key / mixed entry)' % (o.tok, r))
        if int(f[3]) < now:
            return ('hit-of-expired-entry', 'fetch %s returned an entry whose deadline %s is before now=%d' % (o.tok, f[3], now))
        live = []
        for s in cands:
            if before(o, s):
                continue                      # returned before the store was invoked
            stale = False
            for x in ops:
                if x is s:
                    continue
                if ((x.kind == 'R' and x.key in s.all_trigs()) or (x.kind in 'DX' and x.key == s.key) or x.kind == 'C' or
                        (x.kind == 'S' and x.key == s.key)) and before(s, x) and before(x, o):
                    stale = x
                    break
            if not stale:
                live.append(s)
        if not live:
            s = cands[0]
            if before(o, s):
                return ('hit-before-store', 'fetch %s returned the entry of %s which was invoked after the fetch returned' % (o.tok, s.tok))
            return ('stale-hit', 'fetch %s returned the entry stored by %s although %s ran entirely between that store and this fetch'
                    % (o.tok, s.tok, stale.tok))
        if len(cands) == 1 and cands[0].gen is None:
            g = int(f[4])
            prev = auto_gen_seen.get(g)
            if prev is not None and prev is not cands[0]:
                return ('generation-duplicated', 'stores %s and %s got the same automatic generation %d' % (prev.tok, cands[0].tok, g))
            auto_gen_seen[g] = cands[0]
    return None


def overlap_stats(groups):
    """number of cross-thread pairs of calls that really overlapped, and how many of them involve a mutator (stamped histories)"""
    ops = [o for g in groups[1:] for o in g]
    ops.sort(key=lambda o: o.inv)
    n = nm = 0
    for i, a in enumerate(ops):
        for b in ops[i + 1:]:
            if b.inv > a.res:
                break
            if a.g != b.g:
                n += 1
                if a.kind in 'SXRDC' or b.kind in 'SXRDC':
                    nm += 1
    return n, nm


def nontrivial(case, out):
    try:
        mode, limit, now, seed, groups = parse_case(case)
        parse_out(groups, out)
    except Exception:
        return False
    ops = [o for g in groups for o in g]
    hits = sum(1 for o in ops if o.kind == 'F' and o.out.startswith('h:'))
    miss = sum(1 for o in ops if o.kind == 'F' and o.out == 'm')
    if len(groups) <= 2:
        return hits > 0 and miss > 0
    if mode == 'l':
        return overlap_stats(groups)[1] > 0
    # race mode: at least two threads got hits (LRU contention) or a hit and a mutator in different threads
    th_hit = set(o.g for o in ops if o.g > 0 and o.kind == 'F' and o.out.startswith('h:'))
    th_mut = set(o.g for o in ops if o.g > 0 and o.kind in 'SXRDC')
    return len(th_hit) >= 2 or (th_hit and th_mut and len(th_hit | th_mut) >= 2)


def classify(case, out):
    try:
        mode, limit, now, seed, groups = parse_case(case)
    except Exception:
        return 'bad'
    n = len(groups) - 1
    return 'mode=%s threads=%s limit=%s' % (mode, n if n <= 1 else ('2' if n == 2 else '3-4' if n <= 4 else '5-8'), 0 if limit == 0 else '>0')


# --------------------------------------------------------------------------------------------
# generators
# --------------------------------------------------------------------------------------------
class Gen:
    def __init__(self, rng, with_x=True):
        self.rng = rng
        self.n = 0
        self.with_x = with_x      # False: no harness build in which the injected allocation fault works -> plain stores instead
        self.keys, self.trigs = KEYS, TRIGS

    def universe(self, keys, trigs):
        """key / trigger alphabet of the case being generated"""
        self.keys, self.trigs = list(keys), list(trigs)

    def store(self, keys=None, live_only=False, key=None):
        r = self.rng
        k = key if key is not None else r.choice(keys or self.keys)
        self.n += 1
        tag = b'%s.%d|' % (k, self.n)
        ln = r.choice([len(tag), len(tag), 33, 64, 100, 200, 700])
        ln = max(ln, len(tag))
        tr = set()
        for t in self.trigs:
            if r.random() < 0.3:
                tr.add(t)
        dl = 2000 if live_only else r.choice([2000, 2000, 2000, 2000, 1500, 1000, 999, 3000])
        g = '-' if r.random() < 0.8 else str(r.choice([0, 1, 7, 2 ** 40, 2 ** 64 - 1]))
        return 'S:%s:#%dx%s:%s:%d:%s' % (hx(k), ln, hx(tag), '+'.join(hx(t) for t in sorted(tr)) if tr else '.', dl, g)

    def failed_store(self, keys=None):
        """a store whose value copy fails: the value must be long enough (>= 16 bytes) for the copy to allocate"""
        t = self.store(keys).split(':')
        ln = int(t[2][1:t[2].index('x')])
        if ln < 33:
            t[2] = '#%d%s' % (self.rng.choice([16, 17, 33, 100]), t[2][t[2].index('x'):])
        return 'X:' + ':'.join(t[1:])

    def op(self, mix, keys=None):
        r = self.rng
        keys = keys or self.keys
        x = r.random()
        acc = 0.0
        for kind, p in mix:
            acc += p
            if x < acc:
                break
        if kind == 'S':
            return self.store(keys)
        if kind == 'X':
            return self.failed_store(keys) if self.with_x else self.store(keys)
        if kind == 'F':
            return 'F:' + hx(r.choice(keys))
        if kind == 'R':
            return 'R:' + hx(r.choice(self.trigs + [r.choice(keys)]))
        if kind == 'D':
            return 'D:' + hx(r.choice(keys))
        return kind          # C, Z


MIX_ALL = [('F', 0.42), ('S', 0.23), ('X', 0.04), ('R', 0.09), ('D', 0.07), ('C', 0.05), ('Z', 0.10)]
MIX_READ = [('F', 0.9), ('Z', 0.1)]
MIX_READ_RARE_W = [('F', 0.85), ('Z', 0.05), ('S', 0.05), ('X', 0.01), ('R', 0.02), ('D', 0.02)]
MIX_WRITE = [('S', 0.45), ('X', 0.08), ('R', 0.14), ('D', 0.13), ('C', 0.1), ('F', 0.05), ('Z', 0.05)]


def collision_universes(exe, notes):
    """key sets that COLLIDE in the hash maps of the cache (primary: entry keys; triggers: trigger names and entry keys), computed with
    the string_hash of the CURRENT private/hash_map.h (harness command `hash`): a bucket is hash % table size, the table grows 2,4,8,16,..
    (or starts at the limit), so keys with the same full hash share a bucket for every table size, keys whose hashes differ by a multiple of
    16 share one up to 16 buckets and are split by a later growth.  Returns a list of (keys, trigs) universes, [] if none can be built."""
    pool = [bytes([a, b]) for a in range(0x61, 0x71) for b in range(0x20, 0x7f)]
    try:
        rc, out, err = vlib.run_lines(exe, ['hash ' + ' '.join(hx(k) for k in pool)], timeout=60, env=TSAN_ENV)
        vals = [int(x) for x in out[0].split()[1:]] if out and out[0].startswith('hash') else []
    except Exception as e:
        vals = []
    if len(vals) != len(pool):
        notes.append('harness `hash` command gave no usable answer: no colliding key sets were generated')
        return []
    by = {}
    for k, h in zip(pool, vals):
        by.setdefault(h, []).append(k)
    groups = sorted((g for g in by.items() if len(g[1]) >= 3), key=lambda g: (-len(g[1]), g[0]))
    if len(groups) < 2:
        notes.append('string_hash has no 2-byte collisions in the candidate pool: no colliding key sets were generated')
        return []
    unis = []
    for gi in range(0, min(len(groups) - 1, 6), 2):
        (hk, ks), (ht, ts) = groups[gi], groups[gi + 1]
        keys = ks[:5]
        trigs = ts[:3] + [keys[1]]                       # trigger names colliding among themselves + one named like a key
        unis.append((keys, trigs))
        # same bucket only while the table has <= 16 buckets: two full collisions + two keys 16 and 32 further
        near = [k for h, g in by.items() if h != hk and (h - hk) % 16 == 0 and abs(h - hk) <= 64 for k in g[:1]]
        if len(near) >= 2:
            unis.append((ks[:2] + near[:2] + [b'k1'], ts[:2] + [near[0]]))
    return unis


COLL_STATIC = ([b'aP', b'b@', b'c0', b'd '], [b'sA', b't1', b'u!', b'b@'])      # 4 keys with hash 1632, 3 triggers with hash 1905 (regression corpus)


def mk_case(mode, limit, seed, prefill, groups):
    return 'mt %s %d %d %d %s' % (mode, limit, NOW, seed, ' '.join(prefill)) + ''.join(' ; ' + ' '.join(g) for g in groups)


def gen_cases(ctx, with_x=True, coll=()):
    rng = ctx.rng
    g = Gen(rng, with_x)
    seq, race, lin = [], [], []
    limits = [0, 0, 0, 1, 2, 3, 5]
    coll = list(coll)

    def pick_universe(p):
        """with probability p the case uses keys / triggers that collide in the hash maps; returns the universe or None"""
        if coll and rng.random() < p:
            u = rng.choice(coll)
            g.universe(*u)
            return u
        g.universe(KEYS, TRIGS)
        return None

    def fill_all(keys):
        """one live store per key, random order: every key of a colliding set sits in the bucket, most of them not at its head"""
        ks = list(keys)
        rng.shuffle(ks)
        return [g.store(key=k, live_only=True) for k in ks]
    # (a) deterministic: prefill + one group, both modes (single-threaded correspondence with the sequential model)
    for _ in range(ctx.scale(400, 3000)):
        g.with_x = with_x and rng.random() < 0.5
        pick_universe(0.3)
        lim = rng.choice(limits)
        n = rng.choice([1, 2, 3, 5, 8, 13, 30])
        pre = [g.op(MIX_ALL) for _ in range(rng.choice([0, 1, 3]))]
        seq.append(mk_case(rng.choice('rl'), lim, 0, pre, [[g.op(MIX_ALL) for _ in range(n)]]))
    # (b) race mode: no harness synchronisation besides the start line
    for i in range(ctx.scale(150, 1200)):
        g.with_x = with_x and rng.random() < 0.3        # most cases stay on the primary (clang TSan) build
        lim = rng.choice(limits)
        nt = rng.choice([2, 2, 3, 4, 4, 6, 8])
        nops = rng.choice([20, 40, 80]) if ctx.quick() else rng.choice([20, 40, 80, 200])
        shape = i % 6
        uni = pick_universe(1.0 if shape == 5 else 0.4)
        if shape == 5 and uni:
            # readers only on a prefilled cache whose keys all share ONE bucket of primary: a lookup that is not read-only
            # (find() under the shared lock) is a data race between two fetches, no mutator needed
            pre = fill_all(uni[0])
            groups = [[g.op(MIX_READ) for _ in range(nops)] for _ in range(nt)]
            lim = rng.choice([0, 0, 0, 8])
        elif shape == 0 or shape == 5:       # prefilled, fetch/stats only: reader-reader interaction (the LRU list under lru_mutex)
            pre = [g.store(live_only=True) for _ in range(4)]
            groups = [[g.op(MIX_READ) for _ in range(nops)] for _ in range(nt)]
            lim = rng.choice([0, 0, 5])
        elif shape == 1:     # readers with rare writers
            pre = [g.store(live_only=True) for _ in range(3)]
            groups = [[g.op(MIX_READ_RARE_W) for _ in range(nops)] for _ in range(nt)]
        elif shape == 2:     # one writer thread, the rest readers
            pre = [g.store() for _ in range(2)]
            groups = [[g.op(MIX_WRITE) for _ in range(nops)]] + [[g.op(MIX_READ) for _ in range(nops)] for _ in range(nt - 1)]
        elif shape == 3:     # writers only
            pre = []
            groups = [[g.op(MIX_WRITE) for _ in range(nops)] for _ in range(nt)]
        else:
            pre = [g.op(MIX_ALL) for _ in range(rng.choice([0, 2]))]
            groups = [[g.op(MIX_ALL) for _ in range(nops)] for _ in range(nt)]
        race.append(mk_case('r', lim, rng.randrange(1, 2 ** 31), pre, groups))
    # (c) history mode: short concurrent histories for the linearizability checker
    for i in range(ctx.scale(1200, 8000)):
        g.with_x = with_x and rng.random() < 0.3
        lim = rng.choice(limits)
        nt = rng.choice([2, 2, 3, 3, 4, 5, 8])
        per = {2: [6, 10, 14], 3: [5, 8, 10], 4: [4, 6, 8], 5: [4, 6], 8: [3, 4]}[nt]
        nops = rng.choice(per)
        uni = pick_universe(0.4)
        if uni and i % 4 == 0:
            # read-only phase over one bucket: every key stored once (live, no limit), then only fetches / stats from all threads:
            # every fetch must hit (miss-of-live-entry otherwise) and return (watchdog otherwise)
            lim = 0
            keys = uni[0]
            pre = fill_all(keys)
            groups = [[g.op(MIX_READ, keys) for _ in range(nops)] for _ in range(nt)]
            lin.append(mk_case('l', lim, rng.randrange(0, 2 ** 31) if rng.random() < 0.8 else 0, pre, groups))
            continue
        ku = g.keys
        keys = ku if rng.random() < 0.5 else ku[:2] if rng.random() < 0.7 and not uni else ku[:3] if uni else ku[:1]
        pre = [g.op(MIX_ALL, keys) for _ in range(rng.choice([0, 0, 2, 4]))]
        mix = rng.choice([MIX_ALL, MIX_ALL, MIX_READ_RARE_W, MIX_WRITE])
        groups = [[g.op(mix, keys) for _ in range(nops)] for _ in range(nt)]
        lin.append(mk_case('l', lim, rng.randrange(0, 2 ** 31) if rng.random() < 0.8 else 0, pre, groups))
    return seq, race, lin


# --------------------------------------------------------------------------------------------
# running the TSan harness (crash tolerant) and the history checker
# --------------------------------------------------------------------------------------------
TSAN_ENV = {'TSAN_OPTIONS': 'exitcode=0 halt_on_error=0 report_thread_leaks=0 report_signal_unsafe=0 history_size=3 second_deadlock_stack=1'}


TSAN_KINDS = ['data race', 'data-race', 'heap-use-after-free', 'use-after-free', 'lock-order-inversion', 'double lock', 'double-lock',
              'unlock of an unlocked mutex', 'bad-unlock', 'destroy of a locked mutex', 'mutex-destroy-locked', 'read lock of a write locked mutex',
              'bad-read-lock', 'read unlock of a write locked mutex', 'bad-read-unlock', 'use of an invalid mutex', 'invalid-mutex']


def tsan_key(text):
    """stable finding key for a ThreadSanitizer report description"""
    t = text.lower()
    for k in TSAN_KINDS:
        if k in t:
            k = k.replace(' ', '-')
            return 'tsan-' + {'data-race': 'data-race', 'use-after-free': 'heap-use-after-free'}.get(k, k)
    return 'tsan-report'


def run_chunk(exe, cases):
    """run cases through one harness process; a crash or hang loses the case that was running: mark it and go on with the rest.
    After two such failures the rest of the chunk is skipped (a broken cache can hang on every case; one replay is enough)."""
    outs = []
    rest = list(cases)
    errs = ''
    failures = 0
    while rest:
        if failures >= 2:
            outs += ['<skipped>'] * len(rest)
            break
        try:
            rc, out, err = vlib.run_lines(exe, rest, timeout=900, env=TSAN_ENV)
        except Exception as e:             # subprocess timeout: treat like a hang of the first unanswered case
            outs.append('HANG harness process did not finish (%s)' % type(e).__name__)
            outs += ['<skipped>'] * (len(rest) - 1)
            break
        if 'ThreadSanitizer' in err and len(errs) < 6000:
            errs += err[:6000]
        if len(out) >= len(rest):
            outs += out[:len(rest)]
            break
        failures += 1
        if out and out[-1].startswith('HANG'):
            outs += out
            rest = rest[len(out):]
            continue
        outs += out
        tail = err[-1500:].replace('\n', ' | ')
        m = re.search(r'WARNING: (ThreadSanitizer: [^(|]*)', err)
        outs.append('<crash rc=%s> %s %s' % (rc, m.group(1) if m else '', tail))
        rest = rest[len(out) + 1:]
    return outs, errs


def run_harness(exe, cases, jobs):
    if not cases:
        return [], ''
    jobs = max(1, min(jobs, len(cases)))
    step = (len(cases) + jobs - 1) // jobs
    parts = [cases[i:i + step] for i in range(0, len(cases), step)]
    with concurrent.futures.ThreadPoolExecutor(len(parts)) as ex:
        rs = list(ex.map(lambda p: run_chunk(exe, p), parts))
    outs = []
    for o, _ in rs:
        outs += o
    return outs, ''.join(e for _, e in rs)


def lin_line(case, out, budget):
    mode, limit, now, seed, groups = parse_case(case)
    parse_out(groups, out)
    evs = ['%d,%d,%d,%s,%s' % (o.g, o.inv, o.res, o.tok, o.out) for g in groups for o in g]
    return 'lin %d %d %d %s' % (limit, now, budget, ' '.join(evs))


def build_tsan_harness(ctx):
    """harness/C09_mt.cpp + the CURRENT src/cache_storage.cpp + booster's pthread.cpp, all instrumented by ThreadSanitizer.
    Returns (exe, how, tsan mode, exe for cases with injected allocation faults or None, how).  The primary build is clang's (static TSan
    runtime); the harness's replacement of operator new (fault injection for the X operation) is inert there, so a second build with g++
    (shared libtsan) runs the cases that contain X operations."""
    outdir = os.path.join(vlib.WORK, 'bin')
    os.makedirs(outdir, exist_ok=True)
    srcs = [os.path.join(vlib.VERIF, 'harness', 'C09_mt.cpp'), os.path.join(vlib.REPO, 'src', 'cache_storage.cpp'),
            os.path.join(vlib.REPO, 'booster', 'lib', 'thread', 'src', 'pthread.cpp')]

    def build(cxx, san, name):
        out = os.path.join(outdir, name)
        cmd = [cxx] + vlib.cxx_flags() + san + srcs + ['-o', out] + vlib.link_flags()
        with vlib.Lock('harness-' + name):
            p = vlib.sh(cmd, timeout=600)
        if p.returncode != 0:
            return None, (p.stdout + p.stderr).decode(errors='replace')[-3000:]
        rc, o, e = vlib.run_lines(out, ['probe'], timeout=60, env=TSAN_ENV)
        m = re.match(r'probe tsan=(\w+) fault=(\w+)', o[0]) if o else None
        if not m:
            return None, 'probe failed: rc=%s %s %s' % (rc, o, e[-500:])
        return out, (m.group(1), m.group(2))

    res = {}

    def second():
        for cxx, san, tag in (('g++', ['-fsanitize=thread'], 'g++ -fsanitize=thread'), ('g++', [], 'g++ (NO ThreadSanitizer)')):
            exe, info = build(cxx, san, 'C09_mt_fi')
            if exe and info[1] == 'works':
                res['fi'] = (exe, tag + (' tsan=' + info[0]))
                return
        res['fi'] = (None, 'no build in which the injected allocation fault takes effect')
    th = threading.Thread(target=second)
    th.start()
    last = ''
    prim = None
    for cxx, san, tag in (('clang++', ['-fsanitize=thread', '-Wl,--allow-multiple-definition'], 'clang++ -fsanitize=thread'),
                          ('g++', ['-fsanitize=thread'], 'g++ -fsanitize=thread'), ('g++', [], 'g++ (NO ThreadSanitizer)')):
        exe, info = build(cxx, san, 'C09_mt')
        if exe:
            prim = (exe, tag, info[0], info[1])
            break
        last = info
        if not san:
            break
    th.join()
    if not prim:
        return None, last, 'off', None, ''
    if prim[3] == 'works':
        return prim[0], prim[1], prim[2], prim[0], prim[1]
    return prim[0], prim[1], prim[2], res['fi'][0], res['fi'][1]


def gen_table(ctx):
    import locktab
    from cxx2v import Unsupported
    out = os.path.join(vlib.COQ, 'gen', 'Gen_locktab.v')
    try:
        with vlib.Lock('gen-Gen_locktab'):
            tabs, ex = locktab.generate(vlib.REPO, vlib.repo_incs(), out)
        summ = {}
        callee_of = {(caller, idx): callee for caller, callee, idx in ex.alt_info}
        for name, ps in tabs.items():
            def paths(s, p):
                q = p + (['%s:%s' % (s.lock, s.mode)] if s.lock else [])
                r = [('/'.join(q) or '-') + ' {' + ' '.join('%s%s' % (f, '!' if rw == 'W' else '') for f, rw in sorted(s.acc)) + '}']
                for c in s.children:
                    r += paths(c, q)
                return r
            for i, sc in enumerate(ps):
                summ[name if i == 0 else '%s [path: %s() outside every lock, then return]' % (name, callee_of[(name, i)])] = paths(sc, [])
        for kind, text in ex.diagnostics:
            if kind == 'deadlock':
                ctx.broke('lock structure of src/cache_storage.cpp: self-deadlock (an operation that takes this path never completes)', text)
        return summ
    except Unsupported as e:
        ctx.broke('translator locktab failed on src/cache_storage.cpp (tie to source broken: lock structure not understood)', str(e))
        vlib.write_if_changed(out, '(* translator failed: %s *)\nDefinition broken : False := I.\n' % str(e).replace('*)', '* )').replace('"', "'"))
        return None


def run(ctx):
    t0 = time.time()
    # the TSan harness build does not depend on Coq: start it now
    hres = {}
    th = threading.Thread(target=lambda: hres.update(r=build_tsan_harness(ctx)))
    th.start()
    summ = gen_table(ctx)
    t1 = time.time()
    # translator self-test (in parallel with the Coq build): on textual variants of the CURRENT store() - remove(key) called under
    # store's own lock; remove(key) not followed by return; a behaviour-preserving rewrite - the translator must still diagnose the
    # self-deadlock / emit two sections / emit the same lock structure
    st = {}

    def selftest():
        import locktab
        try:
            st['r'] = locktab.selftest(vlib.REPO, vlib.repo_incs(), os.path.join(ctx.workdir, 'locktab-selftest-%d' % os.getpid()))
        except Exception as e:
            st['r'] = [('selftest', 'FAILED: %s: %s' % (type(e).__name__, e))]
    ts = threading.Thread(target=selftest)
    if summ is not None:
        ts.start()
    res = vlib.coq_props('C09')
    ctx.proof(res)
    if summ is not None:
        ts.join()
        ctx.coverage['locktab_selftest'] = dict(st.get('r', []))
        for n, r in st.get('r', []):
            if r.startswith('FAILED'):
                ctx.broke('translator self-test %s: tools/locktab.py no longer handles a call of a locked method as documented '
                          '(fail closed on a nested / non-tail call, same table for a behaviour-preserving rewrite)' % n, r)
    t2 = time.time()
    ctx.coverage['locktab_wall_s'] = round(t1 - t0, 2)
    if summ:
        ctx.coverage['lock_table'] = summ
    ctx.coverage['trusted_base'] = [
        'Coq 8.16.1 kernel, vm_compute (table checks); no native_compute',
        'tools/locktab.py + clang 14 JSON AST of mem_cache<thread_settings> (lock scopes = RAII guard declarations to end of block; member accesses; '
        'helpers inlined; calls of locked methods: nested scope / alternative path / sequential sections; std:: container methods classified '
        'mutating/read-only by name) with an independent lexical extractor as cross-check',
        'lock model: pthread rwlock = many Shared or one Excl holder, pthread mutex = one holder; guard classes checked down to the pthread calls',
        'sequential semantics of each call: coq/C07/Defs.v (C07 model), extracted with ExtrOcamlBasic, OCaml 4.13.1',
        'harness/C09_mt.cpp (interposed time(), TSan report hook, replaced operator new for the injected std::bad_alloc), ocaml/C09_driver.ml '
        '(Wing-Gong search), checks/C09.py (generators, history oracle)',
        'ThreadSanitizer (clang 14 runtime; gcc 12 libtsan for the cases with injected allocation faults) for happens-before race detection on '
        'the instrumented cache code']
    ctx.assumptions = ['locks are synchronising operations (C++11 memory model); pthread rwlock/mutex implement the lock model',
                       'member-level granularity: all entries of one container are one region (conservative)',
                       'only the base_cache virtual interface reaches the object (checked: the class is local to the TU, factories do not touch it)',
                       'constant clock during a run (time() interposed); the only allocation failure considered is std::bad_alloc in the value copy of store',
                       'linearizability: proved for the data-level lock model, which is proved to refine the table semantics of the current source; that each '
                       'section of the real code has the data effect the model gives it is C07\'s sequential correspondence + search (recorded histories), not a Coq theorem']
    th.join()
    exe, how, tsan_mode, exe_fi, how_fi = hres['r']
    if not exe:
        ctx.broke('TSan harness build failed', how)
        return
    ctx.coverage['harness_build'] = how
    ctx.coverage['harness_build_fault_injection'] = how_fi
    if not exe_fi:
        ctx.notes.append('no harness build in which the injected std::bad_alloc takes effect: the failed-store operation (X) was not exercised')
    ctx.coverage['tsan'] = tsan_mode
    if tsan_mode != 'on':
        ctx.notes.append('ThreadSanitizer unavailable: the harness ran uninstrumented (history oracle and linearizability checks only)')
    mexe, err = vlib.build_model('C09', 'C09_driver.ml', 'c09m')
    if not mexe:
        ctx.broke('model extraction/build failed', err)
    t3 = time.time()
    ctx.coverage['rule'] = (
        'case = limit, constant clock, optional prefill run by the main thread, then one operation sequence per thread (2..8 threads) over 3 keys / 3 triggers '
        '(one trigger is named like a key) or - 40 % of the concurrent, 30 % of the deterministic cases - over 5 keys and 3 trigger names that COLLIDE in the '
        'hash maps of the cache (same string_hash value, computed with the current private/hash_map.h through the harness; also sets that share a bucket '
        'only up to 16 buckets), incl. readers-only phases over one bucket; values carry a unique tag (key, serial) and are 5..700 bytes; deadlines live/at-now/expired; explicit and automatic '
        'generations; limits 0,1,2,3,5; X = store whose value copy throws an injected std::bad_alloc (value >= 16 bytes; must behave like remove). Three families: (a) one thread group - deterministic, compared line by line with the extracted model; (b) race mode - '
        'threads share only the cache and a start line, 20-200 calls each, five shapes (readers only on a prefilled cache, readers with rare writers, one writer '
        'and readers, writers only, uniform mix), verdict = ThreadSanitizer reports + history oracle; (c) history mode - every call bracketed by ticks of a '
        'seq_cst counter, short histories (<= 48 calls) checked linearizable by search against the extracted model. Non-trivial: (a) at least one hit and one '
        'miss; (b) hits in two different threads or a hit and a mutator in different threads; (c) at least one pair of calls of different threads that really '
        'overlapped in time with a mutator among them. distinct = distinct case lines.')
    ctx.coverage['exhaustive'] = False
    jobs = 4 if ctx.quick() else 6
    budget = ctx.scale(300000, 3000000)
    replay = ctx.replay_cases is not None
    if replay:
        # a concurrent failure depends on the schedule: repeat each case with different jitter seeds until it shows
        seq, race, lin = [], [], []
        for c in ctx.replay_cases:
            try:
                mode, limit, now, seed, groups = parse_case(c)
            except Exception:
                ctx.broke('replay file: not a C09 case: ' + c[:200])
                continue
            if len(groups) <= 2:
                seq.append(c)
                continue
            t = c.split()
            variants = [c] + [' '.join(t[:4] + [str(seed + 7919 * k + 1)] + t[5:]) for k in range(1, 40)]
            (lin if mode == 'l' else race).extend(variants)
    else:
        corpus = vlib.corpus_cases('C09')
        coll = collision_universes(exe, ctx.notes)
        ctx.coverage['colliding_key_sets'] = [{'keys': [k.decode('latin1') for k in ks], 'triggers': [t.decode('latin1') for t in ts]} for ks, ts in coll]
        seq, race, lin = gen_cases(ctx, with_x=exe_fi is not None, coll=coll)
        for c in corpus:
            if ' X:' in c and not exe_fi:
                continue
            try:
                mode, limit, now, seed, groups = parse_case(c)
            except Exception:
                continue
            (seq if len(groups) <= 2 else lin if mode == 'l' else race).append(c)
    cov = ctx.coverage
    # (a) deterministic cases: exact correspondence with the model + oracle
    if seq:
        vlib.differential(ctx, seq, exe_fi or exe, mexe, oracle, nontrivial, classify, impl_env=TSAN_ENV, parallel=False,
                          what='single-threaded correspondence (C07 model through Seq.eff) vs the real cache')
    # (b) + (c) concurrent cases
    mt = race + lin
    # cases with an injected allocation fault (X) go through the build in which the fault takes effect
    ix = [i for i, c in enumerate(mt) if ' X:' in c] if exe_fi and exe_fi != exe else []
    if ix:
        sx = set(ix)
        i0 = [i for i in range(len(mt)) if i not in sx]
        with concurrent.futures.ThreadPoolExecutor(2) as pool:
            jb = max(1, min(jobs - 1, round(jobs * len(ix) / float(len(mt)))))
            fa = pool.submit(run_harness, exe, [mt[i] for i in i0], max(1, jobs - jb))
            fb = pool.submit(run_harness, exe_fi, [mt[i] for i in ix], jb)
            (oa, ea), (ob, eb) = fa.result(), fb.result()
        outs = [None] * len(mt)
        for i, o in zip(i0, oa):
            outs[i] = o
        for i, o in zip(ix, ob):
            outs[i] = o
        outs = [o if o is not None else '<skipped>' for o in outs]
        errs = ea + eb
        cov['cases_with_injected_alloc_fault'] = len(ix)
    else:
        outs, errs = run_harness(exe, mt, jobs)
    t4 = time.time()
    seen = set()
    hist = cov.setdefault('distribution', {})
    nfail = 0
    pairs = pairs_mut = 0
    lin_in, lin_idx = [], []
    import hashlib
    nskipped = 0
    for i, (c, o) in enumerate(zip(mt, outs)):
        if o == '<skipped>':
            nskipped += 1
            continue
        r = oracle(c, o)
        if r:
            nfail += 1
            ctx.fail(r[0], r[1] + '\n  case: %s\n  impl: %s' % (c[:1500], o[:1500]), c)
            continue
        k = classify(c, o)
        hist[k] = hist.get(k, 0) + 1
        if nontrivial(c, o):
            seen.add(hashlib.md5(c.encode()).digest())
        if c.split()[1] == 'l':
            mode, limit, now, seed, groups = parse_case(c)
            parse_out(groups, o)
            a, b = overlap_stats(groups)
            pairs += a
            pairs_mut += b
            if mexe:
                lin_in.append(lin_line(c, o, budget))
                lin_idx.append(i)
    verdicts = {'LIN': 0, 'NONLIN': 0, 'BUDGET': 0}
    if lin_in:
        rc, lo, le = vlib.run_lines_parallel(mexe, lin_in, jobs=jobs, timeout=900)
        if len(lo) != len(lin_in):
            ctx.broke('history checker produced %d lines for %d histories' % (len(lo), len(lin_in)), le[-2000:])
        else:
            for i, v in zip(lin_idx, lo):
                w = v.split()[0] if v else '?'
                if w == 'LIN':
                    verdicts['LIN'] += 1
                elif w == 'BUDGET':
                    verdicts['BUDGET'] += 1
                elif w == 'NONLIN':
                    verdicts['NONLIN'] += 1
                    ctx.fail('non-linearizable-history',
                             'no sequential order of the calls that respects real time makes the sequential model return the recorded results (%s)\n'
                             '  case: %s\n  recorded history (thread groups; inv,res,result): %s' % (v, mt[i][:1500], outs[i][:1500]), mt[i])
                else:
                    ctx.broke('history checker answered: ' + v[:300], mt[i][:600])
    t5 = time.time()
    if replay and (race or lin) and not ctx.failures:
        ctx.notes.append('replay: the concurrent case was repeated with 40 jitter seeds without reproducing a failure')
    cov['evaluations'] = cov.get('evaluations', 0) + len(mt) - nskipped
    if nskipped:
        cov['skipped_after_repeated_failure'] = nskipped
    prev = cov.get('distinct_nontrivial', 0)
    cov['distinct_nontrivial'] = prev + len(seen)
    cov['concurrent_runs'] = {'race_mode': len(race), 'history_mode': len(lin)}
    cov['histories_checked'] = verdicts
    cov['overlapping_cross_thread_call_pairs'] = pairs
    cov['overlapping_pairs_with_a_mutator'] = pairs_mut
    cov['tsan_stderr_excerpt'] = errs[:1500] if errs else ''
    cov['phase_wall_s'] = {'locktab': round(t1 - t0, 1), 'coq': round(t2 - t1, 1), 'builds': round(t3 - t2, 1),
                           'harness_runs': round(t4 - t3, 1), 'history_checker': round(t5 - t4, 1)}
    step = max(1, len(mt) // 3)
    for i in range(0, len(mt), step):
        cov.setdefault('samples', []).append({'case': mt[i][:400], 'impl': outs[i][:400]})
