"""C20 -- URL routing is deterministic, whole-string, and consistent with URL generation."""
import os, re, itertools
import vlib
from vlib import hexs, unhex

META = dict(
    property_id='C20',
    design_ref='DESIGN.md section 4, C20',
    technique=('Coq proof (Brzozowski-derivative matcher correct w.r.t. the declarative language, induction over option lists and '
               'application trees) + extracted-model correspondence against real cppcms::application trees / mount points, '
               'with an independent regex engine (Python re) as the property oracle'),
    level_text=('Theorems in coq/C20/Props.v about the executable model of booster::regex::match (whole-string), url_dispatcher '
                '(ordered options, assign/map handlers, method filters, mounted sub-applications), mount_point::match + the '
                'applications_pool scan, and url_mapper (template parser, key tables with arity overloads, key navigation, parent walk): '
                'full_match r s = true <-> s in L(r) for every regex of the family and every byte string (derivative matcher correct); '
                'the route matcher returns exactly the unique parse of the whole string (route_match_fill / route_match_sound); '
                'dispatch fires the handler of the least index whose pattern and method filter match, with exactly the selected groups, '
                'and reports not-found iff none matches (first_match, not_found_iff); a fired handler implies the entire url is in the '
                'language of its pattern and the entire method in the language of its filter (whole_string); same for the mount-point '
                'list (pool_first_match); for site trees of any depth whose dispatcher and mapper are derived from the same routes, '
                'dispatching map(key, params) from the root reaches the handler registered for key with exactly params, provided no '
                'earlier sibling matches the generated url at each level (map_dispatch); unknown key or wrong arity is an error and '
                'never a partial url (mapper_total). The model is run against the real code on generated application trees (depth 1-4, '
                '1-6 handlers per node, 0-6 groups, method filters) with urls drawn from / one edit away from / outside the pattern '
                'languages, mapper keys relative / absolute / dot-dot / keyword parameters, and mounted pools with host/script/path '
                'patterns; PCRE is thereby compared with the verified matcher on the family.'),
    level_note=('Trusted: Coq kernel + vm_compute; extraction; the pattern printer (model AST -> PCRE text) is tied to PCRE only by '
                'correspondence on generated cases, PCRE itself is not verified; captures are specified only for the route family '
                '(unambiguous parameter boundaries); patterns outside the family (back-references, look-around, patterns that unbalance '
                'the (?:...)\\z wrapper) and private/rewrite.h are not covered; application_specific_pool::get is library-private, so the '
                'application object handed out by a pool is built by the harness from the same description; cxx2v has no loop-free '
                'integer leaf in the anchored code to translate (T-tie not applicable), the tie is correspondence + oracle.'),
)

GEN = {}

# ------------------------------------------------------------------------------------------------
# AST of the regex family (mirrors coq/C20/Defs.v: re, cset, relem) and its text encodings
# ------------------------------------------------------------------------------------------------
DIG = (False, ((48, 57),))
LOW = (False, ((97, 122),))
ALNUM = (False, ((48, 57), (97, 122)))
WORD = (False, ((48, 57), (65, 90), (95, 95), (97, 122)))
HEXC = (False, ((48, 57), (97, 102)))
UPC = (False, ((65, 90),))
DOT = (True, ((10, 10),))
NOSL = (True, ((47, 47),))
AB = (False, ((97, 98),))
ANY = (True, ())
CLASSES = [DIG, LOW, ALNUM, WORD, HEXC, DOT, NOSL, AB, UPC]
PALETTE = [97, 98, 122, 48, 49, 57, 47, 95, 45, 46, 10, 0, 65, 90, 0xe9, 32, 0x7f, 123, 125, 102, 103, 59, 44, 13, 0x80]


def cmem(cs, c):
    return cs[0] ^ any(lo <= c <= hi for lo, hi in cs[1])


def wr_cset(cs):
    return ('!' if cs[0] else '') + ''.join('%02x%02x' % r for r in cs[1]) + ';'


def wr_re(r):
    t = r[0]
    if t in 'ze':
        return t
    if t == 'c':
        return 'c%02x' % r[1]
    if t == 's':
        return 's' + wr_cset(r[1])
    if t in '&|':
        return t + wr_re(r[1]) + wr_re(r[2])
    return t + wr_re(r[1])


def wr_route(rt):
    out = []
    for e in rt:
        if e[0] == 'L':
            out.append('L' + (bytes(e[1]).hex()) + ',')
        else:
            out.append('P' + ('1' if e[2] else '0') + wr_cset(e[1]))
    return 'R' + ''.join(out)


def lit(b):
    r = ('e',)
    for c in reversed(b):
        r = ('&', ('c', c), r)
    return r


def wr_pat(p):
    return wr_route(p[1]) if p[0] == 'R' else 'E' + wr_re(p[1])


def pick_byte(rng, cs):
    for _ in range(6):
        c = rng.choice(PALETTE)
        if cmem(cs, c):
            return c
    ok = [c for c in range(256) if cmem(cs, c)]
    return rng.choice(ok) if ok else None


def sample_re(rng, r, depth=0):
    t = r[0]
    if t == 'z':
        return None
    if t == 'e':
        return b''
    if t == 'c':
        return bytes([r[1]])
    if t == 's':
        c = pick_byte(rng, r[1])
        return None if c is None else bytes([c])
    if t == '&':
        a, b = sample_re(rng, r[1], depth), sample_re(rng, r[2], depth)
        return None if a is None or b is None else a + b
    if t == '|':
        x = [r[1], r[2]]
        rng.shuffle(x)
        for y in x:
            s = sample_re(rng, y, depth)
            if s is not None:
                return s
        return None
    if t == 'g':
        return sample_re(rng, r[1], depth)
    lo = 1 if t == '+' else 0
    hi = 1 if t == '?' else rng.choice([0, 1, 2, 3])
    n = max(lo, hi)
    out = b''
    for _ in range(n):
        s = sample_re(rng, r[1], depth + 1)
        if s is None:
            return None if lo else b''
        out += s
    return out


def sample_param(rng, cs, plus):
    n = rng.choice([0, 1, 1, 2, 3, 5]) if not plus else rng.choice([1, 1, 2, 3, 5])
    out = []
    for _ in range(n):
        c = pick_byte(rng, cs)
        if c is None:
            break
        out.append(c)
    if plus and not out:
        return None
    return bytes(out)


def sample_route(rng, rt):
    """(url, params) from the language of a route, or None"""
    url, ps = b'', []
    for e in rt:
        if e[0] == 'L':
            url += bytes(e[1])
        else:
            p = sample_param(rng, e[1], e[2])
            if p is None:
                return None
            url += p
            ps.append(p)
    return url, ps


def sample_pat(rng, p):
    if p[0] == 'R':
        r = sample_route(rng, p[1])
        return None if r is None else r[0]
    return sample_re(rng, p[1])


def edit(rng, s):
    """one edit away: the boundary cases of whole-string matching"""
    k = rng.randrange(12)
    if k == 0:
        return s + b'\n'
    if k == 1:
        return s + b'\x00' + rng.choice([b'', b'zzz', b'/a'])
    if k == 2 and s:
        return s[:rng.randrange(len(s))]                       # proper prefix
    if k == 3:
        return s + bytes([rng.choice(PALETTE)])                # one-byte suffix
    if k == 4:
        return bytes([rng.choice(PALETTE)]) + s                # one-byte prefix
    if k == 5 and s:
        i = rng.randrange(len(s))
        return s[:i] + s[i + 1:]                               # deletion
    if k == 6 and s:
        i = rng.randrange(len(s))
        return s[:i] + bytes([rng.choice(PALETTE)]) + s[i + 1:]  # substitution
    if k == 7:
        i = rng.randrange(len(s) + 1)
        return s[:i] + bytes([rng.choice(PALETTE)]) + s[i:]    # insertion
    if k == 8 and s:
        i = rng.randrange(len(s))
        return s[:i] + b'\x00' + s[i:]                         # NUL inside
    if k == 9:
        return s + s
    if k == 10 and s:
        return s[1:]
    return s + b'/'


WORDS = [b'a', b'ab', b'b', b'p', b'page', b'x1', b'A', b'_', b'0']
SEPS = [b'/', b'-', b'.', b'/x/', b'_', b'\n', b'/p/', b';']
METHODS = [b'GET', b'POST', b'PUT', b'get', b'G', b'GETS', b'PO', b'HEAD']


def gen_route(rng, npar=None, lead=True):
    """a route satisfying route_ok (unambiguous parameter boundaries)"""
    if npar is None:
        npar = rng.choice([0, 1, 1, 1, 2, 2, 3, 4, 5, 6])
    rt = []
    if lead or rng.random() < 0.8:
        rt.append(('L', b'/' + (rng.choice(WORDS) if rng.random() < 0.6 else b'') + (b'/' if rng.random() < 0.3 else b'')))
    for i in range(npar):
        last = i == npar - 1
        for _ in range(20):
            cs = rng.choice(CLASSES)
            seps = [s for s in SEPS if not cmem(cs, s[0])]
            if last or seps:
                break
        plus = rng.random() < 0.7
        rt.append(('P', cs, plus))
        if not last:
            rt.append(('L', rng.choice(seps)))
        elif rng.random() < 0.35 and seps:
            rt.append(('L', rng.choice(seps)))
    if not rt:
        rt.append(('L', b'/'))
    # merge adjacent literals
    out = []
    for e in rt:
        if e[0] == 'L' and out and out[-1][0] == 'L':
            out[-1] = ('L', out[-1][1] + e[1])
        else:
            out.append(e)
    return out


def nparams(rt):
    return sum(1 for e in rt if e[0] == 'P')


def gen_atom(rng):
    if rng.random() < 0.5:
        return lit(rng.choice(WORDS + [b'/', b'/a', b'/ab']))
    return ('s', rng.choice(CLASSES))


def gen_re(rng, depth=2):
    """general regex of the family without capture groups.  Bodies of * and + are single atoms (a literal or a class),
    so that no pattern is exponentially ambiguous for a back-tracking engine (PCRE has a step limit, the reference
    engine of the oracle has none)."""
    k = rng.randrange(10)
    if depth <= 0 or k < 3:
        return gen_atom(rng)
    if k < 5:
        return ('&', gen_re(rng, depth - 1), gen_re(rng, depth - 1))
    if k < 7:
        return ('|', gen_re(rng, depth - 1), gen_re(rng, depth - 1))
    if k == 7:
        return ('*', gen_atom(rng))
    if k == 8:
        return ('+', gen_atom(rng))
    return ('?', gen_re(rng, depth - 1))


def gen_pattern(rng):
    if rng.random() < 0.75:
        return ('R', gen_route(rng))
    r = ('&', lit(b'/'), gen_re(rng, 3))
    if rng.random() < 0.1:
        r = rng.choice([('z',), ('e',), ('g', r), ('|', r, ('z',)), ('*', ('?', lit(b'/a'))), ('+', ('*', ('c', 97)))])
    return ('E', r)


def gen_mfilter(rng):
    k = rng.randrange(6)
    if k == 0:
        return ('E', lit(b'GET'))
    if k == 1:
        return ('E', lit(b'POST'))
    if k == 2:
        return ('E', ('|', lit(b'GET'), lit(b'POST')))
    if k == 3:
        return ('E', ('&', lit(b'P'), ('*', ('s', DOT))))
    if k == 4:
        return ('E', lit(b'get'))
    return ('E', ('&', lit(b'GET'), ('?', lit(b'S'))))


class HidCounter:
    def __init__(self):
        self.n = 0

    def next(self):
        self.n += 1
        return self.n


def gen_handler(rng, hc):
    p = gen_pattern(rng)
    kind = 'm' if rng.random() < 0.45 else 'a'
    mf = gen_mfilter(rng) if kind == 'm' and rng.random() < 0.6 else None
    if p[0] == 'R':
        n = nparams(p[1])
        r = rng.random()
        if r < 0.6:
            sel = list(range(1, n + 1))[:6]
        elif r < 0.75:
            sel = [rng.randrange(0, n + 2) for _ in range(rng.randrange(0, 7))]
        elif r < 0.85:
            sel = [0]
        else:
            sel = list(reversed(range(1, n + 1)))[:6]
    else:
        sel = rng.choice([[], [], [0], [0, 0]])
        if not any_group(p[1]) and rng.random() < 0.2:
            sel = sel + [1]
    return ('H', kind, p, mf, hc.next(), sel)


def any_group(r):
    t = r[0]
    if t == 'g':
        return True
    if t in 'zecs':
        return False
    return any(any_group(x) for x in r[1:])


def gen_mount_opt(rng, kid):
    k = rng.random()
    prefix = b'/' + rng.choice(WORDS)
    if k < 0.7:
        rt = [('L', prefix), ('P', DOT, False)]
        return ('X', ('R', rt), 1, kid)
    if k < 0.8:
        rt = [('L', prefix), ('P', NOSL, True), ('L', b'/'), ('P', DOT, False)]
        return ('X', ('R', rt), rng.choice([1, 2, 2]), kid)
    if k < 0.9:
        rt = [('L', prefix), ('P', ANY, False)]
        return ('X', ('R', rt), rng.choice([0, 1, 2]), kid)
    return ('X', ('R', [('L', prefix + b'/'), ('P', ALNUM, True)]), 1, kid)


KEYS = [b'a', b'b', b'page', b'p', b'k1', b'', b'x.y', b'A']
BADKEYS = [b'a/b', b'.', b'..', b'a;b', b'a,b']
TMPLS = [b'/a', b'/a/{1}', b'/{1}/{2}', b'/{2}/{1}', b'/p/{1}-{2}.{3}', b'/{lang}/a/{1}', b'{1}', b'/x{1}', b'/{1}{1}', b'',
         b'/{1}/{2}/{3}/{4}/{5}/{6}', b'/q{3}', b'/{10}']
BADTMPLS = [b'/{', b'/}', b'/{}', b'/{0}', b'/{1', b'/a}b{1}', b'/{00}']


def gen_ments(rng, nk, kidnames):
    ms = []
    for _ in range(rng.randrange(0, 6)):
        key = rng.choice(KEYS)
        if rng.random() < 0.01:
            key = rng.choice(BADKEYS)
        t = rng.choice(TMPLS)
        if rng.random() < 0.01:
            t = rng.choice(BADTMPLS)
        ms.append(('U', key, t))
    for k in range(nk):
        if rng.random() < 0.85:
            name = kidnames[k]
            t = rng.choice([b'/' + name + b'{1}', b'/' + name + b'{1}', b'{1}', b'/m{1}/z'])
            if rng.random() < 0.015:
                t = rng.choice([b'/m', b'/{1}{2}', b'/{2}'])
            ms.insert(rng.randrange(len(ms) + 1), ('C', name, t, k))
    return ms


def gen_app(rng, depth, hc):
    nk = 0 if depth <= 1 else rng.choice([1, 1, 2]) if depth >= 3 else rng.choice([0, 1, 1, 2])
    kids = [gen_app(rng, depth - 1, hc) for _ in range(nk)]
    opts = [gen_handler(rng, hc) for _ in range(rng.randint(1, 6))]
    for k in range(nk):
        for _ in range(rng.choice([1, 1, 1, 2, 0]) if depth < 4 else 1):
            opts.insert(rng.randrange(len(opts) + 1), gen_mount_opt(rng, k))
    names = rng.sample([b'c', b'd', b'sub', b'e', b'c', b'k1'], nk)
    ments = gen_ments(rng, nk, names)
    root = rng.choice([b'', b'', b'', b'/r', b'http://h/s'])
    return dict(root=root, opts=opts, ments=ments, kids=kids)


def wr_app(a):
    t = ['(', hexs(a['root']), 'O%d' % len(a['opts'])]
    for o in a['opts']:
        if o[0] == 'H':
            _, kind, p, mf, hid, sel = o
            t += ['H', kind, wr_pat(p), '@' if mf is None else wr_pat(mf), str(hid), str(len(sel))] + [str(x) for x in sel]
        else:
            _, p, sel, kid = o
            t += ['X', wr_pat(p), str(sel), str(kid)]
    t.append('M%d' % len(a['ments']))
    for m in a['ments']:
        if m[0] == 'U':
            t += ['U', hexs(m[1]), hexs(m[2])]
        else:
            t += ['C', hexs(m[1]), hexs(m[2]), str(m[3])]
    t.append('K%d' % len(a['kids']))
    for k in a['kids']:
        t.append(wr_app(k))
    t.append(')')
    return ' '.join(t)


def sample_url(rng, a, depth=0):
    """a url aimed at some option of the tree (through the mounts)"""
    o = rng.choice(a['opts'])
    if o[0] == 'H':
        s = sample_pat(rng, o[2])
        return s if s is not None else b'/'
    _, p, sel, kid = o
    rt = p[1]
    sub = sample_url(rng, a['kids'][kid], depth + 1) if depth < 5 else b'/'
    url, gi = b'', 0
    for e in rt:
        if e[0] == 'L':
            url += bytes(e[1])
        else:
            gi += 1
            if gi == sel and all(cmem(e[1], c) for c in sub) and (sub or not e[2]):
                url += sub
            else:
                url += sample_param(rng, e[1], e[2]) or b'x'
    return url


def app_positions(a, pos=()):
    yield pos, a
    for i, k in enumerate(a['kids']):
        for x in app_positions(k, pos + (i,)):
            yield x


def pos_str(pos):
    return 'r' if not pos else '.'.join(str(x) for x in pos)


def gen_key(rng, root, pos, a):
    """mapper key for a call made at position pos: relative, absolute, dot, dot-dot, keywords"""
    names = [m[1] for m in a['ments']]
    allnames = [m[1] for _, b in app_positions(root) for m in b['ments']]
    def comp():
        r = rng.random()
        if r < 0.5 and names:
            return rng.choice(names)
        if r < 0.7 and allnames:
            return rng.choice(allnames)
        if r < 0.8:
            return b'..'
        if r < 0.87:
            return b'.'
        if r < 0.93:
            return b''
        return rng.choice([b'zz', b'a', b'c'])
    n = rng.choice([1, 1, 1, 2, 2, 3, 4])
    key = b'/'.join(comp() for _ in range(n))
    if rng.random() < 0.3:
        key = b'/' + key
    if rng.random() < 0.15:
        key += b';' + b','.join(rng.choice([b'lang', b'x', b'']) for _ in range(rng.choice([1, 1, 2, 3])))
    if rng.random() < 0.02:
        key += b'\x00junk'
    return key


PARAMS = [b'1', b'42', b'abc', b'', b'a/b', b'x y', b'\xe9', b'en', b'0', b'a\x00b', b'line\n']


def tree_case(rng, depth, nul_params=False):
    hc = HidCounter()
    a = gen_app(rng, depth, hc)
    throws = rng.choice('01')
    vals = []
    if rng.random() < 0.5:
        vals = [(b'lang', rng.choice([b'en', b'he', b'']))]
        if rng.random() < 0.3:
            vals.append((b'x', b'1'))
    q = []
    for _ in range(rng.choice([8, 12, 16])):
        u = sample_url(rng, a)
        r = rng.random()
        if r < 0.45:
            u = edit(rng, u)
        elif r < 0.5:
            u = bytes(rng.choice(PALETTE) for _ in range(rng.randrange(0, 6)))
        ctxs = rng.random()
        c = '~' if ctxs < 0.12 else hexs(rng.choice(METHODS[:3]) if ctxs < 0.7 else rng.choice(METHODS))
        q += ['d', c, hexs(u)]
    plist = list(app_positions(a))
    for _ in range(rng.choice([4, 8])):
        pos, b = rng.choice(plist)
        key = gen_key(rng, a, pos, b)
        np = rng.choice([0, 1, 1, 2, 2, 3, 4, 6])
        ps = [rng.choice(PARAMS) for _ in range(np)]
        if throws == '0' and not nul_params:
            ps = [x.replace(b'\x00', b'0') for x in ps]
        kind = 'x' if rng.random() < 0.5 else 'm'
        q += [kind, pos_str(pos), hexs(key)] + (['*'] if kind == 'x' else []) + [str(np)] + [hexs(p) for p in ps]
    vt = 'V%d' % len(vals) + ''.join(' %s %s' % (hexs(k), hexs(v)) for k, v in vals)
    return 'T %s %s %s Q %s' % (throws, vt, wr_app(a), ' '.join(q))


# ---- sites: dispatcher and mapper derived from the same routes (the map_dispatch theorem) -----------------
def gen_site(rng, depth, hc, used_prefix=None):
    npages = rng.randint(1, 6)
    pages, seen = [], set()
    for _ in range(npages):
        rt = gen_route(rng)
        # the url of a page must be in the class of every enclosing mount parameter (any byte but newline)
        key = rng.choice([b'a', b'b', b'page', b'p', b'k1', b'', b'', b'x.y', b'A', b'q', b'r'])
        if (key, nparams(rt)) in seen:
            continue
        seen.add((key, nparams(rt)))
        pages.append((key, rt, hc.next()))
    subs = []
    if depth > 1:
        names = rng.sample([b'c', b'd', b'sub', b'e'], rng.choice([1, 1, 2]) if depth >= 3 else rng.choice([0, 1, 2]))
        for nm in names:
            prefix = b'/' + rng.choice([nm, nm, b'a', b'p', b'ab'])
            subs.append((nm, prefix, gen_site(rng, depth - 1, hc)))
    return (pages, subs)


def wr_site(s):
    pages, subs = s
    t = ['[', 'P%d' % len(pages)]
    for key, rt, hid in pages:
        t += [hexs(key), wr_route(rt), str(hid)]
    t.append('B%d' % len(subs))
    for nm, prefix, sub in subs:
        t += [hexs(nm), hexs(prefix), wr_site(sub)]
    t.append(']')
    return ' '.join(t)


def site_nodes(s, path=(), names=(), prefix=b''):
    yield path, names, prefix, s
    for i, (nm, pf, sub) in enumerate(s[1]):
        for x in site_nodes(sub, path + (i,), names + (nm,), prefix + pf):
            yield x


def rel_key(rng, frm, to, page_key):
    """key that names page_key of the node with mapper-name path `to`, used at the node with path `frm`.  The default
    page (empty key) of another node is also addressed by the bare path of that node (final component = a mount name
    or `..`), without the trailing slash."""
    bare = page_key == b'' and rng.random() < 0.5
    if rng.random() < 0.4:
        if bare and to:
            return b'/' + b'/'.join(to)
        return b'/' + b'/'.join(to + (page_key,))
    i = 0
    while i < len(frm) and i < len(to) and frm[i] == to[i]:
        i += 1
    comps = (b'..',) * (len(frm) - i) + to[i:]
    if rng.random() < 0.2:
        comps = (b'.',) + comps
    if bare and comps:
        return b'/'.join(comps)
    return b'/'.join(comps + (page_key,))


def site_case(rng, depth, nul_params=False):
    hc = HidCounter()
    s = gen_site(rng, depth, hc)
    nodes = list(site_nodes(s))
    throws = '0' if nul_params else rng.choice('01')
    q = []
    for _ in range(rng.choice([8, 12])):
        path, names, prefix, node = rng.choice(nodes)
        if not node[0]:
            continue
        key, rt, hid = rng.choice(node[0])
        fpath, fnames, _, _ = rng.choice(nodes)
        sm = sample_route(rng, rt)
        if sm is None:
            continue
        _, ps = sm
        r = rng.random()
        if r < 0.15 and ps:                      # parameter outside its class / wrong arity: no expectation
            i = rng.randrange(len(ps))
            ps = ps[:i] + [rng.choice(PARAMS)] + ps[i + 1:]
        elif r < 0.2:
            ps = (ps + [b'1'])[:6] if rng.random() < 0.5 else ps[:-1]
        if nul_params and ps and rng.random() < 0.6:
            i = rng.randrange(len(ps))
            cls = [e[1] for e in rt if e[0] == 'P']
            if i < len(cls) and cmem(cls[i], 0):
                j = rng.randrange(len(ps[i]) + 1)
                ps = ps[:i] + [ps[i][:j] + b'\x00' + ps[i][j:]] + ps[i + 1:]
        if throws == '0' and not nul_params:
            ps = [x.replace(b'\x00', b'0') for x in ps]
        eurl = prefix
        k = 0
        for e in rt:
            if e[0] == 'L':
                eurl += bytes(e[1])
            elif k < len(ps):
                eurl += ps[k]
                k += 1
        mk = rel_key(rng, fnames, names, key)
        q += ['x', pos_str(fpath), hexs(mk), '%d:%s' % (hid, hexs(eurl)), str(len(ps))] + [hexs(p) for p in ps]
        # the generated url, and urls near it, through the dispatcher with other contexts
        u = eurl if rng.random() < 0.4 else edit(rng, eurl)
        q += ['d', rng.choice(['~', hexs(b'GET'), hexs(b'POST')]), hexs(u)]
    return 'S %s V0 %s Q %s' % (throws, wr_site(s), ' '.join(q))


# ---- pools: mount points with host / script / path patterns -------------------------------------------------
HOSTS = [b'h', b'example.com', b'www.example.com', b'a.b', b'H']
SCRIPTS = [b'/s', b'/app', b'', b'/s2', b'/app/x']


def gen_mp(rng):
    def hostp():
        k = rng.randrange(4)
        if k == 0:
            return None
        if k == 1:
            return ('E', lit(rng.choice(HOSTS)))
        if k == 2:
            return ('E', ('&', ('?', lit(b'www.')), lit(b'example.com')))
        return ('R', [('P', WORD, False), ('L', b'.'), ('P', LOW, True)])
    def scriptp(grouped):
        k = rng.randrange(4)
        if k == 0:
            return None
        if k == 1:
            return ('E', lit(rng.choice(SCRIPTS)))
        if k == 2:
            return ('R', [('L', b'/'), ('P', LOW, True)] + ([('L', b'/'), ('P', DOT, False)] if rng.random() < 0.5 else []))
        return ('E', ('&', lit(b'/app'), ('?', ('&', lit(b'/'), ('*', ('s', DOT))))))
    def pathp():
        k = rng.randrange(5)
        if k == 0:
            return None
        if k == 1:
            return ('R', [('L', b'/' + rng.choice(WORDS)), ('P', DOT, False)])
        if k == 2:
            return ('R', [('L', b'/'), ('P', NOSL, True), ('L', b'/'), ('P', DOT, False)])
        if k == 3:
            return ('E', ('&', lit(b'/'), gen_re(rng, 2)))
        return ('R', gen_route(rng))
    selpath = rng.random() < 0.7
    h, s, p = hostp(), scriptp(not selpath), pathp()
    selpat = p if selpath else s
    ng = nparams(selpat[1]) if selpat is not None and selpat[0] == 'R' else 0
    g = rng.choice([0] + list(range(0, ng + 1)) + ([ng + 1] if rng.random() < 0.1 and selpat is not None and selpat[0] == 'R' else []))
    if selpat is None or selpat[0] == 'E':
        g = 0
    return dict(h=h, s=s, p=p, g=g, sel='p' if selpath else 's')


def wr_mp(mp):
    f = lambda x: '-' if x is None else wr_pat(x)
    return '{ %s %s %s %d %s }' % (f(mp['h']), f(mp['s']), f(mp['p']), mp['g'], mp['sel'])


def pool_case(rng, nul_in_k=False):
    hc = HidCounter()
    n = rng.choice([1, 2, 3, 4])
    pools = [(gen_mp(rng), gen_app(rng, rng.choice([1, 1, 2]), hc)) for _ in range(n)]
    def strip(a):
        a['ments'] = []
        for k in a['kids']:
            strip(k)
    for _, a in pools:
        strip(a)
    q = []
    def field(pat, base, hit):
        s = None
        if pat is not None and (hit or rng.random() < 0.5):
            s = sample_pat(rng, pat)
        if s is None:
            s = rng.choice(base)
        return s
    for _ in range(rng.choice([6, 10])):
        mp, a = rng.choice(pools)
        hit = rng.random() < 0.8
        h, s, p = field(mp['h'], HOSTS, hit), field(mp['s'], SCRIPTS, hit), field(mp['p'], [b'/', b'/a', b'/ab/c'], hit)
        if rng.random() < 0.5:
            sub = sample_url(rng, a)
            selpat = mp['p'] if mp['sel'] == 'p' else mp['s']
            if selpat is not None and selpat[0] == 'R' and mp['g'] >= 1:
                url, gi = b'', 0
                for e in selpat[1]:
                    if e[0] == 'L':
                        url += bytes(e[1])
                    else:
                        gi += 1
                        url += sub if gi == mp['g'] and all(cmem(e[1], c) for c in sub) and (sub or not e[2]) else (sample_param(rng, e[1], e[2]) or b'x')
                if mp['sel'] == 'p':
                    p = url
                else:
                    s = url
        if rng.random() < 0.4:
            w = rng.randrange(3)
            if w == 0:
                h = edit(rng, h)
            elif w == 1:
                s = edit(rng, s)
            else:
                p = edit(rng, p)
        if rng.random() < 0.6:
            q += ['q', hexs(h), hexs(s), hexs(p), hexs(rng.choice(METHODS[:3]))]
        else:
            if not nul_in_k:
                h, s, p = [x.replace(b'\x00', b'0') for x in (h, s, p)]
            q += ['k', str(rng.randrange(n)) if rng.random() < 0.3 else str(pools.index((mp, a))), hexs(h), hexs(s), hexs(p)]
    return 'G N%d %s Q %s' % (n, ' '.join(wr_mp(mp) + ' ' + wr_app(a) for mp, a in pools), ' '.join(q))


# ---- exhaustive small domain: every string of length <= 3 over a 4-letter alphabet against fixed overlapping handlers ----
def exhaustive_cases():
    alpha = [47, 97, 49, 10]
    opts = [
        ('H', 'a', ('R', [('L', b'/'), ('P', DIG, True)]), None, 1, [1]),
        ('H', 'a', ('R', [('L', b'/'), ('P', ALNUM, True)]), None, 2, [1]),
        ('H', 'a', ('R', [('L', b'/a'), ('P', DOT, False)]), None, 3, [1, 0]),
        ('H', 'm', ('E', ('&', lit(b'/'), ('*', ('|', lit(b'a'), lit(b'1'))))), ('E', lit(b'GET')), 4, [0]),
        ('H', 'a', ('R', [('P', NOSL, False), ('L', b'/'), ('P', DOT, False)]), None, 5, [2, 1]),
        ('H', 'a', ('E', ('*', ('s', ANY))), None, 6, []),
    ]
    a = dict(root=b'', opts=opts, ments=[], kids=[])
    strs = [b'']
    for n in range(1, 4):
        strs += [bytes(t) for t in itertools.product(alpha, repeat=n)]
    cases = []
    for i in range(0, len(strs), 17):
        q = []
        for s in strs[i:i + 17]:
            q += ['d', hexs(b'GET'), hexs(s), 'd', hexs(b'POST'), hexs(s)]
        cases.append('T 1 V0 %s Q %s' % (wr_app(a), ' '.join(q)))
    return cases


def gen_abstract(ctx):
    rng = ctx.rng
    cases = exhaustive_cases()
    nt = ctx.scale(1800, 20000)
    for i in range(nt):
        cases.append(tree_case(rng, rng.choice([1, 1, 2, 2, 3, 4])))
    for i in range(ctx.scale(1300, 12000)):
        cases.append(site_case(rng, rng.choice([1, 2, 2, 3, 3, 4])))
    for i in range(ctx.scale(900, 8000)):
        cases.append(pool_case(rng))
    return cases


# ------------------------------------------------------------------------------------------------
# oracle: the property evaluated on the implementation's answers with an independent regex engine
# ------------------------------------------------------------------------------------------------
_rc = {}


def full(pat, s):
    r = _rc.get(pat)
    if r is None:
        try:
            r = re.compile(pat)
        except re.error:
            r = False
        if len(_rc) > 20000:
            _rc.clear()
        _rc[pat] = r
    if r is False:
        return None
    return r.fullmatch(s)


def grp(m, k):
    if k < 0 or k > m.re.groups:
        return b''
    g = m.group(k)
    return b'' if g is None else g


def latin1_ok(c):
    return c in (9, 10, 13) or not (c < 32 or 127 <= c < 160)


class Toks:
    def __init__(self, t):
        self.t, self.i = t, 0

    def next(self):
        x = self.t[self.i]
        self.i += 1
        return x

    def peek(self):
        return self.t[self.i] if self.i < len(self.t) else ''

    def end(self):
        return self.i >= len(self.t)

    def counted(self, c):
        x = self.next()
        assert x[0] == c
        return int(x[1:])

    def pat(self):
        x = self.next()
        return unhex(x.split(':', 1)[0])


def parse_app(t):
    assert t.next() == '('
    a = dict(root=unhex(t.next()), opts=[], ments=[], kids=[])
    for _ in range(t.counted('O')):
        ty = t.next()
        if ty == 'H':
            kind = t.next()
            p = t.pat()
            if t.peek() == '@':
                t.next()
                mf = None
            else:
                mf = t.pat()
            hid = int(t.next())
            sel = [int(t.next()) for _ in range(int(t.next()))]
            a['opts'].append(('H', kind, p, mf, hid, sel))
        else:
            p = t.pat()
            sel = int(t.next())
            kid = int(t.next())
            a['opts'].append(('X', p, sel, kid))
    for _ in range(t.counted('M')):
        ty = t.next()
        if ty == 'U':
            a['ments'].append(('U', unhex(t.next()), unhex(t.next())))
        else:
            a['ments'].append(('C', unhex(t.next()), unhex(t.next()), int(t.next())))
    for _ in range(t.counted('K')):
        a['kids'].append(parse_app(t))
    assert t.next() == ')'
    return a


def py_dispatch(a, url, method):
    """reference semantics of the property: first option in registration order whose method filter and pattern match the
    WHOLE string; returns the outcome text in the format of the harness"""
    for o in a['opts']:
        if o[0] == 'H':
            _, kind, p, mf, hid, sel = o
            if kind == 'm':
                if method is None:
                    continue
                if mf is not None and not full(mf, method):
                    continue
            m = full(p, url)
            if not m:
                continue
            args = [grp(m, k) for k in sel]
            if kind == 'm' and not all(latin1_ok(c) for x in args for c in x):
                continue
            return 'F %d %d%s' % (hid, len(args), ''.join(' ' + hexs(x) for x in args))
        _, p, sel, kid = o
        m = full(p, url)
        if not m:
            continue
        r = py_dispatch(a['kids'][kid], grp(m, sel), method)
        if r == 'N' and method is None:
            return 'T'
        return r
    return 'N'


def py_main(a, url, method):
    r = py_dispatch(a, url, method)
    return 'T' if r == 'N' and method is None else r


def tree_keys(a, acc):
    for m in a['ments']:
        acc.add(m[1])
    for k in a['kids']:
        tree_keys(k, acc)
    return acc


def tmpl_arity(t):
    mx = 0
    for m in re.finditer(rb'\{(\d+)\}', t):
        mx = max(mx, int(m.group(1)))
    return mx


def tree_key_arities(a, acc):
    for m in a['ments']:
        if m[0] == 'U':
            acc.add((m[1], tmpl_arity(m[2])))
    for k in a['kids']:
        tree_key_arities(k, acc)
    return acc


INVALID = b'/this_is_an_invalid_url_generated_by_url_mapper'


def oracle_map(root, throws, key, ps, res, qi):
    """mapper_total: an error is an error (exception, or the invalid-url marker), never a partial url; a key whose final
    component is registered nowhere in the tree with that arity cannot produce a url"""
    if 'PARTIAL' in res:
        return ('mapper-partial-url', 'query %d: url_mapper::map threw after writing part of a url to the stream: %s' % (qi, res))
    r = res.split()
    if r[0] == 'E':
        if not throws:
            return ('mapper-throws-when-configured-not-to', 'query %d: exception although invalid_url_throws=false' % qi)
        return None
    if r[0] != 'U':
        return ('bad-output-map', 'query %d: unexpected answer %s' % (qi, res))
    url = unhex(r[1])
    key = key.split(b'\x00')[0]
    final = key.split(b'/')[-1]
    nkw = 0
    if b';' in final:
        final, kws = final.split(b';', 1)
        nkw = len(kws.split(b','))
    must_fail = None
    if len(ps) < nkw:
        must_fail = 'more keywords than parameters'
    elif key != b'':
        ar = len(ps) - nkw
        names = set(m[1] for _, b in app_positions(root) for m in b['ments'] if m[0] == 'C')
        kas = tree_key_arities(root, set())
        if final in (b'.', b'..', b'') or final in names:
            if (b'', ar) not in kas and not (final not in (b'.', b'..', b'') and (final, ar) in kas):
                must_fail = 'no default url with %d parameters anywhere in the tree' % ar
        elif (final, ar) not in kas:
            must_fail = 'key %r is not registered with %d parameters anywhere in the tree' % (final, ar)
    elif (b'', len(ps)) not in tree_key_arities(root, set()):
        must_fail = 'no default url with %d parameters' % len(ps)
    if must_fail and url != INVALID:
        return ('mapper-url-for-unknown-key', 'query %d: %s, yet a url was produced: %r' % (qi, must_fail, url))
    if must_fail and throws:
        return ('mapper-no-exception-for-unknown-key', 'query %d: %s, invalid_url_throws=true, no exception' % (qi, must_fail))
    return None


def oracle(case, out):
    if out.startswith('<crash'):
        return ('crash', 'harness died on this case: ' + out[:300])
    if out.startswith('HARNESS-EXN') or out.startswith('BAD-CASE') or out.startswith('UNSUPPORTED'):
        return ('bad-output', 'harness could not run the case: ' + out[:200])
    if out in ('CONSTRUCT-ERROR',):
        return None
    if out == 'REGEX-ERROR':
        return ('regex-error', 'a pattern of the family was rejected by booster::regex')
    t = Toks(case.split())
    kind = t.next()
    res = out.split(' | ')
    if kind == 'T':
        throws = t.next() == '1'
        for _ in range(t.counted('V')):
            t.next(); t.next()
        root = parse_app(t)
        assert t.next() == 'Q'
        qi = 0
        while not t.end():
            q = t.next()
            if qi >= len(res):
                return ('bad-output', 'fewer answers than queries: ' + out[:200])
            r = res[qi]
            if q == 'd':
                c = t.next()
                url = unhex(t.next())
                if c == '~':
                    exp = py_dispatch(root, url, None)
                else:
                    exp = py_main(root, url, unhex(c))
                if r != exp:
                    return (classify_dispatch_failure(root, url, None if c == '~' else unhex(c), r, exp),
                            'query %d: dispatch of %r (method %s) gave "%s"; the first option in registration order whose pattern and '
                            'method filter match the whole string gives "%s"' % (qi, url, c, r, exp))
            else:
                pos = t.next()
                key = unhex(t.next())
                exp = t.next() if q == 'x' else None
                ps = [unhex(t.next()) for _ in range(int(t.next()))]
                rr = r.split()
                mres = ' '.join(rr[:2]) if rr and rr[0] == 'U' else r
                e = oracle_map(root, throws, key, ps, mres, qi)
                if e:
                    return e
                if q == 'x' and rr and rr[0] == 'U':
                    url = unhex(rr[1])
                    got = ' '.join(rr[2:])
                    want = py_main(root, url, b'GET')
                    if got != want:
                        return (classify_dispatch_failure(root, url, b'GET', got, want),
                                'query %d: generated url %r dispatched to "%s"; first whole-string match gives "%s"' % (qi, url, got, want))
                    if exp != '*':
                        hid, eurl = exp.split(':')
                        target = 'F %s %d%s' % (hid, len(ps), ''.join(' ' + hexs(x) for x in ps))
                        if py_main(root, unhex(eurl), b'GET') == target and got != target:
                            if not throws and any(b'\x00' in x for x in ps) and b'\x00' not in url:
                                return ('mapper-nothrow-truncates-url-at-nul',
                                        'query %d: invalid_url_throws=false and a parameter contains a NUL byte: the generated url %r '
                                        'stops at the NUL and routes to "%s" instead of "%s"' % (qi, url, got, target))
                            return ('map-dispatch-disagree',
                                    'query %d: key %r with %d parameters names handler %s and its url is unambiguous, but the mapper '
                                    'produced %r which routes to "%s"' % (qi, key, len(ps), hid, url, got))
            qi += 1
        if qi != len(res):
            return ('bad-output', 'more answers than queries')
        return None
    if kind == 'G':
        n = t.counted('N')
        pools = []
        for _ in range(n):
            assert t.next() == '{'
            f = []
            for _ in range(3):
                x = t.next()
                f.append(None if x == '-' else unhex(x.split(':', 1)[0]))
            g = int(t.next())
            sel = t.next()
            assert t.next() == '}'
            pools.append((dict(h=f[0], s=f[1], p=f[2], g=g, sel=sel), parse_app(t)))
        assert t.next() == 'Q'
        qi = 0
        while not t.end():
            q = t.next()
            if qi >= len(res):
                return ('bad-output', 'fewer answers than queries')
            r = res[qi]
            if q == 'q':
                h, s, p, m = [unhex(t.next()) for _ in range(4)]
                h, s, p = [x.split(b'\x00')[0] for x in (h, s, p)]       # the pool API takes C strings
                exp = '-'
                for i, (mp, a) in enumerate(pools):
                    sub = py_mp(mp, h, s, p)
                    if sub is not None:
                        exp = '%d %s %s' % (i, hexs(sub), py_main(a, sub, m))
                        break
                if r != exp:
                    return ('pool-not-first-whole-match',
                            'query %d: host %r script %r path %r routed to "%s"; the first mount point whose patterns match the whole '
                            'strings gives "%s"' % (qi, h, s, p, r, exp))
            else:
                i = int(t.next())
                h, s, p = [unhex(t.next()) for _ in range(3)]
                sub = py_mp(pools[i][0], h, s, p)
                exp = '-' if sub is None else '+ ' + hexs(sub)
                if r != exp:
                    nul = any(b'\x00' in x for x in (h, s, p))
                    return ('mount-point-string-overload-stops-at-nul' if nul else 'mount-point-not-whole-match',
                            'query %d: mount_point::match(%r,%r,%r) gave "%s", whole-string matching gives "%s"' % (qi, h, s, p, r, exp))
            qi += 1
        return None
    return ('bad-output', 'unknown case kind')


def py_mp(mp, h, s, p):
    if mp['h'] is not None and not full(mp['h'], h):
        return None
    sel, non, sv, nv = (mp['p'], mp['s'], p, s) if mp['sel'] == 'p' else (mp['s'], mp['p'], s, p)
    if non is not None and not full(non, nv):
        return None
    if sel is None:
        return sv
    m = full(sel, sv)
    if not m:
        return None
    return grp(m, mp['g'])


def classify_dispatch_failure(root, url, method, got, want):
    """name the failure class (used for known-findings matching and for the reader)"""
    if b'\x00' in url and got.startswith('F') and want in ('N', 'T'):
        return 'dispatch-prefix-match-before-nul'
    if got.startswith('F') and want in ('N', 'T'):
        return 'dispatch-fires-without-whole-match'
    if got.startswith('F') and want.startswith('F'):
        if got.split()[1] != want.split()[1]:
            return 'dispatch-not-first-match'
        return 'dispatch-wrong-captures'
    if got in ('N', 'T') and want.startswith('F'):
        return 'dispatch-misses-matching-handler'
    return 'dispatch-wrong-outcome'


def nontrivial(case, out):
    return ' F ' in (' ' + out + ' ') or 'U ' in out or '+ ' in out


_site_re = re.compile(r' x \S+ \S+ \d+:')


def classify(case, out):
    k = case[0]
    if k == 'T' and _site_re.search(case):
        k = 'S'
    if out in ('CONSTRUCT-ERROR',):
        return k + ':construct-error'
    depth = 0
    d = 0
    for tok in case.split():
        if tok == '(':
            d += 1
            depth = max(depth, d)
        elif tok == ')':
            d -= 1
    res = out.split(' | ')
    if k == 'G':
        m = sum(1 for r in res if r != '-')
        f = sum(1 for r in res if ' F ' in ' ' + r + ' ')
        return 'G:pools%s:%s:%s' % (case.split()[1][1:], 'matched>=half' if 2 * m >= len(res) else 'some-matched' if m else 'none-matched',
                                    'handler-fired' if f else 'no-handler')
    f = sum(1 for r in res if ' F ' in ' ' + r + ' ')
    return '%s:depth%d:%s' % (k, depth, 'fired>=half' if 2 * f >= len(res) else 'some-fired' if f else 'none-fired')


def prepare(ctx, mexe, abstract):
    rc, out, err = vlib.run_lines_parallel([mexe, '--prepare'], abstract)
    if len(out) != len(abstract):
        ctx.broke('model driver --prepare produced %d lines for %d cases' % (len(out), len(abstract)), err[-2000:])
        return []
    bad = [(a, o) for a, o in zip(abstract, out) if o.startswith('BAD-CASE') or o.startswith('MODEL-EXN')]
    if bad:
        ctx.broke('generator produced %d malformed abstract cases' % len(bad), '%s\n%s' % bad[0])
    return [o for o in out if not (o.startswith('BAD-CASE') or o.startswith('MODEL-EXN'))]


def run(ctx):
    res = vlib.coq_props('C20')
    ctx.proof(res)
    ctx.coverage['trusted_base'] = [
        'Coq 8.16.1 kernel, vm_compute (non-vacuity examples only)',
        'extraction: ExtrOcamlBasic, OCaml 4.13.1',
        'harness/C20_routing.cpp (+ /repo/tests/dummy_api.h in-memory connection), ocaml/C20_driver.ml, checks/C20.py (generators, Python re as reference engine)',
        'the pattern printer rprint (model AST -> PCRE text) and libpcre: tied by correspondence on generated cases only',
        'hand model of url_dispatcher / mount_point / applications_pool scan / url_mapper in coq/C20/Defs.v, tied by correspondence']
    ctx.assumptions = [
        'patterns are in the modelled family (literals, classes, concatenation, alternation, * + ?, groups); captures are specified for routes whose parameter boundaries are unambiguous (route_ok)',
        'map_dispatch: no earlier sibling option matches the generated url at any level, parameters are in their classes, the url of a nested page contains no newline (mount pattern is prefix(.*))',
        'each child application is mounted at most once in its parent mapper',
        'request method and the strings given to the applications pool are C strings (no embedded NUL)']
    exe, err = vlib.build_harness('C20_routing', ['C20_routing.cpp'], extra=['-I' + os.path.join(vlib.REPO, 'tests')])
    if not exe:
        ctx.broke('harness build failed', err)
        return
    mexe, err = vlib.build_model('C20', 'C20_driver.ml', 'c20m')
    if not mexe:
        ctx.broke('model extraction/build failed', err)
        return
    ctx.coverage['rule'] = (
        'case = one configuration + queries. T: application tree (depth 1-4, 1-6 handlers per node, route patterns with 0-6 groups or '
        'group-free general regexes, assign- and map-style handlers, method filters exact and regex, 0-2 mounted children per node '
        'mounted 0-2 times) with dispatch queries (urls sampled from the language of some option through the mounts, then 45% one edit '
        'away: trailing newline, NUL + junk, proper prefix, one-byte prefix/suffix, deletion, substitution, insertion; with and without '
        'request context) and mapper queries (keys relative / absolute / . / .. / keywords / unknown, 0-6 parameters, throws on and off); '
        'S: site trees built by the verified `build` (dispatcher and mapper from the same routes) with map-then-dispatch queries from '
        'every node to every page; G: 1-4 mount points with optional host / script / path patterns, group and selection, with pool '
        'lookups and direct mount_point::match calls. Exhaustive: all strings of length <= 3 over {/,a,1,newline} x {GET,POST} against '
        'six overlapping handlers. The pattern text is produced by the model printer (driver --prepare); the oracle re-evaluates every '
        'answer with Python re on that text. Non-trivial = some handler fired, a url was generated or a mount point matched; '
        'distinct = distinct case lines.')
    ctx.coverage['exhaustive'] = False
    ctx.coverage['exhaustive_parts'] = ['all 85 strings of length <= 3 over {/,a,1,\\n} x {GET,POST} against six overlapping handlers']
    if ctx.replay_cases is not None:
        cases = ctx.replay_cases
    else:
        cases = vlib.corpus_cases('C20') + prepare(ctx, mexe, gen_abstract(ctx))
    vlib.differential(ctx, cases, exe, mexe, oracle, nontrivial, classify)
    if ctx.replay_cases is None:
        # mount_point::match(std::string const &...) with embedded NUL: oracle only (see docs/C20.md, observation 1)
        nul = prepare(ctx, mexe, [pool_case(ctx.rng, nul_in_k=True) for _ in range(ctx.scale(60, 600))] +
                      [site_case(ctx.rng, ctx.rng.choice([1, 2, 3]), nul_params=True) for _ in range(ctx.scale(60, 600))])
        vlib.differential(ctx, nul, exe, None, oracle, nontrivial, lambda c, o: c[0] + ':nul-probe', what='oracle only')
