"""C18 -- a crash while saving a file-backed session never yields a corrupted session."""
import os, struct, zlib, shutil, itertools
import vlib
from vlib import hexs, unhex

META = dict(
    property_id='C18',
    design_ref='DESIGN.md section 4, C18',
    technique='Coq proof (crash-state model of the two write calls, per-sector write-back; CRC-32 bit model; invariant over histories) + '
              'extracted-model correspondence on the real session_file_storage with interposed write()/time()',
    level_text=('Theorems in coq/C18/Props.v over an executable model of session_file_storage (record layout, save_to_file/write_all, '
                'read_from_file/read_all incl. the int-typed byte counts, load+unlink, remove, gc/read_timestamp, CRC-32 bit by bit): for every old '
                'file (absent/empty or >= 16 bytes), every save (payload < 2^31 bytes), every crash state (each 512-byte sector independently holds '
                'the state after 0 or >= 16 bytes of the header+data stream; no truncation; holes read as zero) and every clock > 0, load returns '
                'nothing, the new value, what the old file gave, or an explicitly characterised CRC-32 collision (deadline, length and CRC of the '
                'header it is read under, every byte the old file byte / new payload byte / hole zero at its position, and not the value that '
                'header was written for); the same holds for EVERY old file (planted garbage shorter than a header included) when the old file is read '
                'zero-padded to 16 bytes, and a 12-byte planted file completed by a hole is a concrete witness that this reading returns a value never '
                'saved (KNOWN FINDING short-garbage-header-completed-by-hole, replayed on every run); the unconditional statement is refuted by a concrete 6-byte witness (KNOWN FINDING '
                'torn-write-crc32-collision, replayed on the real storage on every run), while a torn state that differs from the new value only '
                'inside a window of <= 4 consecutive bytes is proved to be rejected (CRC-32 burst theorem, all lengths). The crash family of the '
                'property text (stream prefix x sector subset) is an instance; no progress = old file, full progress = the completed save. What load returns lies inside the file and has the '
                'length of the header. Without a crash save-then-load returns the value iff not expired, over any old file. write_all and read_all with short '
                'write()/read() calls are modelled call by call (the loops advance their buffer): for every cut pattern a save made of short writes '
                'stores exactly the record of the completed save and a load whose data reads are cut returns exactly what the plain load returns; the '
                'old witnesses of the pre-repair loops are regression Examples. '
                'By induction over '
                'every history of saves/crashed saves/removes/loads/gc: the file is empty, starts with a zero hole or with the header of an earlier '
                'save, so the crash theorem applies at every point and any value ever returned carries the deadline, length and CRC of some '
                'earlier save; the same for histories that start from an arbitrary planted file (then also: or the header fields of the planted file '
                'read zero-padded), and for histories that contain saves made of short writes and loads over short reads (transparent, by erasure). gc keeps exactly the entries whose name is not 32 hex digits or whose timestamp is readable and not past, never '
                'removes a record that load would accept at that or any later clock (gc and load at any earlier point are transparent for later loads), never touches foreign names; load removes what it cannot read and nothing else. session_sid::valid_sid lets exactly I + 32 lower-case hex digits through '
                '(always a name gc looks at) and the second expiry test of session_sid::load is shown dead. read_from_file compares the size field '
                'with the file length (fstat) before it allocates its buffer: for every file, garbage included, the buffer requested is at most '
                'the number of bytes the file holds behind its header (0 when the record is refused), exactly the length of the value when one is '
                'returned, and at most the length of a saved payload after any history of saves and crashes; a returned value always fits into the '
                'file (16 + length <= file length, for every value of the size field); load under a memory limit that covers the file itself is the '
                'plain load. A record followed by trailing bytes is still accepted. The planted 19-byte file with a 2 GiB size field (the repaired '
                'defect) is a regression Example: no session, file removed, nothing requested. The '
                'class crc32_calc (what save and load really call) is modelled and proved to compute, fed in any pieces, the CRC-32 of the whole input, which '
                'depends on every single byte at any position; the header carries and the loader compares the CRC of the WHOLE value / data area for every '
                'length; the text of the class and of its two call sites is tied rigidly, and the real class is run on buffers around every plausible block '
                'boundary up to 1 MiB + 1 against zlib and the extracted model. The '
                'lock discipline: the table of file accesses per locked_file scope is extracted from the current source on every run and proved to put every '
                'access under the per-sid lock, every look-then-unlink sequence and every save into ONE lock scope; over that table a two-actor interleaving '
                'model (gc vs load+save on one sid, all interleavings, all file states) shows that gc never unlinks a record live at that moment and the '
                'saved session survives; tables with the stamp read outside the lock, with two separate scopes, or with unlocked writes are refuted; the harness '
                'forces the rendezvous (second thread released right after gc reads the stamp) in both lock modes. The '
                'bundled CRC table of private/crc32.h is regenerated from source and proved equal to the bit model, and the table-driven loop is '
                'proved equal to the bit-by-bit CRC; the per-character test of session_sid::valid_sid is regenerated from source and proved equal to '
                'the model on all 256 bytes; the zlib path, the write sequence and every other code path are tied by running the '
                'extracted model and the real storage on the same scripts.'),
    level_note=('Trusted: Coq kernel + vm_compute; ExtrOcamlBasic extraction; the hand model of the C++ control flow (tied by '
                'correspondence only; the source-generated leafs are the CRC table and the valid_sid character test); the crash model itself (sector = 512 bytes, header '
                'atomic, write-back of a sector shows a prefix of the write stream, unwritten bytes of an extended file read as zero, no '
                'reordering across fsync because there is none); harness materialises crash states from the recorded write() calls of the '
                'real save. Not covered: ENOSPC/EINTR error paths (short reads of the header fields and of the gc timestamp are executed and compared with '
                'the plain reader; the Coq short-read model covers the data buffer), the semantics of pthread_mutex/fcntl and the inode re-check loop of locked_file (trusted; the lock discipline is proved over the extracted '
                'table at lock granularity for two actors; thread/process/rendezvous scripts run in both lock modes), size fields >= 2^31 are executed only on short files (refused by the length test; loaded under an address-space '
                'limit with operator new watched); the branch where a file of more than 2 GiB carries such a size field (int-typed read count '
                'goes negative, zero buffer is CRC-checked) is modelled but never executed, payloads >= 2^31 bytes, clock <= 0. The history theorems start from an absent file (planted files are covered by the '
                'single-crash theorem C18_crash_safe_any_old, not by the invariant).'),
)

GEN = {
    'Gen_crc': dict(src=os.path.join(vlib.VERIF, 'harness', 'C18_crc_tu.cpp'), arrays=[('crcTable', 'g_crc_table')]),
}



def gen_sid_leaf(ctx):
    """coq/gen/Gen_C18_sid.v: the per-character test of session_sid::valid_sid, regenerated from the current source. tools/cxx2v.py
    translates the loop body of valid_sid as a per-byte transducer; the body rejects with `return false`, which the transducer form
    cannot type, so the source-derived test expression is re-wrapped as a bool function (same device as checks/C06.py)."""
    import re, cxx2v
    out = os.path.join(vlib.COQ, 'gen', 'Gen_C18_sid.v')
    raw = os.path.join(ctx.workdir, 'gen_c18_sid_raw.v')
    try:
        with vlib.Lock('gen-Gen_C18_sid'):
            cxx2v.generate(dict(src=os.path.join(vlib.REPO, 'src/session_sid.cpp'), transducers=[('valid_sid', 'g_valid_sid_step')],
                                incs=vlib.repo_incs()), raw)
            txt = open(raw).read()
            m = re.search(r'Definition g_valid_sid_step \(byte : Z\) : list Z :=\s*(.*)\(if \(negb (\w+)\) then false else \[\]\)(\)*)\.', txt, re.S)
            if not m:
                raise cxx2v.Unsupported('loop body of valid_sid is no longer `char c = ..; bool ok = <test>; if(!ok) return false;`')
            head = txt[:txt.index('Definition g_valid_sid_step')]
            body = 'Definition g_c18_low_x_digit (byte : Z) : bool :=\n  ' + m.group(1) + m.group(2) + m.group(3) + '.\n'
            vlib.write_if_changed(out, head + body)
        return None
    except Exception as e:
        vlib.write_if_changed(out, '(* translator failed *)\nDefinition broken : False := I.\n')
        return str(e)


CRC_CALC_BODY = ('class crc32_calc { public: crc32_calc() : value_(0) { } void process_bytes(void const *ptr,size_t n) { if(n==0) return; '
                 'value_ = crc32(value_,reinterpret_cast<Bytef const *>(ptr),n); } uint32_t checksum() const { return value_; } '
                 'private: uint32_t value_; };')


def crc_calc_tie():
    """rigid text tie of cppcms::impl::crc32_calc (private/crc32.h) to the model's crc32_calc/process_bytes (coq/C18/Defs.v): the class is a
    few lines around one library call, which cxx2v cannot translate (member state, call to zlib); its text, comments and white space
    removed, must be the text the model was written from. Any rewrite has to be looked at (and is exercised by the Z lines)."""
    import re
    try:
        txt = open(os.path.join(vlib.REPO, 'private', 'crc32.h')).read()
    except Exception as e:
        return 'cannot read private/crc32.h: %s' % e
    txt = re.sub(r'/\*.*?\*/', ' ', txt, flags=re.S)
    txt = re.sub(r'//[^\n]*', ' ', txt)
    m = re.search(r'class\s+crc32_calc\s*\{.*?\n\};', txt, re.S)
    if not m:
        return 'class crc32_calc not found in private/crc32.h'
    body = ' '.join(m.group(0).split())
    if body != CRC_CALC_BODY:
        return 'the text of class crc32_calc changed:\n  found:    %s\n  expected: %s' % (body, CRC_CALC_BODY)
    uses = open(os.path.join(vlib.REPO, 'src', 'session_posix_file_storage.cpp')).read()
    for need in ('crc_calc.process_bytes(in.data(),in.size());', 'crc_calc.process_bytes(&buffer.front(),size);'):
        if uses.count(need) != 1 or uses.count('process_bytes') != 2:
            return 'src/session_posix_file_storage.cpp no longer feeds crc32_calc with exactly: ' + need
    return None


# ------------------------------------------------------------------------------------------------
# lock-discipline table of session_file_storage, extracted from the current source (rigid lexical extraction)
# ------------------------------------------------------------------------------------------------
LOCK_ENTRIES = ('save', 'load', 'remove', 'gc')
LOCK_HELPERS = ('save_to_file', 'read_from_file', 'read_timestamp', 'write_all', 'read_all')
LOCK_OTHER = ('session_file_storage', '~session_file_storage', 'sid_to_pos', 'lock', 'unlock', 'file_name', 'is_blocking')
LOCKED_FILE_SHA = 'f62d873688bd00e7187e139b239d531c9288e2b5194e21667ad5e1f205890bf6'   # class text as read on 2026-10-02: ctor lock(sid); open; [fcntl F_SETLKW; stat/fstat inode re-check]; dtor [fcntl unlock]; close; unlock(sid)
ACC_OF = {'open': 'AOpen', 'read': 'ARead', 'write': 'AWrite', 'unlink': 'AUnlink', 'close': 'AClose', 'lseek': 'ASeek', 'fstat': 'AStat', 'stat': 'AStat'}


class LockTabError(Exception):
    pass


def _strip_cxx(txt):
    import re
    txt = re.sub(r'/\*.*?\*/', ' ', txt, flags=re.S)
    txt = re.sub(r'//[^\n]*', ' ', txt)
    txt = re.sub(r'"(?:\\.|[^"\\])*"', '""', txt)
    return txt


def _block(txt, start):
    """text of the brace block that starts at the first { at or after start (exclusive of the braces)"""
    i = txt.index('{', start)
    d = 0
    for j in range(i, len(txt)):
        if txt[j] == '{':
            d += 1
        elif txt[j] == '}':
            d -= 1
            if d == 0:
                return txt[i + 1:j], j + 1
    raise LockTabError('unbalanced braces')


def lock_table(repo):
    """[(entry, [(access, scope)])]: for save/load/remove/gc the system calls on the session file in textual order, helpers inlined, each with
    the number of the `locked_file` object (1, 2, .. in textual order within the entry) inside whose lifetime it is made, 0 = outside.
    A locked_file lives from its declaration to the end of the enclosing brace block; its constructor (lock the sid, then open) and
    destructor (close, then unlock) are tied by the hash of the class text. Fails closed on anything it does not understand."""
    import re, hashlib
    txt = _strip_cxx(open(os.path.join(repo, 'src', 'session_posix_file_storage.cpp')).read())
    m = re.search(r'class\s+session_file_storage::locked_file\s*\{', txt)
    if not m:
        raise LockTabError('class session_file_storage::locked_file not found')
    body, end = _block(txt, m.start())
    sha = hashlib.sha256(' '.join(body.split()).encode()).hexdigest()
    if sha != LOCKED_FILE_SHA:
        raise LockTabError('the text of class locked_file changed (sha256 %s): its constructor must lock the sid before the open and its '
                           'destructor close before the unlock; look at it and update LOCKED_FILE_SHA' % sha)
    rest = txt[:m.start()] + txt[end:]
    funcs = {}
    for fm in re.finditer(r'\bsession_file_storage::(~?\w+)\s*\(', rest):
        name = fm.group(1)
        if name == 'locked_file':
            continue
        # a definition: the parameter list is followed by an optional initialiser list and a {
        depth, k = 0, fm.end() - 1
        while True:
            if rest[k] == '(':
                depth += 1
            elif rest[k] == ')':
                depth -= 1
                if depth == 0:
                    break
            k += 1
        tail = rest[k + 1:k + 400]
        if not re.match(r'\s*(const\s*)?(:[^{;]*)?\{', tail, re.S):
            continue
        if name in funcs:
            raise LockTabError('two definitions of ' + name)
        funcs[name], _ = _block(rest, k)
    unknown = sorted(set(funcs) - set(LOCK_ENTRIES) - set(LOCK_HELPERS) - set(LOCK_OTHER))
    if unknown:
        raise LockTabError('methods of session_file_storage the table does not know: ' + ', '.join(unknown))
    for need in LOCK_ENTRIES + LOCK_HELPERS:
        if need not in funcs:
            raise LockTabError('method %s not found' % need)
    tok = re.compile(r'(\{)|(\})|\blocked_file\s+(\w+)\s*\(\s*this\s*,\s*\w+\s*,\s*(?:true|false)\s*\)\s*;|::\s*(open|read|write|unlink|close|lseek|fstat|stat)\s*\(|'
                     r'\b(save_to_file|read_from_file|read_timestamp|write_all|read_all)\s*\(|\b(locked_file|goto|pthread_mutex_\w+|fcntl|flock|lockf|rename|ftruncate|'
                     r'truncate|fopen|creat|pread|pwrite|mmap|dup2?)\b')

    table = []
    for e in LOCK_ENTRIES:
        table.append((e, _walk_entry(funcs, tok, e)))
    # every file system call of the translation unit outside locked_file must be inside one of the analysed methods
    allcalls = len(re.findall(r'::\s*(?:open|read|write|unlink)\s*\(', rest))
    seen = sum(len(re.findall(r'::\s*(?:open|read|write|unlink)\s*\(', funcs[f])) for f in LOCK_ENTRIES + LOCK_HELPERS)
    if allcalls != seen:
        raise LockTabError('file system calls outside the analysed methods (%d of %d seen)' % (seen, allcalls))
    return table


def _walk_entry(funcs, tok, name, scope=0, ctr=None, guard=0):
    """accesses of one method in textual order; a locked_file scope ends (destructor: close, unlock) with the brace block it was declared in"""
    if guard > 6:
        raise LockTabError('helper recursion')
    ctr = ctr if ctr is not None else [0]
    out = []
    cur = scope
    stack = []                   # per open brace block: (scope current at entry, scope opened inside this block or None)
    opened_here = None           # a locked_file declared in the current (function-level) block
    for t in tok.finditer(funcs[name]):
        if t.group(1):
            stack.append((cur, opened_here))
            opened_here = None
        elif t.group(2):
            if not stack:
                raise LockTabError('brace underflow in ' + name)
            if opened_here is not None:
                out.append(('AClose', opened_here))
            cur, opened_here = stack.pop()
        elif t.group(3):
            if guard > 0:
                raise LockTabError('locked_file declared in helper ' + name)
            if cur != 0:
                raise LockTabError('nested locked_file in ' + name)
            ctr[0] += 1
            cur = opened_here = ctr[0]
            out.append(('AOpen', cur))
        elif t.group(4):
            out.append((ACC_OF[t.group(4)], cur))
        elif t.group(5):
            out += _walk_entry(funcs, tok, t.group(5), cur, ctr, guard + 1)
        elif t.group(6):
            raise LockTabError('%s: construct the lock table does not understand: %s' % (name, t.group(6)))
    if stack:
        raise LockTabError('unbalanced braces in ' + name)
    if opened_here is not None:
        out.append(('AClose', opened_here))
    return out


def gen_locktab(ctx):
    out = os.path.join(vlib.COQ, 'gen', 'Gen_C18_locks.v')
    try:
        tab = lock_table(vlib.REPO)
        rows = ';\n   '.join('("%s"%%string, [%s])' % (e, '; '.join('(%s, %d)' % (a, sc) for a, sc in l)) for e, l in tab)
        txt = ('(* GENERATED by checks/C18.py:gen_locktab from src/session_posix_file_storage.cpp -- do not edit *)\n'
               'From Coq Require Import List String.\nImport ListNotations.\nFrom CppcmsV Require Import C18.LockDefs.\n'
               'Definition g_lock_table : list entry :=\n  [%s].\n' % rows)
        with vlib.Lock('gen-Gen_C18_locks'):
            vlib.write_if_changed(out, txt)
        return None, tab
    except Exception as e:
        vlib.write_if_changed(out, '(* lock table extraction failed *)\nDefinition broken : False := I.\n')
        return str(e), None


V0 = '0123456789abcdef0123456789abcdef'
V1 = 'ABCDEF0123456789abcdefABCDEF0123'
V2 = 'ffffffffffffffffffffffffffffff00'
BADNAMES = ['0123456789abcdef0123456789abcde', '0123456789abcdef0123456789abcdef0', '0123456789abcdeg0123456789abcdef',
            '0123456789abcdef0123456789abcde.', 'x123456789abcdef0123456789abcdef', '0123456789abcdef-123456789abcdef']
I64MAX = 2 ** 63 - 1
I64MIN = -2 ** 63


def hdr(t, d, crc=None, size=None):
    return struct.pack('<qII', t, zlib.crc32(d) if crc is None else crc, len(d) if size is None else size)


def rb(rng, n, alpha=None):
    if alpha:
        return bytes(rng.choice(alpha) for _ in range(n))
    return bytes(rng.getrandbits(8) for _ in range(n))


# ---- CRC forcing: 4 bytes at position pos such that crc32(result) == target ----
_T = []
for _i in range(256):
    _c = _i
    for _k in range(8):
        _c = (_c >> 1) ^ 0xEDB88320 if _c & 1 else _c >> 1
    _T.append(_c)
_TOP = {(_T[i] >> 24): i for i in range(256)}


def force_crc(data, pos, target):
    """return data with bytes pos..pos+3 replaced such that zlib.crc32 == target"""
    data = bytearray(data)
    s = 0xFFFFFFFF
    for b in data[:pos]:
        s = (s >> 8) ^ _T[(s ^ b) & 0xFF]
    want = target ^ 0xFFFFFFFF
    for b in reversed(data[pos + 4:]):          # undo the suffix
        i = _TOP[want >> 24]
        want = ((want ^ _T[i]) << 8) & 0xFFFFFFFF | (i ^ b)
    # find 4 bytes taking s to want: undo 4 unknown bytes symbolically
    idx = []
    w = want
    for _ in range(4):
        i = _TOP[w >> 24]
        idx.append(i)
        w = ((w ^ _T[i]) << 8) & 0xFFFFFFFF
    idx.reverse()
    out = []
    for i in idx:
        b = (s ^ i) & 0xFF
        out.append(b)
        s = (s >> 8) ^ _T[i]
    data[pos:pos + 4] = bytes(out)
    assert zlib.crc32(bytes(data)) == target
    return bytes(data)


BIG = 4096          # values longer than this are answered by the harnesses as #len.crc32 and written in cases as @len.seed.flip
_PAT = {}


def pattern(ln, seed, flip=-1):
    """position-dependent content: byte i = (seed + 31 i + 17 (i>>8) + 101 (i>>16)) & 255, byte `flip` xored with 0x5a (same in the
    harness and in the model driver)"""
    k = (ln, seed, flip)
    if k not in _PAT:
        b = bytearray((seed + 31 * i + 17 * (i >> 8) + 101 * (i >> 16)) & 255 for i in range(max(ln, 0)))
        if 0 <= flip < ln:
            b[flip] ^= 0x5a
        if len(_PAT) > 64:
            _PAT.clear()
        _PAT[k] = bytes(b)
    return _PAT[k]


def pat(ln, seed, flip=-1):
    return '@%d.%d.%d' % (ln, seed, flip)


def payload(tok):
    if tok.startswith('@'):
        v = [int(x) for x in tok[1:].split('.')] + [0, -1]
        return pattern(v[0], v[1], v[2] if len(tok[1:].split('.')) > 2 else -1)
    return unhex(tok)


class Val(object):
    """a session value as the oracle sees it: length, CRC-32 and (for values up to BIG bytes) the bytes"""
    __slots__ = ('n', 'crc', 'head')

    def __init__(self, n, crc, head):
        self.n, self.crc, self.head = n, crc, head

    def __len__(self):
        return self.n

    def __eq__(self, o):
        return isinstance(o, Val) and (self.n, self.crc, self.head) == (o.n, o.crc, o.head)

    def __ne__(self, o):
        return not self.__eq__(o)

    def __hash__(self):
        return hash((self.n, self.crc))

    def prev(self):
        return self.head[:32].hex() if self.head is not None else '#%d.%08x' % (self.n, self.crc)


def val(b):
    return Val(len(b), zlib.crc32(b), b if len(b) <= BIG else None)


def parse_val(tok):
    if tok.startswith('#'):
        n, c = tok[1:].split('.')
        return Val(int(n), int(c, 16), None)
    return val(unhex(tok))


def garbage(rng, ln):
    """random bytes; the size field is kept small here (a regression of the length test would allocate `size` bytes in every harness
    process at once): huge size fields are loaded under an address-space limit in G11"""
    raw = rb(rng, ln)
    if len(raw) >= 16:
        raw = raw[:12] + struct.pack('<I', rng.choice([0, 1, 2, ln - 16, max(0, ln - 17), ln - 15, 24, 2 ** 16, 2 ** 20 + 3])) + raw[16:]
    return raw


def case(ops, names=(V0,), flock=0):
    return 'F%d N=%s %s' % (flock, ','.join(names), ' '.join(ops))


def S(i, t, d):
    return 'S:%d:%d:%s' % (i, t, hexs(d))


def K(i, t, d, ps):
    return 'K:%d:%d:%s:%s' % (i, t, hexs(d), ','.join(str(p) for p in ps) if ps else '-')


def P(i, raw):
    return 'P:%d:%s' % (i, hexs(raw))


def L(i, now):
    return 'L:%d:%d' % (i, now)


def nsect(n):
    return (16 + n + 511) // 512


def gen_cases(ctx):
    rng = ctx.rng
    cases = []
    # the recorded finding: old "a\tC=\x97N", new "bHELLO", crash after header + 1 data byte
    cases.append(case([S(0, 5000, bytes.fromhex('6109433d974e')), K(0, 6000, b'bHELLO', [17]), L(0, 100)]))
    # G1: single sector, every byte progress, all old-state shapes, three clock positions, both deadline orders
    for n_new in range(0, ctx.scale(7, 12)):
        for shape in ('absent', 'shorter', 'equal', 'longer', 'garbage'):
            if shape == 'shorter' and n_new == 0:
                continue
            n_old = {'absent': 0, 'shorter': rng.randrange(0, max(1, n_new)), 'equal': n_new, 'longer': n_new + rng.randrange(1, 9),
                     'garbage': 0}[shape]
            alpha = rng.choice([None, b'ab', b'\x00\xff'])
            for (t_old, t_new) in ((2000, 3000), (3000, 2000)):
                for now in (1000, 2500, 3500):
                    d_old, d_new = rb(rng, n_old, alpha), rb(rng, n_new, alpha)
                    for p in [0] + list(range(16, 17 + n_new)):
                        ops = []
                        if shape == 'garbage':
                            ops.append(P(0, garbage(rng, rng.choice([16, 17, 20, 30, 40]))))
                        elif shape != 'absent':
                            ops.append(S(0, t_old, d_old))
                        ops += [K(0, t_new, d_new, [p]), L(0, now)]
                        cases.append(case(ops, flock=rng.randrange(2)))
    # G2: several sectors: (prefix of the stream) x (subset of sectors), and independent per-sector progress
    # (the bit-by-bit CRC of the extracted model costs about 2 us per byte: the quick tier keeps the multi-sector family small)
    sizes = [496, 497, 1008, 1520, 2600]
    if not ctx.quick():
        sizes += [480, 495, 498, 512, 1007, 1009, 1024, 1100, 1536, 2032, 2033, 2544, 3000]
    for n_new in sizes:
        k = nsect(n_new)
        total = 16 + n_new
        marks = sorted(set(x for x in [16, 17, 100, 511, 512, 513, 1023, 1024, 1025, 1536, 2048, 2560, total - 513, total - 1, total] if 16 <= x <= total))
        for shape in ('absent', 'shorter', 'equal', 'longer'):
            n_old = {'absent': 0, 'shorter': n_new // 2, 'equal': n_new, 'longer': n_new + 600}[shape]
            alpha = rng.choice([None, None, b'ab'])
            d_old, d_new = rb(rng, n_old, alpha), rb(rng, n_new, alpha)
            pre = [] if shape == 'absent' else [S(0, 2000, d_old)]
            combos = set()
            for p in rng.sample(marks, min(len(marks), ctx.scale(2, 6))):
                for mask in (range(1 << k) if k <= 4 or not ctx.quick() else rng.sample(range(1 << k), 16)):
                    combos.add((p, mask))
            for mask in rng.sample(range(1 << k), min(1 << k, ctx.scale(4, 16))):
                for p in marks:
                    combos.add((p, mask))
            for p, mask in sorted(combos):
                ps = [p if (mask >> s) & 1 else 0 for s in range(k)]
                cases.append(case(pre + [K(0, 3000, d_new, ps), L(0, rng.choice([1000, 1000, 2500, 3500]))], flock=rng.randrange(2)))
            for _ in range(ctx.scale(8, 60)):
                ps = [rng.choice([0, total, rng.randrange(16, total + 1), rng.choice(marks)]) for s in range(k + rng.randrange(0, 2))]
                cases.append(case(pre + [K(0, 3000, d_new, ps), L(0, rng.choice([1000, 2500]))], flock=rng.randrange(2)))
    # G3: deadline boundaries incl. the int64 range
    for t in [0, 1, -1, 1000, 2 ** 31 - 1, 2 ** 31, 2 ** 32 - 1, 2 ** 32, I64MAX, I64MAX - 1, I64MIN, I64MIN + 1, -2 ** 31]:
        for dn in (-1, 0, 1):
            now = t + dn
            if I64MIN <= now <= I64MAX:
                d = rb(rng, rng.randrange(0, 5))
                cases.append(case([S(0, t, d), L(0, now), L(0, now)]))
                cases.append(case([S(0, t, d), 'G:%d' % now, L(0, now)]))
    # G4: garbage files with well-formed names (and not), load and gc
    for _ in range(ctx.scale(1500, 12000)):
        ln = rng.choice([0, 1, 7, 8, 9, 11, 12, 15, 16, 17, 20, 24, 40])
        kind = rng.randrange(6)
        now = rng.choice([1000, 5000])
        t = rng.choice([999, 1000, 1001, 4999, 5000, 5001, 0, -1, I64MAX])
        if kind == 0:
            raw = garbage(rng, ln)
        else:
            d = rb(rng, rng.randrange(0, 12))
            size = rng.choice([len(d), len(d), len(d) + 1, max(0, len(d) - 1), 0, 2 ** 20, 2 ** 24 + 1])
            crc = rng.choice([None, None, 0, zlib.crc32(d) ^ 1, rng.getrandbits(32)])
            raw = hdr(t, d, crc, size) + d + rb(rng, rng.choice([0, 0, 3]))
            if kind == 1:
                raw = raw[:rng.randrange(0, len(raw) + 1)]
        nm = rng.choice([V0, V1, V2, V0, V1] + BADNAMES)
        if valid_name(nm):
            tail = rng.choice([[L(0, now)], ['G:%d' % now, L(0, now)], ['G:%d' % now, 'G:%d' % (now + 10000), L(0, now)], [L(0, now), 'G:%d' % now]])
        else:
            # the storage API is never called with a malformed name (session_sid::valid_sid filters them; sid_to_pos would read an
            # uninitialised lock index): such files are only seen by gc, which must leave them alone
            tail = rng.choice([['G:%d' % now], ['G:%d' % now, 'G:%d' % (now + 10000)]])
        cases.append(case([P(0, raw)] + tail, names=(nm,), flock=rng.randrange(2)))
    # G5: gc over a directory with live, expired, crashed and foreign files
    for _ in range(ctx.scale(400, 4000)):
        names = [V0, V1, V2] + rng.sample(BADNAMES, 2)
        ops = []
        for i in range(len(names)):
            r = rng.randrange(5)
            t = rng.choice([900, 999, 1000, 1001, 2000])
            d = rb(rng, rng.randrange(0, 20))
            if r == 0:
                continue
            elif not valid_name(names[i]):
                ops.append(P(i, hdr(t, d) + d if r < 4 else garbage(rng, rng.choice([0, 3, 8, 16, 30]))))
            elif r in (1, 2):
                ops.append(S(i, t, d))
            elif r == 3:
                ops += [S(i, t, d), K(i, rng.choice([900, 1000, 2000]), rb(rng, rng.randrange(0, 20)), [rng.choice([0, 16, 17, 20, 36])])]
            else:
                ops.append(P(i, garbage(rng, rng.choice([0, 3, 8, 16, 30]))))
        rng.shuffle(ops)
        ops.append('G:%d' % rng.choice([1000, 1000, 1500]))
        ops += [L(i, 1000) for i in range(len(names)) if valid_name(names[i])]
        cases.append(case(ops, names=names, flock=rng.randrange(2)))
    # G6: random histories over two sessions, small alphabets so that old and new payloads share bytes
    for _ in range(ctx.scale(2500, 30000)):
        names = [V0, V1]
        ops = []
        clock = 1000
        for _ in range(rng.randrange(3, 9)):
            r = rng.randrange(10)
            i = rng.randrange(2)
            d = rb(rng, rng.choice([0, 1, 2, 3, 5, 8, 13, 30]), rng.choice([None, b'ab', b'a']))
            t = clock + rng.choice([-1, 0, 1, 50, 500])
            if r < 3:
                ops.append(S(i, t, d))
            elif r < 6:
                total = 16 + len(d)
                ops.append(K(i, t, d, [rng.choice([0, 16, total, rng.randrange(16, total + 1)])]))
            elif r < 8:
                ops.append(L(i, clock))
            elif r < 9:
                ops.append('G:%d' % clock)
            else:
                ops.append('X:%d' % i)
            clock += rng.choice([0, 0, 1, 30])
        ops += [L(0, clock), L(1, clock)]
        cases.append(case(ops, names=names, flock=rng.randrange(2)))
    # G7: constructed CRC-32 collisions (torn states that carry the CRC of their header): the known finding class
    for _ in range(ctx.scale(40, 400)):
        n = rng.choice([5, 6, 8, 16, 40, 200, 600, 1100])
        d_new = rb(rng, n)
        kcut = rng.randrange(0, n - 3)                     # data bytes that reached the file
        old = bytearray(rb(rng, n))
        mix = force_crc(d_new[:kcut] + bytes(old[kcut:]), kcut, zlib.crc32(d_new))
        d_old = bytes(old[:kcut]) + mix[kcut:]
        if mix == d_new:
            continue
        k = nsect(n)
        cases.append(case([S(0, 2000, d_old), K(0, 3000, d_new, [16 + kcut] * k), L(0, 1000), L(0, 1000)]))
        # the reverse: the old header with data of the new payload (sector 0 kept, later sectors written) when n spans sectors
        if k >= 2 and kcut + 4 <= 496:
            # new payload differs from old only before byte 496 and collides with the old CRC there
            base = rb(rng, n)
            d_o = base
            d_n = force_crc(base[:kcut] + rb(rng, 4) + base[kcut + 4:], kcut, zlib.crc32(d_o))
            if d_n != d_o:
                cases.append(case([S(0, 2000, d_o), K(0, 3000, d_n, [16 + n] * k), L(0, 1000)]))  # complete: returns new, fine
    # G8: files shorter than their size field whose CRC is that of the zero-padded data (a reader that does not insist on getting
    # all `size` bytes would accept them), and files whose size field covers trailing bytes that are not there
    for _ in range(ctx.scale(150, 1500)):
        d = rb(rng, rng.choice([0, 1, 2, 5, 16, 100, 496, 600]))
        k = rng.choice([1, 1, 2, 3, 16, 500])
        t = rng.choice([5000, 5000, 1000, 999])
        raw = hdr(t, d + bytes(k), None, len(d) + k) + d + bytes(rng.choice([0, 0, k - 1]))
        cases.append(case([P(0, raw), L(0, 1000), L(0, 1000)], flock=rng.randrange(2)))
        cases.append(case([P(0, raw), 'G:1000', L(0, 1000)], flock=rng.randrange(2)))
    # G9: session_sid in front of the storage: valid_sid on cookies around every clause of its test, session_sid::load (Q) on crash
    # states and with cookies that differ from a stored name only in case / length / prefix
    good = b'I' + V0.encode()
    edge = [0x00, 0x2f, 0x30, 0x39, 0x3a, 0x40, 0x41, 0x46, 0x47, 0x60, 0x61, 0x66, 0x67, 0x7f, 0x80, 0xe1, 0xff]
    vs = [good, b'', b'I', good[:32], good + b'0', good[1:], b'i' + good[1:], b'J' + good[1:], b'H' + good[1:], good[:-1] + b'\0',
          b'I' + V1.encode(), b'I' + V2.encode(), good.upper(), b'I' + b'f' * 32, b'I' + b'F' * 32]
    for pos in (0, 1, 2, 16, 31, 32):
        for e in edge:
            vs.append(good[:pos] + bytes([e]) + good[pos + 1:])
    for _ in range(ctx.scale(200, 2000)):
        ln = rng.choice([31, 32, 33, 33, 33, 34])
        al = rng.choice([b'0123456789abcdef', b'0123456789abcdef' * 4 + b'ABCDEFg/:`@G', b'0123456789abcdefABCDEFg/:`@G'])
        vs.append(bytes([rng.choice([0x49, 0x49, 0x49, 0x69])]) + bytes(rng.choice(al) for _ in range(ln - 1)))
    for i in range(0, len(vs), 8):
        cases.append(case(['V:' + hexs(v) for v in vs[i:i + 8]]))
    for _ in range(ctx.scale(300, 3000)):
        nm = rng.choice([V0, V0, V2, V1])
        ck = b'I' + nm.encode()
        d_old, d_new = rb(rng, rng.choice([0, 1, 5, 20])), rb(rng, rng.choice([0, 1, 5, 20]))
        total = 16 + len(d_new)
        t_old, t_new = rng.choice([(2000, 3000), (3000, 2000)])
        ops = [S(0, t_old, d_old)] if rng.random() < 0.7 else []
        if rng.random() < 0.7:
            ops.append(K(0, t_new, d_new, [rng.choice([0, 16, total, rng.randrange(16, total + 1)])]))
        bad = rng.choice([ck.upper(), ck[:-1], ck + b'0', b'i' + ck[1:], ck[1:], ck[:5] + b'g' + ck[6:]])
        now = rng.choice([1000, 2000, 2001, 2500, 3000, 3001])
        ops += ['Q:%d:%s' % (now, hexs(rng.choice([ck, ck, bad]))), 'Q:%d:%s' % (now, hexs(ck)), L(0, now)]
        cases.append(case(ops, names=(nm,), flock=rng.randrange(2)))
    # G10b: the same with processes instead of threads (fcntl lock with inode re-check; F1 only)
    for _ in range(ctx.scale(8, 40)):
        cases.append(case(['U:0:%d:%d:%d:%d' % (rng.choice([5000, 9000]), rng.choice([1, 2, 3]), ctx.scale(300, 1500), rng.choice([1, 100, 480, 3000])), L(0, 100)],
                          flock=1))
    # G11: planted files whose size field is far larger than the file, loaded with 256 MiB of address space to spare (M) and with every
    # operator new of the load watched: the size field must be compared with the file length before the buffer is allocated
    # (defect garbage-size-field-bad-alloc, repaired in /repo c47a865: the answer is no session, the file is removed, nothing is allocated)
    for _ in range(ctx.scale(90, 600)):
        size = rng.choice([2 ** 30, 2 ** 30 + 5, 2 ** 31 - 16, 2 ** 31 - 1, 2 ** 31, 2 ** 31 + 1, 2 ** 32 - 1, 2 ** 32 - 16, 0, 3, 2 ** 20, 2 ** 24 + 1, 4097, 2 ** 16])
        t = rng.choice([5000, 5000, 1000, 999, I64MAX])
        tail = rb(rng, rng.choice([0, 3, 3, 40]))
        raw = struct.pack('<qII', t, rng.choice([0, zlib.crc32(tail), zlib.crc32(bytes(min(size, 2 ** 20))), rng.getrandbits(32)]), size) + tail
        if rng.random() < 0.15:
            raw = raw[:rng.choice([8, 12, 15])]
        cases.append(case([P(0, raw), 'M:0:1000:256', 'G:1000', 'M:0:1000:256', 'G:%d' % rng.choice([1001, 6000])], flock=rng.randrange(2)))
    # G11b: the boundary of the new test, st_size - 16 < size: size field = bytes behind the header -1, +0, +1, +2 (and the same
    # with trailing bytes: a record followed by other bytes is still a record), CRC of exactly `size` bytes / of the bytes present /
    # of the zero-padded bytes, so that each variant is accepted by a reader that gets that one detail wrong
    for _ in range(ctx.scale(250, 2500)):
        n = rng.choice([0, 1, 2, 3, 5, 16, 100, 495, 496, 497, 600, 5000])
        d = rb(rng, n)
        size = max(0, n + rng.choice([-1, 0, 0, 1, 1, 2, 16, 4096, 70000]))
        crc_of = rng.choice(['size', 'size', 'present', 'padded'])
        body = d[:size] if crc_of == 'size' else d if crc_of == 'present' else d + bytes(max(0, min(size, n + 70000) - n))
        t = rng.choice([5000, 5000, 1000, 999])
        raw = struct.pack('<qII', t, zlib.crc32(body), size) + d
        op = rng.choice(['M:0:1000:256', L(0, 1000)])
        cases.append(case([P(0, raw), op, 'G:1000', op], flock=rng.randrange(2)))
    # G11c: the same boundary exhaustively for small records: bytes present 0..5 x size field 0..present+2 x CRC of (size bytes | bytes present |
    # zero-padded) x deadline alive/expired, loaded with L
    for n in range(0, ctx.scale(5, 8)):
        d = rb(rng, n)
        for size in range(0, n + 3):
            for crc_of in ('size', 'present', 'padded'):
                body = d[:size] if crc_of == 'size' else d if crc_of == 'present' else d + bytes(max(0, size - n))
                for t in (5000, 999):
                    cases.append(case([P(0, struct.pack('<qII', t, zlib.crc32(body), size) + d), L(0, 1000), L(0, 1000)], flock=(n + size) % 2))
    # and after real saves and crashes the size field never asks for more than a saved payload
    for _ in range(ctx.scale(40, 300)):
        d_old, d_new = rb(rng, rng.choice([0, 5, 600])), rb(rng, rng.choice([0, 5, 600]))
        total = 16 + len(d_new)
        cases.append(case([S(0, 2000, d_old), K(0, 3000, d_new, [rng.choice([0, 16, total, rng.randrange(16, total + 1)])]), 'M:0:1000:256', L(0, 1000)],
                          flock=rng.randrange(2)))
    # G12: a planted file SHORTER than a header (1..15 bytes, unreadable by itself) under a crashed save; when sector 0 is not written
    # the hole between its end and the first written sector completes its header with zeros (size field 0 or small, CRC chosen by
    # the planter): KNOWN FINDING short-garbage-header-completed-by-hole when load then returns a value
    for _ in range(ctx.scale(120, 1200)):
        ln = rng.choice([1, 2, 7, 8, 9, 11, 12, 12, 13, 14, 15, 15])
        t = rng.choice([5000, 5000, 200, 90, 3])
        zs = rng.choice([0, 0, 1, 3])                                 # size field the zero-padded header will carry
        raw = (struct.pack('<qI', t, zlib.crc32(bytes(zs)) if rng.random() < 0.7 else rng.getrandbits(32)) + struct.pack('<I', zs))[:ln]
        n_new = rng.choice([0, 5, 496, 497, 600, 1100])
        k = nsect(n_new)
        total = 16 + n_new
        ps = [rng.choice([0, 0, total, 16, rng.randrange(16, total + 1)]) for _ in range(k)]
        if rng.random() < 0.6:
            ps[0] = 0
        pre = [L(0, 100)] if rng.random() < 0.2 else []
        cases.append(case([P(0, raw)] + pre + [K(0, 6000, rb(rng, n_new, rng.choice([None, b'\x00', b'ab'])), ps), L(0, rng.choice([100, 100, 5500])), 'G:100', L(0, 100)],
                          flock=rng.randrange(2)))
    # G13: short writes. The harness makes the j-th write() of the save accept at most k_j bytes; write_all() must continue where the
    # call stopped (buf += res, repaired in /repo 74c63d5: before, the beginning of the buffer was sent again). The model (write_all_short)
    # predicts every call (offset, length, CRC) and the file; the oracle demands that the record comes back exactly while alive.
    for _ in range(ctx.scale(300, 3000)):
        n = rng.choice([0, 1, 2, 3, 5, 8, 16, 30, 100, 600])
        d = rb(rng, n, rng.choice([None, None, b'a', b'ab']))
        ks = [rng.choice([0, 0, 1, 4, 7, 8, 9, 12, 15, 16, 17]) if rng.random() < 0.4 else 0]
        while len(ks) < 6 and rng.random() < 0.7:
            ks.append(rng.choice([0, 1, 2, 3, 5, 8, 15, 16, 17, max(1, n // 2), max(1, n - 1), n, n + 1]))
        if rng.random() < 0.05:
            d, ks = b'', [4]                                           # the old witness of short-write-corrupt-record (header repeated itself into a valid empty record)
        pre = [S(0, 2000, rb(rng, rng.choice([0, n, n + 7])))] if rng.random() < 0.5 else []
        cases.append(case(pre + ['W:0:%d:%s:%s' % (rng.choice([3000, 3000, 900]), hexs(d), ','.join(map(str, ks))), L(0, 1000), 'G:1000', L(0, 1000)],
                          flock=rng.randrange(2)))
    # G14: short reads. The data read()s of a load are cut to k_j bytes by the harness; read_all() must deposit every piece where the
    # previous one stopped (repaired in /repo 74c63d5: before, at the start of the buffer, so that a live record failed the CRC test and was
    # unlinked). A load over short reads must answer exactly like a plain load.
    for _ in range(ctx.scale(250, 2500)):
        n = rng.choice([0, 1, 2, 3, 5, 8, 16, 30, 100, 600])
        d = rb(rng, n, rng.choice([None, None, b'a', b'ab', b'\x00']))
        ks = []
        while len(ks) < 5 and rng.random() < 0.75:
            ks.append(rng.choice([0, 1, 2, 3, 5, 8, max(1, n // 2), max(1, n - 1), n, n + 1]))
        t = rng.choice([3000, 3000, 900])
        first = rng.choice([S(0, t, d), S(0, t, d), P(0, hdr(t, d, None, n + rng.choice([0, 1])) + d + rb(rng, rng.choice([0, 2])))])
        cases.append(case([first, 'D:0:1000:%s' % (','.join(map(str, ks)) if ks else '-'), 'G:1000', L(0, 1000)], flock=rng.randrange(2)))
        # the same from the first read() on (the 8 + 4 + 4 header bytes go through read_all too), and a gc whose reads are cut
        hk = [rng.choice([0, 1, 2, 3, 4, 7, 8]) for _ in range(rng.randrange(1, 7))] + ks
        cases.append(case([first, 'Y:%d:%d' % (rng.choice([1000, 1000, 3001]), rng.choice([1, 2, 3, 7, 8])), 'H:0:1000:%s' % ','.join(map(str, hk)), L(0, 1000)],
                          flock=rng.randrange(2)))
    # G15: the class crc32_calc itself (Z lines): buffers with position-dependent content of lengths around every plausible block boundary,
    # fed whole and in pieces; pairs that agree on a long prefix (the first 4 KiB / 64 KiB / 128 KiB) and differ in one later byte
    big = []
    zl = []
    for ln in [0, 1, 2, 3, 15, 16, 17, 255, 256, 257, 4095, 4096, 4097, 8191, 8192, 8193, 32767, 32768, 32769]:
        seed = rng.randrange(256)
        zl.append('%d.%d.-1' % (ln, seed))
        if ln > 1:
            zl.append('%d.%d.%d' % (ln, seed, ln - 1))
            zl.append('%d.%d.%d:%s' % (ln, seed, rng.randrange(ln), ','.join(str(rng.choice([1, 2, ln // 2, ln - 1, 4096])) for _ in range(rng.randrange(1, 4)))))
    for i in range(0, len(zl), 12):
        cases.append('Z ' + ' '.join(zl[i:i + 12]))
    for ln in [65535, 65536, 65537, 131071, 131072, 131073] + ([rng.choice([70000, 100000, 196609, 262145])] if ctx.quick() else [70000, 100000, 196608, 196609, 262144, 262145, 300000, 524289]):
        seed = rng.randrange(256)
        late = [f for f in (ln - 1, 65536, 65537, 131072, rng.randrange(ln // 2, ln)) if 0 <= f < ln]
        toks = ['%d.%d.-1' % (ln, seed), '%d.%d.%d' % (ln, seed, rng.choice(late)),
                '%d.%d.%d:%s' % (ln, seed, late[0], rng.choice(['65536', '65535,2', '4096,4096', '1', str(ln - 1), '32768,32768,32768']))]
        big.append('Z ' + ' '.join(toks))
    big.append('Z 1048577.%d.-1 1048577.%d.1048576' % (7, 7))
    if not ctx.quick():
        big.append('Z 4194305.3.-1:65536,65536 4194305.3.4194304 4194305.3.70000')
    # G16: crash states of LARGE values (64 KiB .. 300 KiB, content by pattern so that the lines stay short): new and old values of equal and
    # different lengths, the save dying beyond 64 KiB at sector boundaries and mid-sector (every sector flushed up to that point), and
    # sector subsets; a checksum that does not cover the whole value lets the mixture new[0..k) ++ old[k..n) through
    sizes = [65537, 66000, 70000, 131073] + [rng.choice([90000, 150000, 200000])] + ([300000] if rng.random() < 0.5 or not ctx.quick() else [])
    for n_new in sizes:
        k = nsect(n_new)
        total = 16 + n_new
        s_new, s_old = rng.randrange(256), rng.randrange(256)
        for rep in range(ctx.scale(2, 6) if n_new < 200000 else 1):
            n_old = rng.choice([n_new, n_new, n_new + rng.choice([1, 512, 5000]), max(0, n_new - rng.choice([1, 3000])), 0])
            kk = rng.choice([65536, 65537, 65536 + 496, 66048 - 16, 66048 - 16 + rng.randrange(1, 512), n_new - 1, n_new - 513, rng.randrange(65536, n_new),
                             rng.randrange(16, 65536)])
            kk = max(0, min(kk, n_new))
            p = 16 + kk
            if rng.random() < 0.75:
                ps = [p] * k                                              # the save died after p bytes, everything written so far reached the disk
            else:
                ps = [rng.choice([p, p, 0, total]) for _ in range(k)]      # sector subsets
            pre = ['S:0:2000:' + pat(n_old, s_old)] if n_old else []
            big.append(case(pre + ['K:0:3000:%s:%s' % (pat(n_new, s_new), ','.join(map(str, ps))), L(0, 1000), L(0, 1000)], flock=rng.randrange(2)))
    # a complete large save and load, short writes/reads of a large value, and the header of a large value over data that differs from it in
    # one late byte (sector 0 of the second save not written, every later sector written in full): must be refused
    n = rng.choice([65537, 70000, 140000])
    sd = rng.randrange(256)
    big.append(case(['S:0:3000:' + pat(n, sd), L(0, 1000), 'W:0:3000:%s:16,65536,1,0' % pat(n, sd), 'D:0:1000:65536,1,4096', L(0, 1000)]))
    for fl in (n - 1, 65536, rng.randrange(65536, n)):
        big.append(case(['S:0:3000:' + pat(n, sd), 'K:0:4000:%s:%s' % (pat(n, sd, fl), ','.join(['0'] + [str(16 + n)] * (nsect(n) - 1))), L(0, 1000)]))
    # spread the heavy lines over the whole list: the runners split the list into contiguous parts
    for j, c in enumerate(big):
        cases.insert((j + 1) * len(cases) // (len(big) + 1), c)
    # G17: gc racing with a request on the same sid, made deterministic: the harness releases a second thread (load + save with a deadline in the
    # future) right after gc's read() of the stamp of that file. The file looks dead at that read (expired record, garbage, or a file just created
    # with no header yet); with the stamp read and the unlink under one hold of the per-sid lock the second thread blocks until gc is done
    # with the file, so the saved session is there afterwards - in both lock modes
    amb = []
    for _ in range(ctx.scale(24, 200)):
        names = [V0, V1, V2]
        rng.shuffle(names)
        pre = []
        kind = rng.randrange(6)
        if kind == 0:
            pre.append(S(0, rng.choice([900, 999, 0]), rb(rng, rng.choice([0, 5, 600]))))           # expired record
        elif kind == 1:
            pre.append(P(0, b''))                                                               # just created, no header yet
        elif kind == 2:
            pre.append(P(0, rb(rng, rng.choice([1, 7]))))                                       # shorter than a stamp
        elif kind == 3:
            pre.append(S(0, rng.choice([1000, 1001, 5000]), rb(rng, rng.choice([0, 5, 600]))))  # live: gc keeps it, the request overwrites it
        elif kind == 4:
            pre.append(P(0, struct.pack('<q', 999) + rb(rng, 9)))                               # expired stamp, garbage behind it
        for j in (1, 2):
            if rng.random() < 0.6:
                pre.append(S(j, rng.choice([900, 1000, 5000]), rb(rng, rng.randrange(0, 9))))
        rng.shuffle(pre)
        d = rb(rng, rng.choice([0, 3, 40, 700]))
        amb.append(case(pre + ['A:0:1000:%d:%s' % (rng.choice([1000, 5000]), hexs(d)), L(0, 1000), 'G:1000', L(0, 1000)] + [L(j, 1000) for j in (1, 2)],
                        names=names, flock=rng.randrange(2)))
    for j, c in enumerate(amb):
        cases.insert((j + 1) * len(cases) // (len(amb) + 1), c)
    # G10: threads on one session (per-sid mutex, with and without the fcntl lock): a load that runs while other threads save must see a
    # complete record, never a half-written one (which it would also unlink)
    for _ in range(ctx.scale(12, 60)):
        t = rng.choice([5000, 9000])
        pre = [S(0, 4000, rb(rng, rng.choice([0, 10, 3000])))] if rng.random() < 0.5 else []
        cases.append(case(pre + ['T:0:%d:%d:%d:%d' % (t, rng.choice([2, 4]), ctx.scale(300, 1500), rng.choice([1, 100, 480, 3000])), L(0, 100)],
                          flock=rng.randrange(2)))
    return cases


# ------------------------------------------------------------------------------------------------
# end-to-end cases: the public session API (session_interface -> session_sid -> session_file_storage), harness/C18_session.cpp
# ------------------------------------------------------------------------------------------------
TIMEOUT = 1000          # session.timeout of the end-to-end harness (expire=renew: deadline = time of the save + timeout)


def emap(m):
    return ';'.join('%s=%s' % (hexs(k), hexs(v)) for k, v in sorted(m.items())) if m else '-'


def esize(m):
    return sum(4 + len(k) + len(v) for k, v in m.items())


def gen_e2e_cases(ctx):
    rng = ctx.rng
    cases = []
    ctr = [0]

    def mk(nbytes=None):
        ctr[0] += 1
        m = {b'n': str(ctr[0]).encode()}
        for _ in range(rng.randrange(0, 3)):
            m[rng.choice([b'a', b'b', b'user', b'k' * 20])] = rb(rng, rng.choice([0, 1, 3, 10, 40]), rng.choice([None, b'ab']))
        if nbytes:
            m[b'blob'] = rb(rng, nbytes)
        return m
    # every byte progress of a single-sector save, old state absent / same length / shorter / longer, three clock positions
    for _ in range(ctx.scale(12, 60)):
        new = mk()
        total = 16 + esize(new)
        for shape in ('absent', 'rewrite'):
            old = mk()
            for p in [0] + list(range(16, total + 1)):
                for (t_r) in (1150, 2000 + rng.choice([0, 100]), 2101):
                    ops = (['W:1000:' + emap(old)] if shape == 'rewrite' else []) + ['C:1100:%s:%d' % (emap(new), p), 'R:%d' % t_r]
                    if rng.random() < 0.3:
                        ops.append('R:%d' % t_r)
                    cases.append('E ' + ' '.join(ops))
    # multi-sector values
    for _ in range(ctx.scale(60, 600)):
        new, old = mk(rng.choice([480, 600, 1100, 1500])), mk(rng.choice([100, 600, 1300, 2000]))
        total = 16 + esize(new)
        k = (total + 511) // 512
        ps = [rng.choice([0, total, rng.randrange(16, total + 1)]) for _ in range(k)]
        ops = (['W:1000:' + emap(old)] if rng.random() < 0.8 else []) + ['C:1100:%s:%s' % (emap(new), ','.join(map(str, ps))), 'R:1200']
        cases.append('E ' + ' '.join(ops))
    # planted garbage under the public API: a size field far beyond the file (1 MiB .. 4 GiB), a deadline in the future, any CRC; the load runs
    # with 256 MiB of address space to spare. The answer must be a fresh session and the file must be gone (a std::bad_alloc out of
    # session_interface::load was the repaired defect garbage-size-field-bad-alloc)
    for _ in range(ctx.scale(40, 400)):
        size = rng.choice([2 ** 30, 2 ** 31 - 16, 2 ** 31, 2 ** 32 - 1, 2 ** 20, 2 ** 24 + 1])
        tail = rb(rng, rng.choice([0, 3, 40]))
        raw = struct.pack('<qII', rng.choice([5000, I64MAX, 2101]), rng.choice([0, zlib.crc32(tail), rng.getrandbits(32)]), size) + tail
        ops = ['W:1000:' + emap(mk()), 'J:' + hexs(raw), 'B:1100:256', 'R:1100']
        if rng.random() < 0.5:
            ops += ['W:1200:' + emap(mk()), 'R:1300']
        cases.append('E ' + ' '.join(ops))
    # histories
    for _ in range(ctx.scale(500, 6000)):
        clock = 1000
        ops = []
        for _ in range(rng.randrange(2, 9)):
            r = rng.randrange(10)
            m = mk()
            if r < 3:
                ops.append('W:%d:%s' % (clock, emap(m)))
            elif r < 6:
                total = 16 + esize(m)
                ops.append('C:%d:%s:%d' % (clock, emap(m), rng.choice([0, 16, 17, total - 1, total, rng.randrange(16, total + 1)])))
            elif r < 9:
                ops.append('R:%d' % clock)
            else:
                ops.append('N')
            clock += rng.choice([0, 1, 10, 500, 999, 1000, 1001])
        ops.append('R:%d' % clock)
        cases.append('E ' + ' '.join(ops))
    return cases


def oracle_e2e(case_line, out):
    """the property on the answers of the public API: a load returns a complete map that was saved (and is not past its deadline) or nothing"""
    if out.startswith('<crash') or out.startswith('<missing'):
        return ('crash', 'end-to-end harness died on this script: ' + out[:300])
    ops = case_line.split()[1:]
    o = out.split(' ')
    if len(o) != len(ops):
        return ('bad-output', 'harness answered %d tokens for %d operations: %s' % (len(o), len(ops), out[:200]))
    adm, must, forgot = {}, None, False
    for tok_in, tok_out in zip(ops, o):
        if 'EXC(' in tok_out:
            return ('exception', 'operation %s threw: %s' % (tok_in[:60], tok_out[:100]))
        if tok_out.startswith('BAD-OP') or '{files=' not in tok_out:
            return ('bad-output', 'unexpected answer %s to %s' % (tok_out[:80], tok_in[:60]))
        res, files = tok_out[:tok_out.index('{')], int(tok_out[tok_out.index('=', tok_out.index('{')) + 1:-1])
        a = tok_in.split(':')
        if a[0] == 'W':
            now = int(a[1])
            if a[2] == '-':
                adm, must = {}, None
            else:
                adm, must = {a[2]: now + TIMEOUT}, a[2]
                if res != 'W[2]' and res != 'W[1]':
                    return ('save-wrote-nothing', 'a changed session was saved with %s write calls' % res)
        elif a[0] == 'C':
            now = int(a[1])
            if a[2] != '-':
                adm = dict(adm)
                adm[a[2]] = now + TIMEOUT
            must = None
        elif a[0] == 'N':
            adm, must, forgot = {}, None, True
        elif a[0] == 'J':
            # unreadable garbage planted over the session file (the generator plants only records that a correct reader refuses)
            if res == 'J[1]':
                adm, must = {}, None
        elif a[0] in ('R', 'B'):
            now = int(a[1])
            if res == 'R=none':
                if must is not None and now <= adm[must]:
                    return ('live-session-lost', 'session API reported no session although an intact unexpired one (deadline %d) was stored' % adm[must])
                if files != 0 and not forgot:
                    return ('unreadable-file-not-removed', 'load reported no session but left %d file(s) in place' % files)
                adm, must = {}, None
            else:
                got = res[2:]
                if got not in adm:
                    return ('load-returned-unsaved-value', 'session API returned the content %s, which no earlier save wrote' % got[:200])
                if adm[got] < now:
                    return ('expired-session-returned', 'session API returned a session whose deadline %d is before now %d' % (adm[got], now))
                if must is not None and got != must and now <= adm[must]:
                    return ('load-returned-unsaved-value', 'intact session stored but another content was returned: ' + got[:200])
                adm, must = {got: adm[got]}, got
        else:
            return ('bad-output', 'unknown op')
    return None


# ------------------------------------------------------------------------------------------------
# property oracle: evaluated on the implementation's answers only (reference record reader: struct + zlib)
# ------------------------------------------------------------------------------------------------
def parse_record(raw):
    if len(raw) < 16:
        return None
    t, crc, size = struct.unpack('<qII', raw[:16])
    if size > len(raw) - 16:
        return None
    d = raw[16:16 + size]
    if zlib.crc32(d) != crc:
        return None
    return (t, d)


def valid_name(n):
    return len(n) == 32 and all(c in '0123456789abcdefABCDEF' for c in n)


def parse_summary(tok):
    i = tok.index('{')
    body = tok[i + 1:tok.rindex('}')]
    m = {}
    if body:
        for part in body.split(','):
            k, v = part.split('=')
            m[int(k)] = v
    return tok[:i], m


def zspec(tok):
    a = tok.split(':')
    v = [int(x) for x in a[0].split('.')]
    return v[0], v[1], (v[2] if len(v) > 2 else -1)


def oracle_z(case_line, out):
    """crc32_calc(x), fed in any pieces, must be zlib.crc32(x) for every x; two buffers that differ in one byte must differ in their checksum"""
    if out.startswith('<crash') or out.startswith('<missing'):
        return ('crash', 'harness died on this script: ' + out[:300])
    toks = case_line.split()[1:]
    o = out.split(' ') if out else []
    if len(o) != len(toks):
        return ('bad-output', 'harness answered %d tokens for %d buffers: %s' % (len(o), len(toks), out[:200]))
    seen = {}
    for tok, got in zip(toks, o):
        ln, seed, flip = zspec(tok)
        k = (ln, seed)
        if k in seen and seen[k][0] != flip and seen[k][1] == got:
            return ('crc32-calc-ignores-bytes',
                    'crc32_calc gave the same checksum %s for two buffers of %d bytes that differ (only) at byte %s: the checksum written by save '
                    'and compared by load does not cover the whole value' % (got, ln, sorted(x for x in (flip, seen[k][0]) if x >= 0)))
        seen.setdefault(k, (flip, got))
    for tok, got in zip(toks, o):
        ln, seed, flip = zspec(tok)
        want = '%08x' % zlib.crc32(pattern(ln, seed, flip))
        if got != want:
            return ('crc32-calc-wrong', 'crc32_calc answered %s for the %d-byte buffer %s, CRC-32 is %s' % (got, ln, tok, want))
    return None


def oracle(case_line, out):
    if case_line.startswith('E '):
        return oracle_e2e(case_line, out)
    if case_line.startswith('Z '):
        return oracle_z(case_line, out)
    if out.startswith('<crash') or out.startswith('<missing'):
        return ('crash', 'harness died on this script: ' + out[:300])
    c = case_line.split()
    names = c[1][2:].split(',')
    ops = c[2:]
    o = out.split(' ')
    if len(o) != len(ops):
        return ('bad-output', 'harness answered %d tokens for %d operations: %s' % (len(o), len(ops), out[:200]))
    n = len(names)
    adm = [set() for _ in range(n)]      # values load may return
    must = [None] * n                    # value load must return while its deadline has not passed (file state fully known)
    cands = [[] for _ in range(n)]       # saves whose header may be in the file
    dead = [None] * n                    # known first-8-bytes state: ('t', deadline) | ('short',) | None unknown
    known_absent = [True] * n
    shortw = [False] * n                 # a save with cut-short write() calls is (part of) what the file holds
    shortp = [None] * n                  # planted file shorter than a header that a crashed save may have extended (bytes, crashed?)
    prev = {}
    for tok_in, tok_out in zip(ops, o):
        if 'EXC(' in tok_out:
            return ('exception', 'operation %s threw: %s' % (tok_in[:60], tok_out[:100]))
        if tok_out.startswith('BAD-OP') or '{' not in tok_out:
            return ('bad-output', 'unexpected answer %s to %s' % (tok_out[:80], tok_in[:60]))
        res, summ = parse_summary(tok_out)
        a = tok_in.split(':')
        op = a[0]
        if op in ('V', 'Q'):
            ck = unhex(a[-1])
            ok = len(ck) == 33 and ck[0] == 0x49 and all(ch in b'0123456789abcdef' for ch in ck[1:])
            if op == 'V':
                want = 'V=' + hexs(ck[1:]) if ok else 'V=none'
                if res != want:
                    return ('valid-sid-wrong', 'valid_sid answered %s for the cookie %s (expected %s)' % (res[:80], ck[:40], want[:80]))
            hit = [i for i in range(n) if ok and names[i].encode() == ck[1:]]
            if op == 'Q' and hit:
                # a well-formed cookie naming file i: judged exactly like a load of that file
                op, a, res = 'L', ['L', str(hit[0]), a[1]], 'L' + res[1:]
            else:
                if op == 'Q' and res != 'Q=none':
                    return ('session-from-invalid-cookie', 'session_sid::load returned a session for the cookie %s' % ck[:40])
                if prev != summ:
                    return ('invalid-cookie-touched-storage', 'an operation with a cookie that names no stored session changed the directory')
                continue
        big = None
        if '!alloc=' in res:
            res, big = res.split('!alloc=')
        if op == 'M':
            if res == 'M=EXC':
                return ('garbage-size-field-bad-alloc',
                        'load threw std::bad_alloc (and removed nothing) with %s MiB of address space to spare%s: read_from_file must compare '
                        'the size field with the file length before it allocates the buffer' % (a[3], ' (request of %s bytes)' % big if big else ''))
            op, a, res = 'L', ['L', a[1], a[2]], 'L' + res[1:]
        if big is not None:
            return ('load-allocated-beyond-file',
                    'load asked operator new for %s bytes in one request although the session file is shorter than that (and than 4096 bytes): '
                    'a buffer was sized from the size field without checking it against the file length' % big)
        if op == 'U':
            op, res = 'T', 'T' + res[1:]
        if op == 'T':
            if res != 'T=ok':
                return ('concurrent-access-corruption', 'loads running concurrently with saves of the same session failed or returned a value '
                        'that no thread wrote: ' + res[:80])
            a = ['S', a[1], a[2], hexs(b'final')]
            op = 'S'
        cut_read = False
        if op in ('D', 'H'):
            # a load whose read() calls (D: for the data, H: from the first one, header fields included) are cut short: judged like a load
            cut_read = any(int(x) != 0 for x in a[3].split(',')) if a[3] != '-' else False
            op, a, res = 'L', ['L', a[1], a[2]], 'L' + res[1:]
        if op == 'Y':
            # a gc whose read() calls are all cut to k bytes: judged like a gc
            op, a, res = 'G', ['G', a[1]], 'G' + res[1:]
        if op == 'A':
            # gc racing with a request that loads and saves session i with a deadline in the future (released right after gc's stamp read): the
            # other files are judged as for a gc; session i was saved and never removed afterwards: it must be there
            i, now, t, d = int(a[1]), int(a[2]), int(a[3]), val(payload(a[4]))
            for j in range(n):
                if j == i or not valid_name(names[j]):
                    if j != i and prev.get(j) != summ.get(j):
                        return ('gc-touched-foreign-file', 'gc changed a file whose name is not 32 hex digits: ' + names[j])
                    continue
                if known_absent[j]:
                    continue
                live = (must[j] is not None and must[j][0] >= now) or (dead[j] is not None and dead[j][0] == 't' and dead[j][1] >= now)
                gone = dead[j] is not None and (dead[j][0] == 'short' or dead[j][1] < now)
                if live and j not in summ:
                    return ('gc-removed-live-session', 'gc at %d removed a file whose deadline %s has not passed' % (now, dead[j]))
                if gone and j in summ:
                    return ('gc-kept-dead-file', 'gc at %d kept a file whose timestamp is unreadable or past (%s)' % (now, dead[j]))
                if j not in summ:
                    adm[j], must[j], cands[j], dead[j], known_absent[j], shortp[j], shortw[j] = set(), None, [], None, True, None, False
            if i not in summ:
                return ('gc-removed-live-session',
                        'a request saved session %d with deadline %d while gc at %d was running, nobody removed it afterwards, and the file is gone: '
                        'gc unlinked a live session (its look at the stamp and its unlink are not under one hold of the per-sid lock)' % (i, t, now))
            adm[i], must[i], cands[i], dead[i], shortp[i], shortw[i], known_absent[i] = {(t, d)}, (t, d), [(t, d)], ('t', t), None, False, False
            prev = summ
            continue
        cut_write = False
        if op == 'W':
            # a save whose write() calls were cut short: write_all advances its buffer (repaired in /repo 74c63d5), so this is a complete save
            ks = [] if a[4] == '-' else [int(x) for x in a[4].split(',')]
            cut_write = any(k != 0 for k in ks)
            op = 'S'
        if op in ('S', 'K'):
            i, t, d = int(a[1]), int(a[2]), val(payload(a[3]))
            if op == 'S':
                adm[i], must[i], cands[i], dead[i], shortp[i], shortw[i] = {(t, d)}, (t, d), [(t, d)], ('t', t), None, cut_write
                if i not in summ:
                    return ('save-left-no-file', 'no file after a completed save')
            else:
                adm[i] = set(adm[i]) | {(t, d)}
                must[i], dead[i] = None, None
                cands[i] = cands[i] + [(t, d)]
                if shortp[i] is not None:
                    shortp[i] = (shortp[i][0], True)
            known_absent[i] = False
        elif op == 'P':
            i, raw = int(a[1]), payload(a[2])
            rec = parse_record(raw)
            rec = (rec[0], val(rec[1])) if rec else None
            adm[i] = {rec} if rec else set()
            must[i] = rec
            cands[i] = [rec] if rec else []
            dead[i] = ('t', struct.unpack('<q', raw[:8])[0]) if len(raw) >= 8 else ('short',)
            known_absent[i] = False
            shortp[i] = (raw, False) if 0 < len(raw) < 16 else None
            shortw[i] = False
        elif op == 'X':
            i = int(a[1])
            if i in summ:
                return ('remove-left-file', 'file still present after remove')
            adm[i], must[i], cands[i], dead[i], known_absent[i], shortp[i], shortw[i] = set(), None, [], None, True, None, False
        elif op == 'L':
            i, now = int(a[1]), int(a[2])
            if res == 'L=none':
                if i in summ:
                    return ('unreadable-file-not-removed', 'load reported no session but left the file in place')
                if now > 0 and must[i] is not None and must[i][0] >= now:
                    if cut_read:
                        return ('short-read-live-session-removed',
                                'a read() of the data returned fewer bytes than asked during load and load reported no session (and unlinked the file) '
                                'although the record is intact and unexpired (deadline %d, %d bytes): read_all() must advance its buffer by what '
                                'read() returned' % (must[i][0], len(must[i][1])))
                    if shortw[i]:
                        return ('short-write-corrupt-record',
                                'a save during which write() accepted fewer bytes than asked reported success, but the record it stored is not '
                                'readable (deadline %d, %d bytes): write_all() must advance its buffer by what write() accepted'
                                % (must[i][0], len(must[i][1])))
                    return ('live-session-lost', 'load reported no session although an intact unexpired record (deadline %d, %d bytes) was there'
                            % (must[i][0], len(must[i][1])))
                adm[i], must[i], cands[i], dead[i], known_absent[i], shortp[i], shortw[i] = set(), None, [], None, True, None, False
            else:
                ts, hx_ = res[2:].split('.', 1)
                got = (int(ts), parse_val(hx_))
                if i not in summ:
                    return ('load-removed-live-file', 'load succeeded but the file is gone')
                if now > 0:
                    if got[0] < now:
                        return ('expired-session-returned', 'load returned a session whose deadline %d is before now %d' % (got[0], now))
                    if must[i] is not None and got != must[i] and shortw[i]:
                        return ('short-write-corrupt-record',
                                'a save of deadline %d, %d bytes during which write() accepted fewer bytes than asked reported success, and load then '
                                'returned deadline %d with %d bytes: write_all() must advance its buffer by what write() accepted'
                                % (must[i][0], len(must[i][1]), got[0], len(got[1])))
                    if must[i] is not None and got != must[i] and must[i][0] >= now:
                        return ('load-returned-unsaved-value', 'intact record (deadline %d, %d bytes) but load returned deadline %d, %d bytes'
                                % (must[i][0], len(must[i][1]), got[0], len(got[1])))
                    if got not in adm[i]:
                        coll = [x for x in cands[i] if x[0] == got[0] and len(x[1]) == len(got[1])
                                and x[1].crc == got[1].crc and x[1] != got[1]]
                        if coll:
                            return ('torn-write-crc32-collision',
                                    'after a torn save load returned %d bytes that carry the deadline, length and CRC-32 of the header of a '
                                    'saved value but are not that value (mixture of old and new bytes): got %s, header belongs to %s'
                                    % (len(got[1]), got[1].prev(), coll[0][1].prev()))
                        if shortp[i] is not None and shortp[i][1]:
                            pt, pc, pz = struct.unpack('<qII', shortp[i][0] + bytes(16 - len(shortp[i][0])))
                            if got[0] == pt and len(got[1]) == pz and got[1].crc == pc:
                                return ('short-garbage-header-completed-by-hole',
                                        'a planted file of %d bytes (shorter than a header, unreadable) was extended by a crashed save that did not '
                                        'write sector 0; the hole completed its header with zeros and load returned deadline %d with %d bytes, '
                                        'which no save wrote' % (len(shortp[i][0]), got[0], len(got[1])))
                        return ('load-returned-unsaved-value', 'load returned deadline %d data %s (%d bytes), which no earlier save wrote'
                                % (got[0], got[1].prev(), len(got[1])))
                adm[i], must[i] = {got}, got
        elif op == 'G':
            now = int(a[1])
            for i in range(n):
                if not valid_name(names[i]):
                    if prev.get(i) != summ.get(i):
                        return ('gc-touched-foreign-file', 'gc changed a file whose name is not 32 hex digits: ' + names[i])
                    continue
                if known_absent[i]:
                    continue
                live = (must[i] is not None and must[i][0] >= now) or (dead[i] is not None and dead[i][0] == 't' and dead[i][1] >= now)
                gone = dead[i] is not None and (dead[i][0] == 'short' or dead[i][1] < now)
                if live and i not in summ:
                    return ('gc-removed-live-session', 'gc at %d removed a file whose deadline %s has not passed' % (now, dead[i]))
                if gone and i in summ:
                    return ('gc-kept-dead-file', 'gc at %d kept a file whose timestamp is unreadable or past (%s)' % (now, dead[i]))
                if i not in summ:
                    adm[i], must[i], cands[i], dead[i], known_absent[i], shortp[i], shortw[i] = set(), None, [], None, True, None, False
        else:
            return ('bad-output', 'unknown op')
        # no operation may touch another file
        for j in range(n):
            if op in ('S', 'K', 'W', 'P', 'X', 'L', 'D') and j != int(a[1]) and prev.get(j) != summ.get(j):
                return ('foreign-file-changed', 'operation %s changed file %d' % (tok_in[:40], j))
        prev = summ
    return None


def nontrivial(case_line, out):
    if case_line.startswith('Z '):
        return True
    if case_line.startswith('E '):
        return ' C:' in case_line or ' J:' in case_line
    return ' K:' in case_line or ' W:' in case_line or ' D:' in case_line or ' H:' in case_line or ' Y:' in case_line or ' A:' in case_line or ' P:' in case_line or ' G:' in case_line or ' V:' in case_line or ' Q:' in case_line or ' T:' in case_line or ' U:' in case_line or ' M:' in case_line


def classify(case_line, out):
    if case_line.startswith('Z '):
        return 'crc32_calc:' + ('>64KiB' if any(zspec(t)[0] > 65536 for t in case_line.split()[1:]) else '<=64KiB')
    if case_line.startswith('E '):
        last = [x for x in out.split(' ') if x.startswith('R=')]
        return 'api:' + ('crash' if ' C:' in case_line else 'garbage' if ' J:' in case_line else 'save-load') + (':none' if last and last[-1].startswith('R=none') else ':some' if last else '')
    ops = case_line.split()[2:]
    kinds = set(x[0] for x in ops)
    k = 'cookie' if kinds == {'V'} else 'gc-race' if 'A' in kinds else 'short-write' if 'W' in kinds else 'short-read' if ('D' in kinds or 'H' in kinds or 'Y' in kinds) else 'threads' if 'T' in kinds else 'processes' if 'U' in kinds else 'crash' if 'K' in kinds else 'garbage' if 'P' in kinds else 'gc' if 'G' in kinds else 'save-load'
    if k == 'crash':
        ks = [x for x in ops if x[0] == 'K']
        ns = len(ks[-1].split(':')[4].split(','))
        if '@' in ks[-1]:
            k += ':large'
        k += ':1-sector' if ns <= 1 else ':%d-sectors' % ns if ns <= 3 else ':4+sectors'
    last = [x for x in out.split(' ') if x.startswith('L=')]
    if 'Q' in kinds:
        k += ':sid'
    return k + (':none' if last and last[-1].startswith('L=none') else ':some' if last else '')


def run(ctx):
    errs = vlib.gen_coq(GEN)
    for n, e in errs:
        ctx.broke('translator cxx2v failed on %s (tie to source broken)' % n, e)
    e = gen_sid_leaf(ctx)
    if e:
        ctx.broke('translator cxx2v failed on session_sid::valid_sid (tie to source broken)', e)
    e, locktab = gen_locktab(ctx)
    if e:
        ctx.broke('lock table: the lock structure of src/session_posix_file_storage.cpp is no longer understood (tie broken)', e)
    ctx.coverage['lock_table'] = {k: ['%s@%d' % x for x in v] for k, v in (locktab or [])}
    e = crc_calc_tie()
    if e:
        ctx.broke('tie: cppcms::impl::crc32_calc / its two uses no longer have the text the model crc32_calc was written from', e)
    res = vlib.coq_props('C18')
    ctx.proof(res)
    ctx.coverage['trusted_base'] = [
        'Coq 8.16.1 kernel, vm_compute (collision witness, examples, 256-entry CRC table sweep); no native_compute',
        'tools/cxx2v.py + clang JSON AST (CRC table of private/crc32.h, via harness/C18_crc_tu.cpp; per-character test of session_sid::valid_sid, '
        're-wrapped from the transducer form by checks/C18.py:gen_sid_leaf)',
        'extraction: ExtrOcamlBasic only, OCaml 4.13.1',
        'checks/C18.py:lock_table (lexical extraction of locked_file scopes and file system calls; class locked_file tied by SHA-256 of its text)',
        'checks/C18.py:crc_calc_tie (text of class crc32_calc and of its two call sites); Python zlib.crc32 as the reference checksum in the oracle',
        'harness/C18_session.cpp (same interposition and materialisation, public session API, judged by the oracle only)',
        'harness/C18_filestore.cpp (interposed write()/read()/time()/operator new, crash-state materialisation from the recorded writes, own bitwise CRC for '
        'file summaries), ocaml/C18_driver.ml, checks/C18.py (generators; oracle with Python struct/zlib as reference reader)',
        'hand model of session_posix_file_storage.cpp control flow (coq/C18/Defs.v), tied by correspondence',
        'crash model: 512-byte sectors reach the disk independently, each showing a prefix of the header+data stream; 16-byte header atomic; '
        'unwritten bytes of an extended file read as zero; no truncation']
    ctx.assumptions = ['clock > 0 at load time (an all-zero hole is a valid empty record with deadline 0 otherwise)',
                       'payload shorter than 2^31 bytes; deadlines fit int64; bytes < 256',
                       'C18_crash_safe: old file empty/absent or at least 16 bytes; C18_crash_safe_any_old: no hypothesis on the old file, which is then read '
                       'zero-padded to 16 bytes (a 1..15-byte planted file extended by the crash completes its header with hole zeros: KNOWN FINDING)',
                       'little-endian target with the 16-byte struct {int64,uint32,uint32} unpadded (x86-64)',
                       'every write() of a regular file is complete, except in the short-transfer theorems and scripts (C18_short_*, C18_read_short_eq, C18_xhistory_*, ops W and D), where any cut pattern is allowed; reads of the three header fields are complete']
    # the two harnesses and the extracted model are independent builds: run them side by side
    import concurrent.futures
    with concurrent.futures.ThreadPoolExecutor(3) as ex:
        f1 = ex.submit(vlib.build_harness, 'C18_filestore', ['C18_filestore.cpp'], False, True, ['-Wl,--no-as-needed', '-lz'])   # crc32_calc is inline over zlib
        f2 = ex.submit(vlib.build_model, 'C18', 'C18_driver.ml', 'c18m')
        f3 = ex.submit(vlib.build_harness, 'C18_session', ['C18_session.cpp'])
        (exe, err), (mexe, err_m), (exe2, err2) = f1.result(), f2.result(), f3.result()
    if not exe:
        ctx.broke('harness build failed', err)
        return
    if not mexe:
        ctx.broke('model extraction/build failed', err_m)
    if not exe2:
        ctx.broke('end-to-end harness build failed', err2)
        return
    cases = ctx.replay_cases if ctx.replay_cases is not None else vlib.corpus_cases('C18') + gen_cases(ctx) + gen_e2e_cases(ctx)
    ecases = [c for c in cases if c.startswith('E ')]
    cases = [c for c in cases if not c.startswith('E ')]
    ctx.coverage['statement_hypotheses'] = ['s64_ok t', 'bytes_ok d', 'small d (< 2^31 bytes)', 'ps_ok ps (per-sector progress 0 or >= 16)',
                                            'old_ok F (absent/empty or >= 16 bytes; preserved by every history: C18_history_old_ok; dropped in C18_crash_safe_any_old)', '0 < now']
    ctx.coverage['rule'] = ('a case is a script on the real session_file_storage in a scratch directory: complete saves S, crashed saves K (the real '
                            'save runs with write() recorded, then sector s of the file is set to the state after p_s bytes of the recorded stream '
                            'on top of the earlier content), raw garbage P, load L at a given clock, gc G at a given clock, remove X, load under an address-space '
                            'limit M, save with write() calls cut short W, load with data read() calls cut short D / with all read() calls cut short H, gc with every read() cut short Y, gc with a forced rendezvous against a load+save of the same sid A, session_sid::valid_sid V / load Q, threads T, processes U; after every '
                            'operation the directory (length + CRC of every file) is reported. Exhaustive: payloads 0..6 bytes (0..11 thorough) x old state '
                            '{absent, shorter, equal, longer, garbage} x every byte progress x 3 clock positions x both deadline orders. Sampled '
                            '(seeded): 5 (18 thorough) multi-sector sizes around sector boundaries x 4 old shapes x (stream prefix x all sector subsets, and '
                            'independent per-sector progress); int64 deadline boundaries; garbage headers/lengths/names; gc directories; random '
                            'histories; session_sid::valid_sid on cookies around every clause and session_sid::load on crash states; threads saving and loading '
                            'one session concurrently; saves whose write() calls are cut short (interposed), compared call by call with the model; loads whose data read() calls are cut short; constructed CRC collisions; files shorter than their size field with the CRC of the zero-padded data; planted files whose '
                            'size field is 1-4 GiB or just around the number of bytes present (with and without trailing bytes), loaded with 256 MiB of address space to '
                            'spare and with every operator new of the load watched (a single request above max(file length, 4096) is a violation). Non-trivial = script contains a crashed save, a short write/read, a garbage file, a cookie test, concurrency or a gc; '
                            'distinct = distinct script lines. A second family (lines starting with E, no model, oracle only) drives the public API: '
                            'session_interface over a session_pool with file storage (session_interface::save/load -> session_sid -> '
                            'session_file_storage) with one cookie jar: saves W, crashed saves C (materialised from the recorded write() calls of the '
                            'real save as above, every byte progress for single-sector values), loads R at clocks around the deadlines, cookie loss N, unreadable garbage with a '
                            'huge size field planted over the session file J and loaded under an address-space limit B; '
                            'a load must return a complete key/value map that an earlier save wrote and whose deadline has not passed, or nothing.')
    ctx.coverage['exhaustive'] = False
    # tmpfs: the scripts create and unlink tens of thousands of small files (ext4 journalling makes that 50x slower)
    shm = '/dev/shm' if os.access('/dev/shm', os.W_OK) else ctx.workdir
    base = os.path.join(shm, 'C18-run-%d' % os.getpid())
    os.makedirs(base, exist_ok=True)
    try:
        if cases:
            # the extracted list functions recurse once per byte: values of 300 KiB need more than the default 8 MiB of stack
            mcmd = ['bash', '-c', 'ulimit -s 4194304 2>/dev/null || ulimit -s unlimited 2>/dev/null; exec "$0"', mexe] if mexe else None
            vlib.differential(ctx, cases, exe, mcmd, oracle, nontrivial, classify, impl_env={'C18_DIR': base})
        if ecases:
            # no model here: the oracle alone judges what the public session API returns
            vlib.differential(ctx, ecases, exe2, None, oracle, nontrivial, classify, impl_env={'C18_DIR': base},
                              what='end-to-end session API')
            ctx.coverage['samples'].append({'case': ecases[len(ecases) // 2][:300], 'impl': 'see rule (end-to-end script, oracle only)', 'model': None})
    finally:
        shutil.rmtree(base, ignore_errors=True)
    ctx.coverage['api_level_cases'] = len(ecases)
    ctx.coverage['crash_states'] = sum(c.count(' K:') for c in cases) + sum(c.count(' C:') for c in ecases)
