"""C18 -- a crash while saving a file-backed session never yields a corrupted session."""
import os, struct, zlib, shutil, itertools
import vlib
from vlib import hexs, unhex

META = dict(
    property_id='C18',
    design_ref='DESIGN.md section 4, C18',
    technique='Coq proof (crash-state model of the two write calls, per-sector write-back; CRC-32 bit model; invariant over histories) + '
              'extracted-model correspondence on the real session_file_storage with interposed write()/time()',
    level_text=('Theorems in coq/C18/Props.v over an executable model of session_file_storage (record layout, save_to_file/write_all, '
                'read_from_file/read_all incl. the int-typed byte counts, load+unlink, remove, gc/read_timestamp, CRC-32 bit by bit): for every old '
                'file (absent/empty or >= 16 bytes), every save (payload < 2^31 bytes), every crash state (each 512-byte sector independently holds '
                'the state after 0 or >= 16 bytes of the header+data stream; no truncation; holes read as zero) and every clock > 0, load returns '
                'nothing, the new value, what the old file gave, or an explicitly characterised CRC-32 collision (deadline, length and CRC of the '
                'header it is read under, every byte the old file byte / new payload byte / hole zero at its position, and not the value that '
                'header was written for); the unconditional statement is refuted by a concrete 6-byte witness (KNOWN FINDING '
                'torn-write-crc32-collision, replayed on the real storage on every run), while a torn state that differs from the new value only '
                'inside a window of <= 4 consecutive bytes is proved to be rejected (CRC-32 burst theorem, all lengths). The crash family of the '
                'property text (stream prefix x sector subset) is an instance; no progress = old file, full progress = the completed save. What load returns lies inside the file and has the '
                'length of the header. Without a crash save-then-load returns the value iff not expired, over any old file. By induction over '
                'every history of saves/crashed saves/removes/loads/gc: the file is empty, starts with a zero hole or with the header of an earlier '
                'save, so the crash theorem applies at every point and any value ever returned carries the deadline, length and CRC of some '
                'earlier save. gc keeps exactly the entries whose name is not 32 hex digits or whose timestamp is readable and not past, never '
                'removes a record that load would accept, never touches foreign names; load removes what it cannot read and nothing else. session_sid::valid_sid lets exactly I + 32 lower-case hex digits through '
                '(always a name gc looks at) and the second expiry test of session_sid::load is shown dead. The buffer that read_from_file '
                'allocates from the size field is never larger than a saved payload after any history of saves and crashes, but a planted '
                '19-byte file asks for gigabytes (KNOWN FINDING garbage-size-field-bad-alloc: std::bad_alloc escapes load, nothing removed). The '
                'bundled CRC table of private/crc32.h is regenerated from source and proved equal to the bit model, and the table-driven loop is '
                'proved equal to the bit-by-bit CRC; the zlib path, the write sequence and every other code path are tied by running the '
                'extracted model and the real storage on the same scripts.'),
    level_note=('Trusted: Coq kernel + vm_compute; ExtrOcamlBasic extraction; the hand model of the C++ control flow (tied by '
                'correspondence only, the only source-generated leaf is the CRC table); the crash model itself (sector = 512 bytes, header '
                'atomic, write-back of a sector shows a prefix of the write stream, unwritten bytes of an extended file read as zero, no '
                'reordering across fsync because there is none); harness materialises crash states from the recorded write() calls of the '
                'real save. Not covered: short writes/ENOSPC (write_all does not advance its buffer), fcntl locking across processes and the '
                'per-sid mutex (single-threaded scripts; both lock modes are executed), headers whose size field is >= 2^31 are modelled but '
                'never executed (2-4 GiB allocation), payloads >= 2^31 bytes, an old file of 1..15 bytes (cannot arise from saves or their '
                'crash states, proved), clock <= 0.'),
)

GEN = {
    'Gen_crc': dict(src=os.path.join(vlib.VERIF, 'harness', 'C18_crc_tu.cpp'), arrays=[('crcTable', 'g_crc_table')]),
}

V0 = '0123456789abcdef0123456789abcdef'
V1 = 'ABCDEF0123456789abcdefABCDEF0123'
V2 = 'ffffffffffffffffffffffffffffff00'
BADNAMES = ['0123456789abcdef0123456789abcde', '0123456789abcdef0123456789abcdef0', '0123456789abcdeg0123456789abcdef',
            '0123456789abcdef0123456789abcde.', 'x123456789abcdef0123456789abcdef', '0123456789abcdef-123456789abcdef']
I64MAX = 2 ** 63 - 1
I64MIN = -2 ** 63


def hdr(t, d, crc=None, size=None):
    return struct.pack('<qII', t, zlib.crc32(d) if crc is None else crc, len(d) if size is None else size)


def rb(rng, n, alpha=None):
    if alpha:
        return bytes(rng.choice(alpha) for _ in range(n))
    return bytes(rng.getrandbits(8) for _ in range(n))


# ---- CRC forcing: 4 bytes at position pos such that crc32(result) == target ----
_T = []
for _i in range(256):
    _c = _i
    for _k in range(8):
        _c = (_c >> 1) ^ 0xEDB88320 if _c & 1 else _c >> 1
    _T.append(_c)
_TOP = {(_T[i] >> 24): i for i in range(256)}


def force_crc(data, pos, target):
    """return data with bytes pos..pos+3 replaced such that zlib.crc32 == target"""
    data = bytearray(data)
    s = 0xFFFFFFFF
    for b in data[:pos]:
        s = (s >> 8) ^ _T[(s ^ b) & 0xFF]
    want = target ^ 0xFFFFFFFF
    for b in reversed(data[pos + 4:]):          # undo the suffix
        i = _TOP[want >> 24]
        want = ((want ^ _T[i]) << 8) & 0xFFFFFFFF | (i ^ b)
    # find 4 bytes taking s to want: undo 4 unknown bytes symbolically
    idx = []
    w = want
    for _ in range(4):
        i = _TOP[w >> 24]
        idx.append(i)
        w = ((w ^ _T[i]) << 8) & 0xFFFFFFFF
    idx.reverse()
    out = []
    for i in idx:
        b = (s ^ i) & 0xFF
        out.append(b)
        s = (s >> 8) ^ _T[i]
    data[pos:pos + 4] = bytes(out)
    assert zlib.crc32(bytes(data)) == target
    return bytes(data)


def garbage(rng, ln):
    """random bytes; the size field is kept small: the real code allocates `size` bytes before it looks at the file length, and a size
    field >= 2^31 (2-4 GiB allocation) is modelled but not executed"""
    raw = rb(rng, ln)
    if len(raw) >= 16:
        raw = raw[:12] + struct.pack('<I', rng.choice([0, 1, 2, ln - 16, max(0, ln - 17), ln - 15, 24, 2 ** 16, 2 ** 20 + 3])) + raw[16:]
    return raw


def case(ops, names=(V0,), flock=0):
    return 'F%d N=%s %s' % (flock, ','.join(names), ' '.join(ops))


def S(i, t, d):
    return 'S:%d:%d:%s' % (i, t, hexs(d))


def K(i, t, d, ps):
    return 'K:%d:%d:%s:%s' % (i, t, hexs(d), ','.join(str(p) for p in ps) if ps else '-')


def P(i, raw):
    return 'P:%d:%s' % (i, hexs(raw))


def L(i, now):
    return 'L:%d:%d' % (i, now)


def nsect(n):
    return (16 + n + 511) // 512


def gen_cases(ctx):
    rng = ctx.rng
    cases = []
    # the recorded finding: old "a\tC=\x97N", new "bHELLO", crash after header + 1 data byte
    cases.append(case([S(0, 5000, bytes.fromhex('6109433d974e')), K(0, 6000, b'bHELLO', [17]), L(0, 100)]))
    # G1: single sector, every byte progress, all old-state shapes, three clock positions, both deadline orders
    for n_new in range(0, ctx.scale(7, 12)):
        for shape in ('absent', 'shorter', 'equal', 'longer', 'garbage'):
            if shape == 'shorter' and n_new == 0:
                continue
            n_old = {'absent': 0, 'shorter': rng.randrange(0, max(1, n_new)), 'equal': n_new, 'longer': n_new + rng.randrange(1, 9),
                     'garbage': 0}[shape]
            alpha = rng.choice([None, b'ab', b'\x00\xff'])
            for (t_old, t_new) in ((2000, 3000), (3000, 2000)):
                for now in (1000, 2500, 3500):
                    d_old, d_new = rb(rng, n_old, alpha), rb(rng, n_new, alpha)
                    for p in [0] + list(range(16, 17 + n_new)):
                        ops = []
                        if shape == 'garbage':
                            ops.append(P(0, garbage(rng, rng.choice([16, 17, 20, 30, 40]))))
                        elif shape != 'absent':
                            ops.append(S(0, t_old, d_old))
                        ops += [K(0, t_new, d_new, [p]), L(0, now)]
                        cases.append(case(ops, flock=rng.randrange(2)))
    # G2: several sectors: (prefix of the stream) x (subset of sectors), and independent per-sector progress
    # (the bit-by-bit CRC of the extracted model costs about 2 us per byte: the quick tier keeps the multi-sector family small)
    sizes = [496, 497, 1008, 1520, 2600]
    if not ctx.quick():
        sizes += [480, 495, 498, 512, 1007, 1009, 1024, 1100, 1536, 2032, 2033, 2544, 3000]
    for n_new in sizes:
        k = nsect(n_new)
        total = 16 + n_new
        marks = sorted(set(x for x in [16, 17, 100, 511, 512, 513, 1023, 1024, 1025, 1536, 2048, 2560, total - 513, total - 1, total] if 16 <= x <= total))
        for shape in ('absent', 'shorter', 'equal', 'longer'):
            n_old = {'absent': 0, 'shorter': n_new // 2, 'equal': n_new, 'longer': n_new + 600}[shape]
            alpha = rng.choice([None, None, b'ab'])
            d_old, d_new = rb(rng, n_old, alpha), rb(rng, n_new, alpha)
            pre = [] if shape == 'absent' else [S(0, 2000, d_old)]
            combos = set()
            for p in rng.sample(marks, min(len(marks), ctx.scale(2, 6))):
                for mask in (range(1 << k) if k <= 4 or not ctx.quick() else rng.sample(range(1 << k), 16)):
                    combos.add((p, mask))
            for mask in rng.sample(range(1 << k), min(1 << k, ctx.scale(4, 16))):
                for p in marks:
                    combos.add((p, mask))
            for p, mask in sorted(combos):
                ps = [p if (mask >> s) & 1 else 0 for s in range(k)]
                cases.append(case(pre + [K(0, 3000, d_new, ps), L(0, rng.choice([1000, 1000, 2500, 3500]))], flock=rng.randrange(2)))
            for _ in range(ctx.scale(8, 60)):
                ps = [rng.choice([0, total, rng.randrange(16, total + 1), rng.choice(marks)]) for s in range(k + rng.randrange(0, 2))]
                cases.append(case(pre + [K(0, 3000, d_new, ps), L(0, rng.choice([1000, 2500]))], flock=rng.randrange(2)))
    # G3: deadline boundaries incl. the int64 range
    for t in [0, 1, -1, 1000, 2 ** 31 - 1, 2 ** 31, 2 ** 32 - 1, 2 ** 32, I64MAX, I64MAX - 1, I64MIN, I64MIN + 1, -2 ** 31]:
        for dn in (-1, 0, 1):
            now = t + dn
            if I64MIN <= now <= I64MAX:
                d = rb(rng, rng.randrange(0, 5))
                cases.append(case([S(0, t, d), L(0, now), L(0, now)]))
                cases.append(case([S(0, t, d), 'G:%d' % now, L(0, now)]))
    # G4: garbage files with well-formed names (and not), load and gc
    for _ in range(ctx.scale(1500, 12000)):
        ln = rng.choice([0, 1, 7, 8, 9, 11, 12, 15, 16, 17, 20, 24, 40])
        kind = rng.randrange(6)
        now = rng.choice([1000, 5000])
        t = rng.choice([999, 1000, 1001, 4999, 5000, 5001, 0, -1, I64MAX])
        if kind == 0:
            raw = garbage(rng, ln)
        else:
            d = rb(rng, rng.randrange(0, 12))
            size = rng.choice([len(d), len(d), len(d) + 1, max(0, len(d) - 1), 0, 2 ** 20, 2 ** 24 + 1])
            crc = rng.choice([None, None, 0, zlib.crc32(d) ^ 1, rng.getrandbits(32)])
            raw = hdr(t, d, crc, size) + d + rb(rng, rng.choice([0, 0, 3]))
            if kind == 1:
                raw = raw[:rng.randrange(0, len(raw) + 1)]
        nm = rng.choice([V0, V1, V2, V0, V1] + BADNAMES)
        if valid_name(nm):
            tail = rng.choice([[L(0, now)], ['G:%d' % now, L(0, now)], ['G:%d' % now, 'G:%d' % (now + 10000), L(0, now)], [L(0, now), 'G:%d' % now]])
        else:
            # the storage API is never called with a malformed name (session_sid::valid_sid filters them; sid_to_pos would read an
            # uninitialised lock index): such files are only seen by gc, which must leave them alone
            tail = rng.choice([['G:%d' % now], ['G:%d' % now, 'G:%d' % (now + 10000)]])
        cases.append(case([P(0, raw)] + tail, names=(nm,), flock=rng.randrange(2)))
    # G5: gc over a directory with live, expired, crashed and foreign files
    for _ in range(ctx.scale(400, 4000)):
        names = [V0, V1, V2] + rng.sample(BADNAMES, 2)
        ops = []
        for i in range(len(names)):
            r = rng.randrange(5)
            t = rng.choice([900, 999, 1000, 1001, 2000])
            d = rb(rng, rng.randrange(0, 20))
            if r == 0:
                continue
            elif not valid_name(names[i]):
                ops.append(P(i, hdr(t, d) + d if r < 4 else garbage(rng, rng.choice([0, 3, 8, 16, 30]))))
            elif r in (1, 2):
                ops.append(S(i, t, d))
            elif r == 3:
                ops += [S(i, t, d), K(i, rng.choice([900, 1000, 2000]), rb(rng, rng.randrange(0, 20)), [rng.choice([0, 16, 17, 20, 36])])]
            else:
                ops.append(P(i, garbage(rng, rng.choice([0, 3, 8, 16, 30]))))
        rng.shuffle(ops)
        ops.append('G:%d' % rng.choice([1000, 1000, 1500]))
        ops += [L(i, 1000) for i in range(len(names)) if valid_name(names[i])]
        cases.append(case(ops, names=names, flock=rng.randrange(2)))
    # G6: random histories over two sessions, small alphabets so that old and new payloads share bytes
    for _ in range(ctx.scale(2500, 30000)):
        names = [V0, V1]
        ops = []
        clock = 1000
        for _ in range(rng.randrange(3, 9)):
            r = rng.randrange(10)
            i = rng.randrange(2)
            d = rb(rng, rng.choice([0, 1, 2, 3, 5, 8, 13, 30]), rng.choice([None, b'ab', b'a']))
            t = clock + rng.choice([-1, 0, 1, 50, 500])
            if r < 3:
                ops.append(S(i, t, d))
            elif r < 6:
                total = 16 + len(d)
                ops.append(K(i, t, d, [rng.choice([0, 16, total, rng.randrange(16, total + 1)])]))
            elif r < 8:
                ops.append(L(i, clock))
            elif r < 9:
                ops.append('G:%d' % clock)
            else:
                ops.append('X:%d' % i)
            clock += rng.choice([0, 0, 1, 30])
        ops += [L(0, clock), L(1, clock)]
        cases.append(case(ops, names=names, flock=rng.randrange(2)))
    # G7: constructed CRC-32 collisions (torn states that carry the CRC of their header): the known finding class
    for _ in range(ctx.scale(40, 400)):
        n = rng.choice([5, 6, 8, 16, 40, 200, 600, 1100])
        d_new = rb(rng, n)
        kcut = rng.randrange(0, n - 3)                     # data bytes that reached the file
        old = bytearray(rb(rng, n))
        mix = force_crc(d_new[:kcut] + bytes(old[kcut:]), kcut, zlib.crc32(d_new))
        d_old = bytes(old[:kcut]) + mix[kcut:]
        if mix == d_new:
            continue
        k = nsect(n)
        cases.append(case([S(0, 2000, d_old), K(0, 3000, d_new, [16 + kcut] * k), L(0, 1000), L(0, 1000)]))
        # the reverse: the old header with data of the new payload (sector 0 kept, later sectors written) when n spans sectors
        if k >= 2 and kcut + 4 <= 496:
            # new payload differs from old only before byte 496 and collides with the old CRC there
            base = rb(rng, n)
            d_o = base
            d_n = force_crc(base[:kcut] + rb(rng, 4) + base[kcut + 4:], kcut, zlib.crc32(d_o))
            if d_n != d_o:
                cases.append(case([S(0, 2000, d_o), K(0, 3000, d_n, [16 + n] * k), L(0, 1000)]))  # complete: returns new, fine
    # G8: files shorter than their size field whose CRC is that of the zero-padded data (a reader that does not insist on getting
    # all `size` bytes would accept them), and files whose size field covers trailing bytes that are not there
    for _ in range(ctx.scale(150, 1500)):
        d = rb(rng, rng.choice([0, 1, 2, 5, 16, 100, 496, 600]))
        k = rng.choice([1, 1, 2, 3, 16, 500])
        t = rng.choice([5000, 5000, 1000, 999])
        raw = hdr(t, d + bytes(k), None, len(d) + k) + d + bytes(rng.choice([0, 0, k - 1]))
        cases.append(case([P(0, raw), L(0, 1000), L(0, 1000)], flock=rng.randrange(2)))
        cases.append(case([P(0, raw), 'G:1000', L(0, 1000)], flock=rng.randrange(2)))
    # G9: session_sid in front of the storage: valid_sid on cookies around every clause of its test, session_sid::load (Q) on crash
    # states and with cookies that differ from a stored name only in case / length / prefix
    good = b'I' + V0.encode()
    edge = [0x00, 0x2f, 0x30, 0x39, 0x3a, 0x40, 0x41, 0x46, 0x47, 0x60, 0x61, 0x66, 0x67, 0x7f, 0x80, 0xe1, 0xff]
    vs = [good, b'', b'I', good[:32], good + b'0', good[1:], b'i' + good[1:], b'J' + good[1:], b'H' + good[1:], good[:-1] + b'\0',
          b'I' + V1.encode(), b'I' + V2.encode(), good.upper(), b'I' + b'f' * 32, b'I' + b'F' * 32]
    for pos in (0, 1, 2, 16, 31, 32):
        for e in edge:
            vs.append(good[:pos] + bytes([e]) + good[pos + 1:])
    for _ in range(ctx.scale(200, 2000)):
        ln = rng.choice([31, 32, 33, 33, 33, 34])
        al = rng.choice([b'0123456789abcdef', b'0123456789abcdef' * 4 + b'ABCDEFg/:`@G', b'0123456789abcdefABCDEFg/:`@G'])
        vs.append(bytes([rng.choice([0x49, 0x49, 0x49, 0x69])]) + bytes(rng.choice(al) for _ in range(ln - 1)))
    for i in range(0, len(vs), 8):
        cases.append(case(['V:' + hexs(v) for v in vs[i:i + 8]]))
    for _ in range(ctx.scale(300, 3000)):
        nm = rng.choice([V0, V0, V2, V1])
        ck = b'I' + nm.encode()
        d_old, d_new = rb(rng, rng.choice([0, 1, 5, 20])), rb(rng, rng.choice([0, 1, 5, 20]))
        total = 16 + len(d_new)
        t_old, t_new = rng.choice([(2000, 3000), (3000, 2000)])
        ops = [S(0, t_old, d_old)] if rng.random() < 0.7 else []
        if rng.random() < 0.7:
            ops.append(K(0, t_new, d_new, [rng.choice([0, 16, total, rng.randrange(16, total + 1)])]))
        bad = rng.choice([ck.upper(), ck[:-1], ck + b'0', b'i' + ck[1:], ck[1:], ck[:5] + b'g' + ck[6:]])
        now = rng.choice([1000, 2000, 2001, 2500, 3000, 3001])
        ops += ['Q:%d:%s' % (now, hexs(rng.choice([ck, ck, bad]))), 'Q:%d:%s' % (now, hexs(ck)), L(0, now)]
        cases.append(case(ops, names=(nm,), flock=rng.randrange(2)))
    # G10b: the same with processes instead of threads (fcntl lock with inode re-check; F1 only)
    for _ in range(ctx.scale(8, 40)):
        cases.append(case(['U:0:%d:%d:%d:%d' % (rng.choice([5000, 9000]), rng.choice([1, 2, 3]), ctx.scale(300, 1500), rng.choice([1, 100, 480, 3000])), L(0, 100)],
                          flock=1))
    # G11: planted files whose size field is far larger than the file, loaded with 256 MiB of address space to spare: the buffer is allocated
    # from the size field before the file length is known (KNOWN FINDING garbage-size-field-bad-alloc when the allocation throws)
    for _ in range(ctx.scale(60, 400)):
        size = rng.choice([2 ** 30, 2 ** 30 + 5, 2 ** 31 - 16, 2 ** 31, 2 ** 32 - 1, 0, 3, 2 ** 20, 2 ** 24 + 1])
        t = rng.choice([5000, 5000, 1000, 999, I64MAX])
        tail = rb(rng, rng.choice([0, 3, 3, 40]))
        raw = struct.pack('<qII', t, rng.choice([0, zlib.crc32(tail), rng.getrandbits(32)]), size) + tail
        if rng.random() < 0.15:
            raw = raw[:rng.choice([8, 12, 15])]
        cases.append(case([P(0, raw), 'M:0:1000:256', 'G:1000', 'M:0:1000:256', 'G:%d' % rng.choice([1001, 6000])], flock=rng.randrange(2)))
    # and after real saves and crashes the size field never asks for more than a saved payload
    for _ in range(ctx.scale(40, 300)):
        d_old, d_new = rb(rng, rng.choice([0, 5, 600])), rb(rng, rng.choice([0, 5, 600]))
        total = 16 + len(d_new)
        cases.append(case([S(0, 2000, d_old), K(0, 3000, d_new, [rng.choice([0, 16, total, rng.randrange(16, total + 1)])]), 'M:0:1000:256', L(0, 1000)],
                          flock=rng.randrange(2)))
    # G10: threads on one session (per-sid mutex, with and without the fcntl lock): a load that runs while other threads save must see a
    # complete record, never a half-written one (which it would also unlink)
    for _ in range(ctx.scale(12, 60)):
        t = rng.choice([5000, 9000])
        pre = [S(0, 4000, rb(rng, rng.choice([0, 10, 3000])))] if rng.random() < 0.5 else []
        cases.append(case(pre + ['T:0:%d:%d:%d:%d' % (t, rng.choice([2, 4]), ctx.scale(300, 1500), rng.choice([1, 100, 480, 3000])), L(0, 100)],
                          flock=rng.randrange(2)))
    return cases


# ------------------------------------------------------------------------------------------------
# end-to-end cases: the public session API (session_interface -> session_sid -> session_file_storage), harness/C18_session.cpp
# ------------------------------------------------------------------------------------------------
TIMEOUT = 1000          # session.timeout of the end-to-end harness (expire=renew: deadline = time of the save + timeout)


def emap(m):
    return ';'.join('%s=%s' % (hexs(k), hexs(v)) for k, v in sorted(m.items())) if m else '-'


def esize(m):
    return sum(4 + len(k) + len(v) for k, v in m.items())


def gen_e2e_cases(ctx):
    rng = ctx.rng
    cases = []
    ctr = [0]

    def mk(nbytes=None):
        ctr[0] += 1
        m = {b'n': str(ctr[0]).encode()}
        for _ in range(rng.randrange(0, 3)):
            m[rng.choice([b'a', b'b', b'user', b'k' * 20])] = rb(rng, rng.choice([0, 1, 3, 10, 40]), rng.choice([None, b'ab']))
        if nbytes:
            m[b'blob'] = rb(rng, nbytes)
        return m
    # every byte progress of a single-sector save, old state absent / same length / shorter / longer, three clock positions
    for _ in range(ctx.scale(12, 60)):
        new = mk()
        total = 16 + esize(new)
        for shape in ('absent', 'rewrite'):
            old = mk()
            for p in [0] + list(range(16, total + 1)):
                for (t_r) in (1150, 2000 + rng.choice([0, 100]), 2101):
                    ops = (['W:1000:' + emap(old)] if shape == 'rewrite' else []) + ['C:1100:%s:%d' % (emap(new), p), 'R:%d' % t_r]
                    if rng.random() < 0.3:
                        ops.append('R:%d' % t_r)
                    cases.append('E ' + ' '.join(ops))
    # multi-sector values
    for _ in range(ctx.scale(60, 600)):
        new, old = mk(rng.choice([480, 600, 1100, 1500])), mk(rng.choice([100, 600, 1300, 2000]))
        total = 16 + esize(new)
        k = (total + 511) // 512
        ps = [rng.choice([0, total, rng.randrange(16, total + 1)]) for _ in range(k)]
        ops = (['W:1000:' + emap(old)] if rng.random() < 0.8 else []) + ['C:1100:%s:%s' % (emap(new), ','.join(map(str, ps))), 'R:1200']
        cases.append('E ' + ' '.join(ops))
    # histories
    for _ in range(ctx.scale(500, 6000)):
        clock = 1000
        ops = []
        for _ in range(rng.randrange(2, 9)):
            r = rng.randrange(10)
            m = mk()
            if r < 3:
                ops.append('W:%d:%s' % (clock, emap(m)))
            elif r < 6:
                total = 16 + esize(m)
                ops.append('C:%d:%s:%d' % (clock, emap(m), rng.choice([0, 16, 17, total - 1, total, rng.randrange(16, total + 1)])))
            elif r < 9:
                ops.append('R:%d' % clock)
            else:
                ops.append('N')
            clock += rng.choice([0, 1, 10, 500, 999, 1000, 1001])
        ops.append('R:%d' % clock)
        cases.append('E ' + ' '.join(ops))
    return cases


def oracle_e2e(case_line, out):
    """the property on the answers of the public API: a load returns a complete map that was saved (and is not past its deadline) or nothing"""
    if out.startswith('<crash') or out.startswith('<missing'):
        return ('crash', 'end-to-end harness died on this script: ' + out[:300])
    ops = case_line.split()[1:]
    o = out.split(' ')
    if len(o) != len(ops):
        return ('bad-output', 'harness answered %d tokens for %d operations: %s' % (len(o), len(ops), out[:200]))
    adm, must, forgot = {}, None, False
    for tok_in, tok_out in zip(ops, o):
        if 'EXC(' in tok_out:
            return ('exception', 'operation %s threw: %s' % (tok_in[:60], tok_out[:100]))
        if tok_out.startswith('BAD-OP') or '{files=' not in tok_out:
            return ('bad-output', 'unexpected answer %s to %s' % (tok_out[:80], tok_in[:60]))
        res, files = tok_out[:tok_out.index('{')], int(tok_out[tok_out.index('=', tok_out.index('{')) + 1:-1])
        a = tok_in.split(':')
        if a[0] == 'W':
            now = int(a[1])
            if a[2] == '-':
                adm, must = {}, None
            else:
                adm, must = {a[2]: now + TIMEOUT}, a[2]
                if res != 'W[2]' and res != 'W[1]':
                    return ('save-wrote-nothing', 'a changed session was saved with %s write calls' % res)
        elif a[0] == 'C':
            now = int(a[1])
            if a[2] != '-':
                adm = dict(adm)
                adm[a[2]] = now + TIMEOUT
            must = None
        elif a[0] == 'N':
            adm, must, forgot = {}, None, True
        elif a[0] == 'R':
            now = int(a[1])
            if res == 'R=none':
                if must is not None and now <= adm[must]:
                    return ('live-session-lost', 'session API reported no session although an intact unexpired one (deadline %d) was stored' % adm[must])
                if files != 0 and not forgot:
                    return ('unreadable-file-not-removed', 'load reported no session but left %d file(s) in place' % files)
                adm, must = {}, None
            else:
                got = res[2:]
                if got not in adm:
                    return ('load-returned-unsaved-value', 'session API returned the content %s, which no earlier save wrote' % got[:200])
                if adm[got] < now:
                    return ('expired-session-returned', 'session API returned a session whose deadline %d is before now %d' % (adm[got], now))
                if must is not None and got != must and now <= adm[must]:
                    return ('load-returned-unsaved-value', 'intact session stored but another content was returned: ' + got[:200])
                adm, must = {got: adm[got]}, got
        else:
            return ('bad-output', 'unknown op')
    return None


# ------------------------------------------------------------------------------------------------
# property oracle: evaluated on the implementation's answers only (reference record reader: struct + zlib)
# ------------------------------------------------------------------------------------------------
def parse_record(raw):
    if len(raw) < 16:
        return None
    t, crc, size = struct.unpack('<qII', raw[:16])
    if size > len(raw) - 16:
        return None
    d = raw[16:16 + size]
    if zlib.crc32(d) != crc:
        return None
    return (t, d)


def valid_name(n):
    return len(n) == 32 and all(c in '0123456789abcdefABCDEF' for c in n)


def parse_summary(tok):
    i = tok.index('{')
    body = tok[i + 1:tok.rindex('}')]
    m = {}
    if body:
        for part in body.split(','):
            k, v = part.split('=')
            m[int(k)] = v
    return tok[:i], m


def oracle(case_line, out):
    if case_line.startswith('E '):
        return oracle_e2e(case_line, out)
    if out.startswith('<crash') or out.startswith('<missing'):
        return ('crash', 'harness died on this script: ' + out[:300])
    c = case_line.split()
    names = c[1][2:].split(',')
    ops = c[2:]
    o = out.split(' ')
    if len(o) != len(ops):
        return ('bad-output', 'harness answered %d tokens for %d operations: %s' % (len(o), len(ops), out[:200]))
    n = len(names)
    adm = [set() for _ in range(n)]      # values load may return
    must = [None] * n                    # value load must return while its deadline has not passed (file state fully known)
    cands = [[] for _ in range(n)]       # saves whose header may be in the file
    dead = [None] * n                    # known first-8-bytes state: ('t', deadline) | ('short',) | None unknown
    known_absent = [True] * n
    prev = {}
    for tok_in, tok_out in zip(ops, o):
        if 'EXC(' in tok_out:
            return ('exception', 'operation %s threw: %s' % (tok_in[:60], tok_out[:100]))
        if tok_out.startswith('BAD-OP') or '{' not in tok_out:
            return ('bad-output', 'unexpected answer %s to %s' % (tok_out[:80], tok_in[:60]))
        res, summ = parse_summary(tok_out)
        a = tok_in.split(':')
        op = a[0]
        if op in ('V', 'Q'):
            ck = unhex(a[-1])
            ok = len(ck) == 33 and ck[0] == 0x49 and all(ch in b'0123456789abcdef' for ch in ck[1:])
            if op == 'V':
                want = 'V=' + hexs(ck[1:]) if ok else 'V=none'
                if res != want:
                    return ('valid-sid-wrong', 'valid_sid answered %s for the cookie %s (expected %s)' % (res[:80], ck[:40], want[:80]))
            hit = [i for i in range(n) if ok and names[i].encode() == ck[1:]]
            if op == 'Q' and hit:
                # a well-formed cookie naming file i: judged exactly like a load of that file
                op, a, res = 'L', ['L', str(hit[0]), a[1]], 'L' + res[1:]
            else:
                if op == 'Q' and res != 'Q=none':
                    return ('session-from-invalid-cookie', 'session_sid::load returned a session for the cookie %s' % ck[:40])
                if prev != summ:
                    return ('invalid-cookie-touched-storage', 'an operation with a cookie that names no stored session changed the directory')
                continue
        if op == 'M':
            if res == 'M=EXC':
                i = int(a[1])
                return ('garbage-size-field-bad-alloc',
                        'load threw std::bad_alloc (and removed nothing) with %s MiB of address space to spare: read_from_file allocates the buffer from '
                        'the size field before it knows the file length' % a[3])
            op, a, res = 'L', ['L', a[1], a[2]], 'L' + res[1:]
        if op == 'U':
            op, res = 'T', 'T' + res[1:]
        if op == 'T':
            if res != 'T=ok':
                return ('concurrent-access-corruption', 'loads running concurrently with saves of the same session failed or returned a value '
                        'that no thread wrote: ' + res[:80])
            a = ['S', a[1], a[2], hexs(b'final')]
            op = 'S'
        if op in ('S', 'K'):
            i, t, d = int(a[1]), int(a[2]), unhex(a[3])
            if op == 'S':
                adm[i], must[i], cands[i], dead[i] = {(t, d)}, (t, d), [(t, d)], ('t', t)
                if i not in summ:
                    return ('save-left-no-file', 'no file after a completed save')
            else:
                adm[i] = set(adm[i]) | {(t, d)}
                must[i], dead[i] = None, None
                cands[i] = cands[i] + [(t, d)]
            known_absent[i] = False
        elif op == 'P':
            i, raw = int(a[1]), unhex(a[2])
            rec = parse_record(raw)
            adm[i] = {rec} if rec else set()
            must[i] = rec
            cands[i] = [rec] if rec else []
            dead[i] = ('t', struct.unpack('<q', raw[:8])[0]) if len(raw) >= 8 else ('short',)
            known_absent[i] = False
        elif op == 'X':
            i = int(a[1])
            if i in summ:
                return ('remove-left-file', 'file still present after remove')
            adm[i], must[i], cands[i], dead[i], known_absent[i] = set(), None, [], None, True
        elif op == 'L':
            i, now = int(a[1]), int(a[2])
            if res == 'L=none':
                if i in summ:
                    return ('unreadable-file-not-removed', 'load reported no session but left the file in place')
                if now > 0 and must[i] is not None and must[i][0] >= now:
                    return ('live-session-lost', 'load reported no session although an intact unexpired record (deadline %d, %d bytes) was there'
                            % (must[i][0], len(must[i][1])))
                adm[i], must[i], cands[i], dead[i], known_absent[i] = set(), None, [], None, True
            else:
                ts, hx_ = res[2:].split('.')
                got = (int(ts), unhex(hx_))
                if i not in summ:
                    return ('load-removed-live-file', 'load succeeded but the file is gone')
                if now > 0:
                    if got[0] < now:
                        return ('expired-session-returned', 'load returned a session whose deadline %d is before now %d' % (got[0], now))
                    if must[i] is not None and got != must[i] and must[i][0] >= now:
                        return ('load-returned-unsaved-value', 'intact record (deadline %d, %d bytes) but load returned deadline %d, %d bytes'
                                % (must[i][0], len(must[i][1]), got[0], len(got[1])))
                    if got not in adm[i]:
                        coll = [x for x in cands[i] if x[0] == got[0] and len(x[1]) == len(got[1])
                                and zlib.crc32(x[1]) == zlib.crc32(got[1]) and x[1] != got[1]]
                        if coll:
                            return ('torn-write-crc32-collision',
                                    'after a torn save load returned %d bytes that carry the deadline, length and CRC-32 of the header of a '
                                    'saved value but are not that value (mixture of old and new bytes): got %s, header belongs to %s'
                                    % (len(got[1]), got[1][:32].hex(), coll[0][1][:32].hex()))
                        return ('load-returned-unsaved-value', 'load returned deadline %d data %s (%d bytes), which no earlier save wrote'
                                % (got[0], got[1][:32].hex(), len(got[1])))
                adm[i], must[i] = {got}, got
        elif op == 'G':
            now = int(a[1])
            for i in range(n):
                if not valid_name(names[i]):
                    if prev.get(i) != summ.get(i):
                        return ('gc-touched-foreign-file', 'gc changed a file whose name is not 32 hex digits: ' + names[i])
                    continue
                if known_absent[i]:
                    continue
                live = (must[i] is not None and must[i][0] >= now) or (dead[i] is not None and dead[i][0] == 't' and dead[i][1] >= now)
                gone = dead[i] is not None and (dead[i][0] == 'short' or dead[i][1] < now)
                if live and i not in summ:
                    return ('gc-removed-live-session', 'gc at %d removed a file whose deadline %s has not passed' % (now, dead[i]))
                if gone and i in summ:
                    return ('gc-kept-dead-file', 'gc at %d kept a file whose timestamp is unreadable or past (%s)' % (now, dead[i]))
                if i not in summ:
                    adm[i], must[i], cands[i], dead[i], known_absent[i] = set(), None, [], None, True
        else:
            return ('bad-output', 'unknown op')
        # no operation may touch another file
        for j in range(n):
            if op in ('S', 'K', 'P', 'X', 'L') and j != int(a[1]) and prev.get(j) != summ.get(j):
                return ('foreign-file-changed', 'operation %s changed file %d' % (tok_in[:40], j))
        prev = summ
    return None


def nontrivial(case_line, out):
    if case_line.startswith('E '):
        return ' C:' in case_line
    return ' K:' in case_line or ' P:' in case_line or ' G:' in case_line or ' V:' in case_line or ' Q:' in case_line or ' T:' in case_line or ' U:' in case_line or ' M:' in case_line


def classify(case_line, out):
    if case_line.startswith('E '):
        last = [x for x in out.split(' ') if x.startswith('R=')]
        return 'api:' + ('crash' if ' C:' in case_line else 'save-load') + (':none' if last and last[-1].startswith('R=none') else ':some' if last else '')
    ops = case_line.split()[2:]
    kinds = set(x[0] for x in ops)
    k = 'cookie' if kinds == {'V'} else 'threads' if 'T' in kinds else 'processes' if 'U' in kinds else 'crash' if 'K' in kinds else 'garbage' if 'P' in kinds else 'gc' if 'G' in kinds else 'save-load'
    if k == 'crash':
        ks = [x for x in ops if x[0] == 'K']
        ns = len(ks[-1].split(':')[4].split(','))
        k += ':1-sector' if ns <= 1 else ':%d-sectors' % ns if ns <= 3 else ':4+sectors'
    last = [x for x in out.split(' ') if x.startswith('L=')]
    if 'Q' in kinds:
        k += ':sid'
    return k + (':none' if last and last[-1].startswith('L=none') else ':some' if last else '')


def run(ctx):
    errs = vlib.gen_coq(GEN)
    for n, e in errs:
        ctx.broke('translator cxx2v failed on %s (tie to source broken)' % n, e)
    res = vlib.coq_props('C18')
    ctx.proof(res)
    ctx.coverage['trusted_base'] = [
        'Coq 8.16.1 kernel, vm_compute (collision witness, examples, 256-entry CRC table sweep); no native_compute',
        'tools/cxx2v.py + clang JSON AST (CRC table of private/crc32.h, via harness/C18_crc_tu.cpp)',
        'extraction: ExtrOcamlBasic only, OCaml 4.13.1',
        'harness/C18_session.cpp (same interposition and materialisation, public session API, judged by the oracle only)',
        'harness/C18_filestore.cpp (interposed write()/time(), crash-state materialisation from the recorded writes, own bitwise CRC for '
        'file summaries), ocaml/C18_driver.ml, checks/C18.py (generators; oracle with Python struct/zlib as reference reader)',
        'hand model of session_posix_file_storage.cpp control flow (coq/C18/Defs.v), tied by correspondence',
        'crash model: 512-byte sectors reach the disk independently, each showing a prefix of the header+data stream; 16-byte header atomic; '
        'unwritten bytes of an extended file read as zero; no truncation']
    ctx.assumptions = ['clock > 0 at load time (an all-zero hole is a valid empty record with deadline 0 otherwise)',
                       'payload shorter than 2^31 bytes; deadlines fit int64; bytes < 256',
                       'old file empty/absent or at least 16 bytes (a 1..15-byte old file extended by the crash could complete a header with zeros)',
                       'little-endian target with the 16-byte struct {int64,uint32,uint32} unpadded (x86-64)',
                       'every write() of a regular file is complete (no short writes)']
    exe, err = vlib.build_harness('C18_filestore', ['C18_filestore.cpp'])
    if not exe:
        ctx.broke('harness build failed', err)
        return
    mexe, err = vlib.build_model('C18', 'C18_driver.ml', 'c18m')
    if not mexe:
        ctx.broke('model extraction/build failed', err)
    exe2, err = vlib.build_harness('C18_session', ['C18_session.cpp'])
    if not exe2:
        ctx.broke('end-to-end harness build failed', err)
        return
    cases = ctx.replay_cases if ctx.replay_cases is not None else vlib.corpus_cases('C18') + gen_cases(ctx) + gen_e2e_cases(ctx)
    ecases = [c for c in cases if c.startswith('E ')]
    cases = [c for c in cases if not c.startswith('E ')]
    ctx.coverage['statement_hypotheses'] = ['s64_ok t', 'bytes_ok d', 'small d (< 2^31 bytes)', 'ps_ok ps (per-sector progress 0 or >= 16)',
                                            'old_ok F (absent/empty or >= 16 bytes; preserved by every history: C18_history_old_ok)', '0 < now']
    ctx.coverage['rule'] = ('a case is a script on the real session_file_storage in a scratch directory: complete saves S, crashed saves K (the real '
                            'save runs with write() recorded, then sector s of the file is set to the state after p_s bytes of the recorded stream '
                            'on top of the earlier content), raw garbage P, load L at a given clock, gc G at a given clock, remove X; after every '
                            'operation the directory (length + CRC of every file) is reported. Exhaustive: payloads 0..6 bytes (0..11 thorough) x old state '
                            '{absent, shorter, equal, longer, garbage} x every byte progress x 3 clock positions x both deadline orders. Sampled '
                            '(seeded): 5 (18 thorough) multi-sector sizes around sector boundaries x 4 old shapes x (stream prefix x all sector subsets, and '
                            'independent per-sector progress); int64 deadline boundaries; garbage headers/lengths/names; gc directories; random '
                            'histories; session_sid::valid_sid on cookies around every clause and session_sid::load on crash states; threads saving and loading '
                            'one session concurrently; constructed CRC collisions; files shorter than their size field with the CRC of the zero-padded data. Non-trivial = script contains a crashed save, a garbage file or a gc; '
                            'distinct = distinct script lines. A second family (lines starting with E, no model, oracle only) drives the public API: '
                            'session_interface over a session_pool with file storage (session_interface::save/load -> session_sid -> '
                            'session_file_storage) with one cookie jar: saves W, crashed saves C (materialised from the recorded write() calls of the '
                            'real save as above, every byte progress for single-sector values), loads R at clocks around the deadlines, cookie loss N; '
                            'a load must return a complete key/value map that an earlier save wrote and whose deadline has not passed, or nothing.')
    ctx.coverage['exhaustive'] = False
    # tmpfs: the scripts create and unlink tens of thousands of small files (ext4 journalling makes that 50x slower)
    shm = '/dev/shm' if os.access('/dev/shm', os.W_OK) else ctx.workdir
    base = os.path.join(shm, 'C18-run-%d' % os.getpid())
    os.makedirs(base, exist_ok=True)
    try:
        if cases:
            vlib.differential(ctx, cases, exe, mexe, oracle, nontrivial, classify, impl_env={'C18_DIR': base})
        if ecases:
            # no model here: the oracle alone judges what the public session API returns
            vlib.differential(ctx, ecases, exe2, None, oracle, nontrivial, classify, impl_env={'C18_DIR': base},
                              what='end-to-end session API')
            ctx.coverage['samples'].append({'case': ecases[len(ecases) // 2][:300], 'impl': 'see rule (end-to-end script, oracle only)', 'model': None})
    finally:
        shutil.rmtree(base, ignore_errors=True)
    ctx.coverage['api_level_cases'] = len(ecases)
    ctx.coverage['crash_states'] = sum(c.count(' K:') for c in cases) + sum(c.count(' C:') for c in ecases)
