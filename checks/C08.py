"""C08 -- the cache stays within its limit; evicts expired, then least-recently-used."""
import itertools
import vlib

META = dict(
    property_id='C08',
    design_ref='DESIGN.md section 4, C08',
    technique='Coq proof (limit / victim-rule / statistics invariants over the line-by-line model of mem_cache shared with C07; '
              'Tiling / NoFreeBuddies invariants of a model of buddy_allocator) + extracted-model correspondence on cache operation '
              'sequences (with the real private recency list and timeout index read out) and on malloc/free sequences of the real '
              'allocator + history-based property oracle on the real caches + fill/empty cycles with used-memory accounting',
    level_text=('Theorems in coq/C08/Props.v. Cache (model C07.Defs of src/cache_storage.cpp: delete_node, fetch, store, rise, remove, clear, '
                'check_limits): for ALL histories (any operations, clock schedule, allocation faults, memory-pressure answers) a cache with '
                'limit n>0 never holds more than n entries and never reports more than n keys; check_limits is the loop '
                '`while must_evict: delete first_victim`, a victim always exists, it removes exactly max(0,size-limit+1) entries when memory '
                'is not short and nothing when there is room; in every reachable state the victim is an entry with the smallest deadline if '
                'that deadline has passed, otherwise the entry whose last store-or-hit is older than that of every other entry (stated against '
                'operation numbers of the history); stats() always equals (number of entries, sum of trigger-set sizes) and the whole answer '
                'sequence equals that of the abstract LRU specification. Buddy allocator (model C08.Defs of private/buddy_allocator.h: '
                'constructor, malloc, page_alloc, free, free_page, get_buddy): see docs/C08.md for the list of invariants proved. '
                'Tie: the extracted model and the real code (src/cache_storage.cpp compiled into the harness, thread_shared and process_shared '
                '512 KiB..4 MiB, interposed time()) run the same operation sequences - limits 1..8 with key alphabets larger than the limit, '
                'exhaustive short sequences, long random ones - and must agree on every fetch result, stats(), the private recency list after '
                'every operation and the timeout index; the extracted allocator model and the real buddy_allocator run the same malloc/free '
                'sequences and must agree on every returned offset, total_free_memory, max_free_chunk, the free lists and the page headers.'),
    level_note=('Trusted: Coq kernel; ExtrOcamlBasic extraction; the hand-written models (no function of the anchored code is in the loop-free '
                'integer fragment cxx2v translates - the allocator constants are compared at run time instead); hash_map modelled as a finite '
                'map; std::multimap/list/set semantics; locks not modelled (C09); allocation failures / not_enough_memory() of the shared-memory '
                'variant are oracle arguments of the model (covered by the theorems; exercised on the real code by the pressure sequences and '
                'fill/empty cycles, which are judged by the property oracle only); shmem_allocator mutex and mmap are not modelled.'),
)

GEN = {}

T0 = 1000
INFTY = 0x7FFFFFFFFFFFFFFF - 3600 * 24
SELF = 544          # sizeof(buddy_allocator), compared with the real value on every run


# --------------------------------------------------------------------------------------------
# token helpers (syntax of harness/C08_cache.cpp)
# --------------------------------------------------------------------------------------------
def hx(b):
    return b.hex() if b else '-'


def trig_tok(ts):
    ts = list(ts)
    return '+'.join(hx(t) for t in ts) if ts else '.'


def S(k, v, ts, d, g=None):
    vt = v if isinstance(v, str) else hx(v)
    return 'S:%s:%s:%s:%d:%s' % (hx(k), vt, trig_tok(ts), d, '-' if g is None else str(g))


def F(k):
    return 'F:' + hx(k)


def R(t):
    return 'R:' + hx(t)


def D(k):
    return 'D:' + hx(k)


def T(n):
    return 'T:%d' % n


_valcache = {}


def value_bytes(tok):
    if tok.startswith('#'):
        ln, pre = tok[1:].split('x')
        b = b'' if pre == '-' else bytes.fromhex(pre)
        return b + b'v' * (int(ln) - len(b))
    return b'' if tok == '-' else bytes.fromhex(tok)


def valtok_of(tok):
    """the token the harness prints for the value written as `tok` in the case"""
    r = _valcache.get(tok)
    if r is None:
        if tok.startswith('#'):
            ln, pre = tok[1:].split('x')
            ln = int(ln)
            b = b'' if pre == '-' else bytes.fromhex(pre)
            ln = max(ln, len(b))
            head = (b + b'v' * 32)[:32] if ln >= 32 else b + b'v' * (ln - len(b))
            odd = sum(1 for c in b[32:] if c != 118)
        else:
            b = b'' if tok == '-' else bytes.fromhex(tok)
            ln, head, odd = len(b), b[:32], sum(1 for c in b[32:] if c != 118)
        if ln <= 32:
            r = hx(head)
        else:
            h = 0xcbf29ce484222325
            for c in head:
                h = ((h ^ c) * 0x100000001b3) & 0xFFFFFFFFFFFFFFFF
            r = '#%d.%016x.%d' % (ln, h, odd)
        if len(_valcache) < 200000:
            _valcache[tok] = r
    return r


# --------------------------------------------------------------------------------------------
# the property as a history interpreter (written from the property text, not from the code):
# every entry remembers the number of the operation that last stored or hit it; when room must be made the entry
# with the smallest passed deadline goes (earliest stored first among equals), else the one with the oldest use.
# --------------------------------------------------------------------------------------------
class Hist:
    __slots__ = ('limit', 'e', 'gen', 'gen_known')

    def __init__(self, limit):
        self.limit = limit
        self.e = {}              # key -> [valtok, trigger tuple (sorted), deadline, generation|None, use stamp, store stamp]
        self.gen = 0
        self.gen_known = True

    def copy(self):
        h = Hist(self.limit)
        h.e = {k: list(v) for k, v in self.e.items()}
        h.gen = self.gen
        h.gen_known = self.gen_known
        return h

    def victim(self, now):
        exp = [(v[2], v[5], k) for k, v in self.e.items() if v[2] < now]
        if exp:
            return min(exp)[2]
        return min((v[4], k) for k, v in self.e.items())[1]

    def stats(self):
        return len(self.e), sum(len(v[1]) for v in self.e.values())

    def lru(self):
        return [k for _, k in sorted(((-v[4], k) for k, v in self.e.items()))]

    def timeouts(self):
        return [(v[2], k) for _, _, k, v in sorted((v[2], v[5], k, v) for k, v in self.e.items())]

    def key(self):
        return (tuple(sorted((k, tuple(v[:3]), v[4], v[5]) for k, v in self.e.items())), self.gen if self.gen_known else -1)

    def insert(self, k, vt, ts, d, g, stamp):
        if g is None:
            g = self.gen if self.gen_known else None
            self.gen += 1
        self.e[k] = [vt, tuple(sorted(set(ts) | {k})), d, g, stamp, stamp]

    def rise(self, t):
        for k in [k for k, v in self.e.items() if t in v[1]]:
            del self.e[k]


def store_successors(h, now, stamp, k, vt, ts, d, g, pressure):
    """states the property allows after store(k): exactly one without memory pressure"""
    base = h.copy()
    base.e.pop(k, None)
    n1 = len(base.e)
    jmin = max(0, n1 - h.limit + 1) if h.limit > 0 else 0
    out = []
    js = range(jmin, n1 + 1) if pressure else [jmin]
    cur = base.copy()
    evicted = 0
    for j in js:
        while evicted < j:
            del cur.e[cur.victim(now)]
            evicted += 1
        c = cur.copy()
        c.insert(k, vt, ts, d, g, stamp)
        out.append(c)
    if pressure:
        a = h.copy()                                   # value copy failed: nothing happened
        b = base.copy()                                # dropped after the old entry was deleted
        c = Hist(h.limit); c.gen = h.gen; c.gen_known = False   # bad_alloc inside: everything cleared, counter may have moved
        out += [a, b, c]
    return out


def parse_case(case):
    c = case.split()
    return c[0], c[1], int(c[2]), int(c[3]), c[4:]


def oracle_seq(case, out):
    mode, backend, limit, t0, ops = parse_case(case)
    if out.startswith('<') or 'exception' in out or '<crash' in out:
        return ('cache-crash', 'harness/child died or threw: ' + out[:300])
    toks = out.split(' ') if out else []
    if len(toks) != len(ops) + 1 or not toks[-1].startswith('X:'):
        return ('bad-output', 'answer has %d tokens for %d ops: %s' % (len(toks), len(ops), out[:200]))
    pressure = backend.startswith('P')
    now = t0
    states = [Hist(limit)]
    for i, (o, a) in enumerate(zip(ops, toks)):
        f = o.split(':')
        af = a.split(':')
        tag = f[0]
        try:
            ks, tsn = [int(x) for x in af[-2].split('/')]
        except (ValueError, IndexError):
            return ('bad-output', 'no stats in token ' + a[:100])
        lru_obs = [] if af[-1] == '.' else af[-1].split(',')
        where = 'op %d (%s) answered %s' % (i, o[:80], a[:200])
        if limit > 0 and (ks > limit or len(lru_obs) > limit):
            return ('limit-exceeded', 'the cache holds %d entries (recency list %d) with limit %d after %s' % (ks, len(lru_obs), limit, where))
        succ = []
        for h in states:
            if tag == 'S':
                ts = [] if f[3] == '.' else f[3].split('+')
                g = None if f[5] == '-' else int(f[5])
                if pressure:
                    succ += store_successors(h, now, i, f[1], valtok_of(f[2]), ts, int(f[4]), g, True)
                else:
                    # the one state the rule allows (in place: there is a single candidate)
                    h.e.pop(f[1], None)
                    if h.limit > 0:
                        while len(h.e) >= h.limit:
                            del h.e[h.victim(now)]
                    h.insert(f[1], valtok_of(f[2]), ts, int(f[4]), g, i)
                    succ.append(h)
            elif tag == 'F':
                c = h.copy() if pressure else h
                e = c.e.get(f[1])
                if e is not None and e[2] >= now:
                    e[4] = i
                succ.append(c)
            elif tag == 'R':
                c = h.copy() if pressure else h
                c.rise(f[1]); succ.append(c)
            elif tag == 'D':
                c = h.copy() if pressure else h
                c.e.pop(f[1], None); succ.append(c)
            elif tag == 'C':
                c = h.copy() if pressure else h
                c.e = {}; succ.append(c)
            elif tag == 'T':
                succ.append(h)
            else:
                return ('bad-output', 'unknown op ' + o[:40])
        if tag == 'T':
            now = int(f[1])
        ok = []
        seen = set()
        first_reason = None
        for c in succ:
            reason = None
            exp_stats = c.stats()
            exp_lru = c.lru()
            if tag == 'F':
                # the answer itself: judged against the state BEFORE the use stamp moved (same entry)
                e = c.e.get(f[1])
                hit = e is not None and e[2] >= now
                if af[0] == 'h':
                    if len(af) != 7:
                        return ('bad-output', 'malformed hit token ' + a[:200])
                    if e is None:
                        reason = ('hit-of-absent-entry', 'fetch hit for a key the history says is not held (never stored, removed, cleared, '
                                  'invalidated, or evicted under the rule): ' + where)
                    elif not hit:
                        reason = ('hit-after-deadline', 'fetch hit although the deadline %d is before now=%d: %s' % (e[2], now, where))
                    elif af[1] != e[0]:
                        reason = ('hit-wrong-value', 'hit returned a value that is not the one of the latest store: ' + where)
                    elif af[2] != '+'.join(e[1]):
                        reason = ('hit-wrong-triggers', 'hit returned trigger set %s, latest store has %s: %s' % (af[2], '+'.join(e[1]), where))
                    elif int(af[3]) != e[2]:
                        reason = ('hit-wrong-deadline', 'hit returned deadline %s, latest store has %d: %s' % (af[3], e[2], where))
                    elif e[3] is not None and int(af[4]) != e[3]:
                        reason = ('hit-wrong-generation', 'hit returned generation %s, latest store has %d: %s' % (af[4], e[3], where))
                elif af[0] == 'm':
                    if hit:
                        reason = ('miss-of-held-entry', 'fetch missed a live entry that must still be held under the eviction rule '
                                  '(a different entry should have been the victim): ' + where)
                else:
                    return ('bad-output', 'unexpected token %s for fetch' % a[:100])
            if reason is None and (ks, tsn) != exp_stats:
                reason = ('stats-wrong', 'stats after %s are %d/%d, the history implies %d/%d under the rule' % (where, ks, tsn, exp_stats[0], exp_stats[1]))
            if reason is None and sorted(lru_obs) != sorted(exp_lru):
                gone = sorted(set(exp_lru) - set(lru_obs))
                kept = sorted(set(lru_obs) - set(exp_lru))
                reason = ('wrong-victim', 'after %s the cache holds %s but the rule (expired with earliest deadline first, else least recently '
                          'stored-or-hit) keeps %s: it dropped %s and kept %s' % (where, ','.join(lru_obs) or '.', ','.join(exp_lru) or '.',
                                                                                   ','.join(gone) or '-', ','.join(kept) or '-'))
            if reason is None and lru_obs != exp_lru:
                reason = ('recency-order-wrong', 'recency list after %s is %s, the history (most recent store or hit first) gives %s'
                          % (where, ','.join(lru_obs), ','.join(exp_lru)))
            if reason is None:
                if not pressure:
                    ok.append(c)
                else:
                    kk = c.key()
                    if kk not in seen:
                        seen.add(kk)
                        ok.append(c)
            elif first_reason is None:
                first_reason = reason
        if not ok:
            return first_reason
        states = ok[:8]
    # final token: timeout index, index consistency, memory after a final clear()
    xf = toks[-1].split(':')
    h = states[0]
    exp_t = ','.join('%d=%s' % (d, k) for d, k in h.timeouts()) or '-'
    if len(xf) < 3:
        return ('bad-output', 'malformed final token ' + toks[-1][:200])
    if not pressure and xf[1] != exp_t:
        return ('timeout-index-wrong', 'timeout index is %s, the history gives %s (sorted by deadline, equal deadlines in store order)' % (xf[1][:300], exp_t[:300]))
    if xf[2] != 'ok':
        return ('index-inconsistent', 'the four indexes / counters of the real cache object disagree: ' + xf[2][:200])
    if len(xf) > 3:
        try:
            u0, u1 = [int(x) for x in xf[3][1:].split('/')]
        except ValueError:
            return ('bad-output', 'malformed memory field ' + xf[3][:100])
        if u0 < 0 or u1 < 0:
            return ('allocator-headers-broken', 'the page headers of the shared segment no longer tile it (used0=%d used1=%d)' % (u0, u1))
        if u1 != u0:
            return ('memory-not-released', 'after the history and a final clear() %d bytes of the shared segment are in use, %d were after construction' % (u1, u0))
    return None


# --------------------------------------------------------------------------------------------
# fill / read back / empty cycles
# --------------------------------------------------------------------------------------------
def oracle_cyc(case, out):
    c = case.split()
    backend, limit, vsz, n, cycles, how = c[1], int(c[2]), int(c[3]), int(c[4]), int(c[5]), c[7]
    if out.startswith('<') or 'exception' in out or '<crash' in out:
        return ('cache-crash', 'harness/child died or threw: ' + out[:300])
    toks = out.split(' ')
    try:
        a0, m0 = [int(x) for x in toks[0][2:].split('/')]
        rows = [[int(x) for x in t.split('/')] for t in toks[1:]]
    except ValueError:
        return ('bad-output', out[:200])
    if not toks[0].startswith('I:') or len(rows) != cycles or any(len(r) != 8 for r in rows):
        return ('bad-output', out[:200])
    if a0 == 1:
        return ('allocator-headers-broken', 'page headers do not tile the segment after construction')
    seg = 0 if backend == 't' else int(backend[1:]) * 1024
    roomy = backend == 't' or n * (vsz + 400) * 2 < seg // 8
    by_how = {}
    for cy, (keys, trg, hits, bad, k2, t2, a, m) in enumerate(rows):
        h = 'crd'[cy % 3] if how == 'm' else how
        where = 'cycle %d of `%s`: %s' % (cy, case, toks[1 + cy])
        if bad:
            return ('readback-wrong-value', '%d fetched values differ from what was stored in %s' % (bad, where))
        if limit > 0 and keys > limit:
            return ('limit-exceeded', 'cache reports %d keys with limit %d in %s' % (keys, limit, where))
        if hits != keys:
            return ('held-entries-not-found', '%d keys reported but %d of the stored keys can be fetched in %s' % (keys, hits, where))
        if roomy:
            want = min(n, limit) if limit > 0 else n
            if keys != want:
                return ('stats-wrong', 'after %d stores with limit %d the cache reports %d keys, %d expected in %s' % (n, limit, keys, want, where))
            wtr = sum(3 if i % 2 else 2 for i in range(n - want, n))
            if trg != wtr:
                return ('stats-wrong', 'trigger count %d, expected %d in %s' % (trg, wtr, where))
        if k2 or t2:
            return ('not-empty-after-emptying', 'stats are %d/%d after emptying in %s' % (k2, t2, where))
        if a == 1:
            return ('allocator-headers-broken', 'page headers do not tile the segment in ' + where)
        if h == 'c' and a != a0:
            return ('memory-not-released', 'after clear() %d bytes are in use, %d were before the first fill (%s)' % (-a, -a0, where))
        if h in by_how and by_how[h] != a:
            return ('memory-not-released', 'memory in use after emptying changes from cycle to cycle (%d then %d bytes) in %s' % (-by_how[h], -a, where))
        by_how.setdefault(h, a)
        if abs(a - a0) > 64 * (n + limit) + 8192:
            return ('memory-not-released', 'after emptying %d bytes are in use, %d were before the first fill (%s)' % (-a, -a0, where))
    return None


# --------------------------------------------------------------------------------------------
# buddy allocator: the property on the real allocator's answers alone
# --------------------------------------------------------------------------------------------
def chunks_of(msize):
    """initial pages: binary decomposition of the usable size, orders >= 5"""
    rem = msize - SELF
    pos = 0
    out = []
    while rem >= 32:
        b = rem.bit_length() - 1
        out.append((pos, b))
        pos += 1 << b
        rem -= 1 << b
    return out


def need_bits(size):
    n = ((size + 15) // 16 + 1) * 16
    return (n - 1).bit_length()


def oracle_bud(case, out):
    c = case.split()
    if c[1] == 'consts':
        return None if out == '4 16 256 %d 24' % SELF else ('allocator-constants-changed', out[:100])
    msize = int(c[1])
    ops = c[2:]
    if out.startswith('<') or out == '':
        return ('allocator-crash', out[:200])
    toks = out.split(' ')
    if len(toks) != len(ops) + 3:
        return ('allocator-crash', 'answer has %d tokens for %d ops: %s' % (len(toks), len(ops), out[:200]))
    usable = msize - SELF
    init = chunks_of(msize)
    init_total = sum((1 << b) - 16 for _, b in init)
    init_hb = init[0][1] if init else -1
    init_max = (1 << init_hb) - 16 if init else 0
    hb = init_hb
    slots = []
    live = {}                # slot -> (page offset, bits, size)
    for i, (o, a) in enumerate(zip(ops, toks)):
        af = a.split(':')
        try:
            total, mx, nhb = int(af[1]), int(af[2]), int(af[3])
        except (ValueError, IndexError):
            return ('allocator-crash', 'malformed token %s' % a[:80])
        where = 'op %d (%s) of `%s` answered %s' % (i, o, case[:200], a)
        if o[0] == 'm':
            size = int(o[1:])
            nb = need_bits(size)
            if af[0] == '-':
                slots.append(None)
                if nb <= hb:
                    return ('malloc-failed-with-room', 'malloc(%d) needs a 2^%d page and a free 2^%d page exists, but it returned null: %s' % (size, nb, hb, where))
            else:
                off = int(af[0])
                po = off - 16
                if po < 0 or po % (1 << nb) != 0 and nb < 64:
                    return ('malloc-misaligned', 'malloc(%d) returned offset %d: its 2^%d page is not aligned (%s)' % (size, off, nb, where))
                if po + (1 << nb) > usable or off + size > usable:
                    return ('malloc-outside-region', 'malloc(%d) returned offset %d, page end %d beyond the usable %d bytes (%s)' % (size, off, po + (1 << nb), usable, where))
                if (1 << nb) - 16 < size:
                    return ('malloc-too-small', where)
                for s2, (p2, b2, _) in live.items():
                    if po < p2 + (1 << b2) and p2 < po + (1 << nb):
                        return ('malloc-overlaps-live-block', 'malloc(%d) returned page [%d,%d) which overlaps the live block of slot %d at [%d,%d): %s'
                                % (size, po, po + (1 << nb), s2, p2, p2 + (1 << b2), where))
                if nb > hb:
                    return ('malloc-from-nowhere', 'malloc(%d) succeeded although no free page of order >= %d existed: %s' % (size, nb, where))
                live[len(slots)] = (po, nb, size)
                slots.append(off)
        elif o[0] == 'f':
            live.pop(int(o[1:]), None)
        elif o in ('A', 'Z'):
            live.clear()
        if not live:
            if total != init_total or mx != init_max or nhb != init_hb:
                return ('free-all-does-not-restore', 'no block is live but total_free_memory/max_free_chunk/highest order are %d/%d/%d, initially %d/%d/%d: %s'
                        % (total, mx, nhb, init_total, init_max, init_hb, where))
        else:
            used = sum(1 << b for _, b, _ in live.values())
            region = sum(1 << b for _, b in init)
            if total > region - used - (16 if region > used else 0):
                return ('free-memory-exceeds-region', 'total_free_memory %d with %d of %d bytes in live pages: %s' % (total, used, region, where))
        hb = nhb
    ft, pt, tt = toks[-3], toks[-2], toks[-1]
    if tt != 'T:ok':
        return ('allocator-self-check-failed', 'byte patterns / the repo test_consistent() / header walk report %s for `%s`' % (tt[:200], case[:300]))
    # final dump: the headers tile the region, used pages are exactly the live blocks, free pages are exactly the free lists, no free buddies
    pages = []
    if pt != 'P:-':
        for x in pt[2:].split(','):
            o_, r = x.split('.')
            pages.append((int(o_), int(r[:-1]), r[-1]))
    pos = 0
    for o_, b, u in pages:
        if o_ != pos or o_ % (1 << b) != 0:
            return ('tiling-broken', 'page headers do not tile the region with aligned pages at offset %d: %s' % (o_, pt[:300]))
        pos += 1 << b
    if usable - pos >= 32 or pos > usable:
        return ('tiling-broken', 'pages cover %d of %d usable bytes: %s' % (pos, usable, pt[:300]))
    usedp = sorted((o_, b) for o_, b, u in pages if u == 'u')
    if usedp != sorted((p, b) for p, b, _ in live.values()):
        return ('used-pages-differ-from-live-blocks', 'in-use pages %s, live blocks %s' % (usedp[:20], sorted((p, b) for p, b, _ in live.values())[:20]))
    freep = sorted((o_, b) for o_, b, u in pages if u == 'f')
    fl = []
    if ft != 'F:-':
        for grp in ft[2:].split(';'):
            b, lst = grp.split('=')
            fl += [(int(x), int(b)) for x in lst.split(',')]
    if sorted(fl) != freep:
        return ('free-lists-differ-from-free-pages', 'free lists %s, free pages in the header walk %s' % (sorted(fl)[:20], freep[:20]))
    fs = set(freep)
    for o_, b in freep:
        bo = o_ ^ (1 << b)
        if bo + (1 << b) <= usable and (bo, b) in fs:
            return ('free-buddies-coexist', 'pages %d and %d of order %d are both free and not merged' % (min(o_, bo), max(o_, bo), b))
    if not live and freep != sorted(init):
        return ('free-all-does-not-restore', 'no block is live but the free pages are %s, initially %s' % (freep[:20], sorted(init)[:20]))
    return None


def oracle(case, out):
    if case.startswith('seq '):
        return oracle_seq(case, out)
    if case.startswith('cyc '):
        return oracle_cyc(case, out)
    if case.startswith('bud '):
        return oracle_bud(case, out)
    return ('bad-output', 'unknown case kind')


# --------------------------------------------------------------------------------------------
# generators
# --------------------------------------------------------------------------------------------
def expand_ticks(seq):
    now = T0
    out = []
    for o in seq:
        if o == 'TICK':
            now += 1
            out.append(T(now))
        else:
            out.append(o)
    return out


def exhaustive_cases(backend, limits, length, nkeys, deadlines):
    """all sequences over: store of each key with each deadline, fetch of each key, clock tick"""
    keys = [bytes([97 + i]) for i in range(nkeys)]
    ops = [S(k, k, [], d) for k in keys for d in deadlines] + [F(k) for k in keys] + ['TICK']
    cases = []
    for seq in itertools.product(ops, repeat=length):
        if not seq[0].startswith('S') or seq[-1] == 'TICK':
            continue
        e = ' '.join(expand_ticks(seq))
        for lim in limits:
            cases.append('seq %s %d %d %s' % (backend, lim, T0, e))
    return cases


def random_seq(rng, limit, nkeys, ntrigs, length, vsz=None):
    keys = [b'k%d' % i for i in range(nkeys)]
    if rng.random() < 0.1:
        keys[0] = b''
    trigs = [b't%d' % i for i in range(ntrigs)] + keys[:max(1, nkeys // 3)]
    now = T0
    ops = []
    pstore = rng.choice([0.35, 0.5, 0.65])
    pfetch = rng.choice([0.2, 0.35])
    # deadline regimes: all far (pure LRU), mixed around the clock (expired-first), many ties
    regime = rng.choice(['far', 'near', 'near', 'ties'])
    for _ in range(length):
        r = rng.random()
        if r < pstore:
            k = rng.choice(keys)
            nt = rng.choice([0, 0, 0, 1, 1, 2])
            ts = [rng.choice(trigs) for _ in range(nt)]
            if regime == 'far':
                d = now + rng.choice([50, 100, 1000]) if rng.random() < 0.9 else INFTY
            elif regime == 'ties':
                d = now + rng.choice([-1, 0, 1, 1, 2, 2])
            else:
                dr = rng.random()
                if dr < 0.7:
                    d = now + rng.choice([-2, -1, 0, 0, 1, 1, 2, 3, 5, 10])
                elif dr < 0.95:
                    d = now + rng.randrange(0, 30)
                else:
                    d = rng.choice([INFTY, 0, -1, -2 ** 62, 2 ** 63 - 1, now - 100])
            g = None
            if rng.random() < 0.1:
                g = rng.choice([0, 1, 7, 2 ** 32, 2 ** 64 - 1, rng.randrange(2 ** 64)])
            if vsz:
                v = '#%dx%s' % (rng.choice(vsz), hx(bytes([rng.randrange(256)]) + k))
            else:
                ln = rng.choice([0, 1, 2, 3, 8, 31, 32, 33, 100])
                v = '#%dx%s' % (ln, hx(bytes([rng.randrange(256)]))) if ln > 3 else bytes(rng.randrange(256) for _ in range(ln))
            ops.append(S(k, v, ts, d, g))
        elif r < pstore + pfetch:
            ops.append(F(rng.choice(keys)))
        elif r < pstore + pfetch + 0.05:
            ops.append(R(rng.choice(trigs)))
        elif r < pstore + pfetch + 0.09:
            ops.append(D(rng.choice(keys)))
        elif r < pstore + pfetch + 0.10:
            ops.append('C')
        else:
            now += rng.choice([1, 1, 1, 2, 3, 10])
            ops.append(T(now))
    return ops


def aimed_cases(backends):
    """the histories the property text talks about, for every limit 1..8"""
    cases = []
    for be in backends:
        for lim in range(1, 9):
            ks = [b'k%d' % i for i in range(lim + 3)]
            far = T0 + 100
            seqs = []
            # pure LRU by store order: limit+3 keys, then every key fetched
            seqs.append([S(k, k, [], far) for k in ks] + [F(k) for k in ks])
            # a fetch rescues the oldest entry: k0 is hit just before the cache overflows
            seqs.append([S(k, k, [], far) for k in ks[:lim]] + [F(ks[0]), S(ks[lim], b'x', [], far)] + [F(k) for k in ks[:lim + 1]])
            # a missed fetch (expired) must NOT refresh recency; the expired entry goes first although it was stored last
            seqs.append([S(k, k, [], far) for k in ks[:max(0, lim - 1)]] + [S(b'e', b'e', [], T0 + 1), T(T0 + 2), F(b'e'), S(b'n', b'n', [], far)]
                        + [F(b'e'), F(b'n')] + [F(k) for k in ks[:lim]])
            # two expired entries: the earlier deadline goes first; deadline == now is not expired
            seqs.append([S(b'a', b'a', [], T0 + 2), S(b'b', b'b', [], T0 + 1), S(b'c', b'c', [], T0 + 3)] + [S(k, k, [], far) for k in ks[:max(0, lim - 3)]]
                        + [T(T0 + 3), S(b'x', b'x', [], far), F(b'a'), F(b'b'), F(b'c'), S(b'y', b'y', [], far), F(b'a'), F(b'c'), S(b'z', b'z', [], far), F(b'c')])
            # equal deadlines: first stored goes first
            seqs.append([S(b'a', b'a', [], T0 + 1), S(b'b', b'b', [], T0 + 1), S(b'c', b'c', [], T0 + 1)] + [S(k, k, [], far) for k in ks[:max(0, lim - 3)]]
                        + [F(b'c'), F(b'a'), T(T0 + 5), S(b'x', b'x', [], far), S(b'y', b'y', [], far), F(b'a'), F(b'b'), F(b'c')])
            # re-store of a held key at the limit evicts nobody; re-store refreshes recency
            seqs.append([S(k, k, [], far) for k in ks[:lim]] + [S(ks[0], b'new', [], far)] + [F(k) for k in ks[:lim]] + [S(ks[lim], b'v', [], far)] + [F(k) for k in ks[:lim + 1]])
            # eviction updates the trigger index and counters: evicted entries carry triggers, rise afterwards
            seqs.append([S(k, k, [b'all', b'm%d' % (i % 2)], far) for i, k in enumerate(ks)] + [R(b'm0')] + [F(k) for k in ks] + [R(b'all'), S(ks[0], b'v', [b'all'], far), F(ks[0])])
            # fill, clear, refill, remove one by one, refill
            seqs.append([S(k, k, [b'all'], far) for k in ks] + ['C'] + [S(k, k, [b'all'], far) for k in ks] + [D(k) for k in ks] + [S(k, k, [], far) for k in ks] + [F(k) for k in ks])
            for s in seqs:
                cases.append('seq %s %d %d %s' % (be, lim, T0, ' '.join(s)))
    return cases


def cyc_cases(rng, n, thorough):
    cases = []
    segs = ['t', 'p512', 'p1024', 'p2048', 'p4096']
    fixed = [('p512', 8, 100, 20, 6, 'm'), ('t', 8, 100, 20, 6, 'm'), ('p512', 0, 1000, 60, 6, 'm'), ('p512', 4, 60000, 10, 6, 'm'),
             ('p512', 4, 200000, 3, 6, 'm'), ('p512', 4, 300000, 3, 4, 'c'), ('p512', 1, 0, 5, 6, 'm'), ('p1024', 3, 52428, 9, 6, 'm'),
             ('p4096', 8, 209715, 12, 6, 'm'), ('p512', 8, 26214, 12, 6, 'r'), ('p512', 8, 26215, 12, 6, 'd')]
    for be, lim, vsz, cnt, cyc, how in fixed:
        cases.append('cyc %s %d %d %d %d %d %s' % (be, lim, vsz, cnt, cyc, T0, how))
    for _ in range(n):
        be = rng.choice(segs)
        seg = 512 * 1024 if be == 't' else int(be[1:]) * 1024
        lim = rng.choice([0, 1, 2, 3, 4, 5, 6, 7, 8])
        vsz = rng.choice([0, 1, 15, 16, 17, 100, 1000, 5000, seg // 20 - 1, seg // 20, seg // 20 + 1, seg // 10, seg // 5, seg // 3, seg // 2, seg])
        cnt = rng.choice([lim + 1, lim + 3, 10, 25]) if vsz > 5000 else rng.choice([lim + 1, lim + 3, 20, 60])
        cyc = rng.choice([200, 200, 300]) if thorough and vsz <= 5000 else rng.choice([6, 9, 30]) if vsz <= 5000 else rng.choice([6, 9])
        cases.append('cyc %s %d %d %d %d %d %s' % (be, lim, vsz, max(1, cnt), cyc, T0, rng.choice('crdmm')))
    return cases


def bud_sizes(rng, usable):
    edge = []
    for k in range(5, max(6, usable.bit_length() + 1)):
        edge += [(1 << k) - 17, (1 << k) - 16, (1 << k) - 15]
    return edge


def bud_random(rng, msize, length):
    usable = msize - SELF
    edge = [s for s in bud_sizes(rng, usable) if s >= 1]
    ops = []
    nslots = 0
    live = []
    pfree = rng.choice([0.2, 0.4, 0.5])
    small = rng.random() < 0.5
    for _ in range(length):
        r = rng.random()
        if r < pfree and live:
            s = live.pop(rng.randrange(len(live)))
            ops.append('f%d' % s)
        elif r < pfree + 0.03:
            ops.append(rng.choice('AZ')); live = []
        else:
            q = rng.random()
            if q < 0.4:
                size = rng.choice(edge)
                if small and size > usable // 8:
                    size = rng.choice([1, 16, 17, 47, 48, 49])
            elif q < 0.8:
                size = rng.randrange(1, max(2, usable // rng.choice([1, 2, 4, 16, 64])))
            else:
                size = rng.choice([1, 2, 15, 16, 17, 31, 32, 33, usable, usable + 1, 2 * usable, usable - 16, 1 << 40])
            ops.append('m%d' % size)
            live.append(nslots)
            nslots += 1
    ops.append(rng.choice(['A', 'Z', 'A', 'Z', '']))
    return ' '.join(o for o in ops if o)


def bud_cases(rng, n, quick):
    cases = ['bud consts']
    # exhaustive: every sequence over a small op alphabet on tiny arenas (one chunk, and a non power of two with three chunks)
    alpha = ['m1', 'm40', 'm100', 'f0', 'f1', 'f2', 'A']
    for ms in (SELF + 256, SELF + 256 + 64 + 32 + 9):
        for ln in ([5] if quick else [5, 6]):
            for seq in itertools.product(alpha, repeat=ln):
                if seq[0][0] != 'm':
                    continue
                cases.append('bud %d %s' % (ms, ' '.join(seq)))
    # fill until exhausted, free everything in either order, refill: the second fill must hand out the same number of blocks
    for ms, sz in ((SELF + 4096, 1), (SELF + 5000, 17), (SELF + 65536 + 777, 100), (SELF + 1000, 16), (SELF + 40000, 1000)):
        nfit = (ms - SELF) // 32 + 2
        for order in 'AZ':
            cases.append('bud %d %s %s %s %s' % (ms, ' '.join(['m%d' % sz] * nfit), order, ' '.join(['m%d' % sz] * nfit), order))
    sizes = [SELF, SELF + 1, SELF + 31, SELF + 32, SELF + 33, SELF + 63, SELF + 64, SELF + 96, SELF + 1000, SELF + 4096, SELF + 4095, SELF + 4097,
             65536, 65536 + SELF, 100000, 1 << 20, (1 << 20) + SELF - 1, 10 * 1024 * 1024]
    for _ in range(n):
        ms = rng.choice(sizes) if rng.random() < 0.6 else SELF + rng.randrange(0, 1 << rng.choice([8, 12, 16, 20]))
        cases.append('bud %d %s' % (ms, bud_random(rng, max(ms, SELF + 1), rng.choice([10, 30, 80, 150]))))
    return cases


def gen_cases(ctx):
    rng = ctx.rng
    seqs = []
    seqs += aimed_cases(['t', 'p512'])
    if ctx.quick():
        seqs += exhaustive_cases('t', [1, 2], 4, 3, [T0, T0 + 1, T0 + 5])
        seqs += exhaustive_cases('t', [1, 2], 5, 2, [T0 + 1, T0 + 5])
    else:
        seqs += exhaustive_cases('t', [1, 2, 3], 5, 3, [T0, T0 + 1, T0 + 5])
        seqs += exhaustive_cases('t', [2, 3], 6, 3, [T0 + 1, T0 + 5])
        seqs += exhaustive_cases('p512', [1, 2], 3, 3, [T0, T0 + 5])
    for _ in range(ctx.scale(2500, 30000)):
        lim = rng.choice([1, 2, 3, 4, 5, 6, 7, 8])
        nk = lim + rng.choice([1, 1, 2, 3, 5, 10])
        be = 't' if rng.random() < 0.85 else rng.choice(['p512', 'p1024', 'p4096'])
        ln = rng.choice([20, 40, 80, 200])
        seqs.append('seq %s %d %d %s' % (be, lim, T0, ' '.join(random_seq(rng, lim, nk, rng.choice([1, 3, 6]), ln))))
    # contrast: no limit and a limit far above the alphabet (nothing may ever be evicted)
    for _ in range(ctx.scale(150, 1500)):
        lim = rng.choice([0, 0, 64, 1000])
        seqs.append('seq t %d %d %s' % (lim, T0, ' '.join(random_seq(rng, lim, rng.choice([3, 8, 20]), 3, rng.choice([20, 80])))))
    # memory pressure on the shared segment: values up to beyond segment/20 and segment/10 (oracle only: the number of extra
    # evictions depends on the allocator state, their identity must still follow the rule)
    press = []
    for _ in range(ctx.scale(120, 1500)):
        kib = rng.choice([512, 512, 1024, 2048])
        seg = kib * 1024
        vsz = [0, 1, 100, 5000, seg // 20 - 1, seg // 20 + 1, seg // 10, seg // 8, seg // 5, seg // 3]
        lim = rng.choice([1, 2, 3, 4, 5, 6, 7, 8])
        press.append('seq P%d %d %d %s' % (kib, lim, T0, ' '.join(random_seq(rng, lim, lim + rng.choice([1, 3, 6]), 2, rng.choice([15, 30, 50]), vsz=vsz))))
    return seqs, press


def nontrivial(case, out):
    c = case.split(None, 2)
    if c[0] == 'seq':
        # at least one hit and one store that evicted somebody (a new key went in and the number of keys did not grow)
        if ' h:' not in ' ' + out:
            return False
        prev_n, prev_l = 0, []
        for o, a in zip(case.split()[4:], out.split(' ')):
            af = a.split(':')
            if len(af) < 3:
                return False
            n = int(af[-2].split('/')[0])
            l = af[-1].split(',')
            if o.startswith('S:') and n == prev_n and n > 0 and o.split(':')[1] not in prev_l:
                return True
            prev_n, prev_l = n, l
        return False
    if c[0] == 'cyc':
        return True
    if c[0] == 'bud':
        return ':' in out and any(t and t[0].isdigit() for t in out.split(' ')[:-3])
    return False


def classify(case, out):
    c = case.split(None, 4)
    if c[0] == 'seq':
        lim = int(c[2])
        n = len(c[4].split()) if len(c) > 4 else 0
        lb = 'limit0' if lim == 0 else 'limit%d' % lim if lim <= 8 else 'limit>8'
        nb = 'len<=6' if n <= 6 else 'len7-40' if n <= 40 else 'len>40'
        be = 'thread' if c[1] == 't' else 'process-pressure' if c[1][0] == 'P' else 'process'
        return 'seq:%s:%s:%s' % (be, lb, nb)
    if c[0] == 'cyc':
        return 'cyc:%s:%s' % ('thread' if c[1] == 't' else 'process', c[-1].split()[-1])
    if c[0] == 'bud':
        n = len(case.split()) - 2
        return 'bud:%s' % ('len<=6' if n <= 6 else 'len7-40' if n <= 40 else 'len>40')
    return 'other'


def strip_mem(case, a):
    """the model does not predict the memory accounting field of the final token (oracle-only)"""
    if case.startswith('seq p') or case.startswith('seq P'):
        i = a.rfind(':U')
        if i > 0 and ' ' not in a[i:]:
            return a[:i]
    return a


def run(ctx):
    errs = vlib.gen_coq(GEN)
    for n, e in errs:
        ctx.broke('translator cxx2v failed on %s (tie to source broken)' % n, e)
    res = vlib.coq_props('C08')
    ctx.proof(res)
    ctx.coverage['trusted_base'] = [
        'Coq 8.16.1 kernel (vm_compute only in the non-vacuity Examples)',
        'hand-written models: coq/C07/Defs.v (mem_cache, shared with C07) and coq/C08/Defs.v (buddy_allocator); no function of the anchored '
        'files is in the loop-free integer fragment of cxx2v, the allocator constants are compared with the real ones at run time',
        'extraction: ExtrOcamlBasic only, OCaml 4.13.1',
        'harness/C08_cache.cpp (includes src/cache_storage.cpp of the tree under test, -fno-access-control, interposed time() and operator new, '
        'fork per process_shared case), harness/C08_buddy.cpp, ocaml/C08_driver.ml, checks/C08.py (generators, history-interpreter oracle)',
        'hash_map / std::multimap / std::list / std::set behave as finite map / stable sorted multimap / list / set']
    ctx.assumptions = ['single-threaded use (locks not modelled; C09 covers concurrency)',
                       'for cache correspondence: no allocation failure and not_enough_memory() false (values <= 100 bytes); sequences with memory '
                       'pressure are judged by the property oracle only',
                       'counters do not wrap (uint64 generation, size_t size); buddy requests are >= 1 byte and < 2^63 '
                       '(malloc(0) corrupts the allocator but no container of the cache ever asks for 0 bytes, see docs/C08.md)',
                       'time() is the only clock the cache reads (checked by the harness self-test on every run)',
                       'LP64: sizeof(buddy_allocator)=544, alignment 16 (compared with the real values on every run)']
    exe, err = vlib.build_harness('C08_cache', ['C08_cache.cpp'], extra=['-fno-access-control'])
    if not exe:
        ctx.broke('cache harness build failed', err)
    bexe, err = vlib.build_harness('C08_buddy', ['C08_buddy.cpp'], extra=['-fno-access-control'], link=False)
    if not bexe:
        ctx.broke('buddy harness build failed', err)
    mexe, err = vlib.build_model('C08', 'C08_driver.ml', 'c08m')
    if not mexe:
        ctx.broke('model extraction/build failed', err)
    if not exe or not bexe:
        return
    if ctx.replay_cases is not None:
        cases = ctx.replay_cases
        seqs = [c for c in cases if c.startswith('seq ') and not c.startswith('seq P')]
        press = [c for c in cases if c.startswith('seq P')]
        cycs = [c for c in cases if c.startswith('cyc ')]
        buds = [c for c in cases if c.startswith('bud ')]
    else:
        corpus = vlib.corpus_cases('C08')
        seqs, press = gen_cases(ctx)
        seqs = [c for c in corpus if c.startswith('seq ') and not c.startswith('seq P')] + seqs
        press = [c for c in corpus if c.startswith('seq P')] + press
        cycs = [c for c in corpus if c.startswith('cyc ')] + cyc_cases(ctx.rng, ctx.scale(40, 300), not ctx.quick())
        buds = [c for c in corpus if c.startswith('bud ')] + bud_cases(ctx.rng, ctx.scale(2500, 40000), ctx.quick())
    ctx.coverage['rule'] = (
        'seq: back end (thread_shared / process_shared 512 KiB-4 MiB), limit 1..8 (plus 0/large for contrast), a sequence of store/fetch/rise/'
        'remove/clear/clock-set over a key alphabet of limit+1..limit+10 keys; the answer lists every fetch result, stats() and the private recency '
        'list after every operation, then the timeout index, the index consistency flags and (process) the bytes in use after a final clear(). '
        'Exhaustive: all sequences of length 4 (quick; 5 thorough) over {store a/b/c x 3 deadlines, fetch a/b/c, tick} x limits {1,2}, length 5 over 2 keys x 2 deadlines (thorough: 6 over 3 keys). '
        'Aimed: 8 histories per limit 1..8 (LRU by store, hit rescue, expired-first, deadline ties, re-store, trigger index after eviction, fill/clear/refill). '
        'Random (seeded): up to 200 ops, three deadline regimes. Pressure: values up to segment/3 on process_shared (oracle only). '
        'cyc: fill/read back/empty cycles (clear, rise, remove, mixed) x value sizes 0..segment, limits 0..8 with used-memory accounting. '
        'bud: malloc/free/free-all sequences on the real buddy_allocator over arenas of 544..10 MiB bytes: exhaustive length-5 (6) sequences over a 7-op alphabet on two '
        'tiny arenas, fill-exhaust/free-all/refill, random with sizes at 2^k-17..2^k-15. Non-trivial = seq with an eviction-capable store and a hit / '
        'bud with a successful malloc; distinct = distinct case lines.')
    ctx.coverage['exhaustive'] = False
    ctx.coverage['exhaustive_parts'] = ['cache: all op sequences of length 4 (quick) / 5 (thorough) over the 13-op alphabet starting with a store x limits {1,2}(,3)',
                                        'buddy: all op sequences of length 5 (quick) / 5-6 (thorough) over the 7-op alphabet starting with a malloc, arenas of 256 and 361 usable bytes']
    if seqs:
        vlib.differential(ctx, seqs, exe, mexe, oracle, nontrivial, classify, canon_case=strip_mem, canon_model=lambda b: b,
                          what='correspondence cache model vs mem_cache')
    if press:
        vlib.differential(ctx, press, exe, None, oracle, nontrivial, classify, what='pressure sequences (oracle only)')
    if cycs:
        vlib.differential(ctx, cycs, exe, None, oracle, nontrivial, classify, what='fill/empty cycles (oracle only)', jobs=8)
    if buds:
        vlib.differential(ctx, buds, bexe, mexe, oracle, nontrivial, classify, what='correspondence allocator model vs buddy_allocator')
