"""C08 -- the cache stays within its limit; evicts expired, then least-recently-used."""
import itertools
import vlib

META = dict(
    property_id='C08',
    design_ref='DESIGN.md section 4, C08',
    technique='Coq proof (limit / victim-rule / statistics invariants over the line-by-line model of mem_cache shared with C07; '
              'Tiling / NoFreeBuddies invariants of a model of buddy_allocator; conservation of allocator blocks for a resource model of the '
              'process_shared cache running OVER the allocator model, with every allocation of store a failure point) + extracted-model '
              'correspondence (cache operation sequences with the real private recency list and timeout index read out; malloc/free sequences of '
              'the real allocator; store under a second tenant that leaves every possible budget - the model must predict the allocation at which '
              'the store gives up and the page structure of the segment; failure injection at the k-th operator new on the thread_shared cache) + '
              'history-based property oracle on the real caches + conservation oracle on the real segment (bytes in in-use pages, '
              'total_free_memory, max_free_chunk, free pages, no-two-free-buddies, refill probe of 40 % of the segment after clear()) + '
              'lexical tie of the allocate/construct/deallocate-on-throw shape of private/hash_map.h and of the bad_alloc handlers of store',
    level_text=('Theorems in coq/C08/Props.v. Guards generated from the source (cxx2v) and linked: check_limits loop condition, expired-first test, '
                'pressure test, malloc rounding, buddy address / bound, merge test. Cache (model C07.Defs of src/cache_storage.cpp: delete_node, fetch, store, rise, remove, clear, '
                'check_limits): for ALL histories (any operations, clock schedule, allocation faults, memory-pressure answers) a cache with '
                'limit n>0 never holds more than n entries and never reports more than n keys; check_limits is the loop '
                '`while must_evict: delete first_victim`, a victim always exists, it removes exactly max(0,size-limit+1) entries when memory '
                'is not short and nothing when there is room; in every reachable state the victim is an entry with the smallest deadline if '
                'that deadline has passed, otherwise the entry whose last store-or-hit is older than that of every other entry (stated against '
                'operation numbers of the history); stats() always equals (number of entries, sum of trigger-set sizes) and the whole answer '
                'sequence equals that of the abstract LRU specification. Buddy allocator (model C08.Defs of private/buddy_allocator.h: '
                'constructor, malloc, page_alloc, free, free_page, get_buddy): invariants, disjointness, free-all-restores (docs/C08.md). '
                'Conservation (resource model C08.ResDefs: every block the containers of mem_cache<process_settings> obtain is a b_malloc on the '
                'allocator model, tagged with its owner; value copy, int_key, the temporary pair, bucket vectors, index node, key copy INSIDE the '
                'node, lru/timeout/list nodes may each fail - when the allocator model says so, with arbitrary blocks of other tenants, or by an '
                'injected fault list; the exception paths of basic_map::allocate and mem_cache::store are spelled out): after ANY history the in-use '
                'pages of the segment are exactly the recorded blocks plus those of the other tenants, each once (no orphan, no dangling record); '
                'clear() - whether or not one of its two rehash calls throws - leaves nothing recorded but bucket vectors (indexes empty, any limit) and '
                'goes through as soon as the allocator has a free page for a bucket vector (the cache stays usable: no wedge); fetch (one splice) never '
                'changes the block set; no temporary of a store is recorded between operations, whatever failed; with limit 0 a cache that has the segment for itself leaves after clear() the page headers and free '
                'lists of the freshly constructed allocator; without the catch block of basic_map::allocate a concrete history orphans the node. '
                'Tie: extracted models vs the real code on the same cases (cache sequences; allocator sequences with offsets, free lists, headers; '
                'budget sweeps and failure injection: stats after the store and the exact page structure of the real segment); the statement shapes '
                'of basic_map::allocate/destroy/erase/clear and the two handlers of store are read off the current source on every run and '
                'Link.v proves they are what the model assumes.'),
    level_note=('Trusted: Coq kernel; ExtrOcamlBasic extraction; tools/cxx2v.py + clang for the guards (coq/gen/Gen_C08_guards.v: the while condition of '
                'check_limits, the expired-first test, not_enough_memory, size_limit, the malloc size formula, get_buddy, the merge test of free_page, '
                'page_alloc refusal and split offset, total_free_at are cut out of the current source and proved equal to the model leafs in '
                'LinkGuards.v); the hand-written models for everything else (the allocator constants and the node sizes are compared at run time); hash_map modelled '
                'as a finite map in the cache model and as tagged blocks in the resource model; std::multimap/list/set semantics; locks not modelled '
                '(C09); the resource model records the blocks of an entry as a set (the order in which delete_node / nl_clear release several blocks is not '
                'modelled: exact page-structure correspondence uses limit 0 and states where the set of live blocks determines the page structure; '
                'limits 1..8, 16, 64 are compared on stats and bytes in in-use pages) and has fetch as the identity on blocks (one lru.splice since /repo 117bb4c; tied by shape and by F steps in the page-exact correspondence); the lexical shape extractor of checks/C08.py (fixed table of statement texts); '
                'shmem_allocator mutex and mmap are not modelled.'),
)


# --------------------------------------------------------------------------------------------
# tie of the allocate / construct / deallocate-on-throw shape of private/hash_map.h to the resource model
# (coq/C08/ResDefs.v: rstmt, allocate_protected, destroy_releases, count_destroy; lemmas in coq/C08/Link.v)
# --------------------------------------------------------------------------------------------
import os
import re

_SHAPES = [
    ('container_allocal;', 'SDeclAlloc'),
    ('iteratorp=al.allocate(1);', 'SAllocate'),
    ('try{new(p)container(v);}', 'STryConstructCopy'),
    ('try{new(p)container();}', 'STryConstructDefault'),
    ('catch(...){al.deallocate(p,1);throw;}', 'SCatchDeallocRethrow'),
    ('catch(...){al.deallocate(p);throw;}', 'SCatchDeallocRethrow'),
    ('returnp;', 'SReturnP'),
    ('p->~container();', 'SDestruct'),
    ('al.deallocate(p,1);', 'SDeallocate'),
    ('destroy(p);', 'SCallDestroy'),
    ('destroy(del);', 'SCallDestroy'),
]


def _body_after(src, sig_re):
    """text between the braces of the first function whose signature matches sig_re (brace matching), or None"""
    m = re.search(sig_re, src)
    if not m:
        return None
    i = src.find('{', m.end() - 1)
    if i < 0:
        return None
    depth = 0
    for j in range(i, len(src)):
        if src[j] == '{':
            depth += 1
        elif src[j] == '}':
            depth -= 1
            if depth == 0:
                return src[i + 1:j]
    return None


def _classify_body(body):
    if body is None:
        return ['SOther']
    t = re.sub(r'\s+', '', body)
    out = []
    i = 0
    while i < len(t):
        for pat, name in _SHAPES:
            if t.startswith(pat, i):
                out.append(name)
                i += len(pat)
                break
        else:
            # an unknown statement: up to the next ; or brace
            j = i
            while j < len(t) and t[j] not in ';{}':
                j += 1
            if out[-1:] != ['SOther'] or 'destroy' in t[i:j + 1] or 'alloc' in t[i:j + 1]:
                out.append('SOther')
            i = j + 1
    return out


def gen_shape():
    """write coq/gen/Gen_C08_hashmap.v from the CURRENT private/hash_map.h: the statement shapes of basic_map::allocate(v),
    allocate(), destroy(p) and the destroy calls of erase / clear.  Lexical (comments stripped, white space removed, a fixed table of
    statement texts; everything else is SOther), deliberately rigid: a rewrite of these five functions breaks coq/C08/Link.v."""
    try:
        src = open(os.path.join(vlib.REPO, 'private', 'hash_map.h')).read()
    except OSError:
        src = ''
    src = re.sub(r'/\*.*?\*/', '', src, flags=re.S)
    src = re.sub(r'//[^\n]*', '', src)
    m = re.search(r'class\s+basic_map\b', src)
    cls = src[m.start():] if m else ''
    parts = {
        'g_allocate_copy': _body_after(cls, r'iterator\s+allocate\s*\(\s*value_type\s+const\s*&\s*v\s*\)\s*\{'),
        'g_allocate_default': _body_after(cls, r'iterator\s+allocate\s*\(\s*\)\s*\{'),
        'g_destroy': _body_after(cls, r'void\s+destroy\s*\(\s*iterator\s+p\s*\)\s*\{'),
        'g_erase': _body_after(cls, r'iterator\s+erase\s*\(\s*iterator\s+p\s*\)\s*\{'),
        'g_clear': _body_after(cls, r'void\s+clear\s*\(\s*\)\s*\{'),
    }
    try:
        cs = open(os.path.join(vlib.REPO, 'src', 'cache_storage.cpp')).read()
    except OSError:
        cs = ''
    cs = re.sub(r'/\*.*?\*/', '', cs, flags=re.S)
    cs = re.sub(r'//[^\n]*', '', cs)
    st = re.sub(r'\s+', '', _body_after(cs, r'virtual\s+void\s+store\s*\(') or '')
    nc = re.sub(r'\s+', '', _body_after(cs, r'void\s+nl_clear\s*\(\s*\)\s*\{') or '')
    fb = _body_after(cs, r'virtual\s+bool\s+fetch\s*\(') or ''
    mlu = re.search(r'\{\s*(lock_guard\s+lock\s*\(\s*\*lru_mutex\s*\)\s*;.*?)\}', fb, re.S)
    lru_upd = re.sub(r'\s+', '', mlu.group(1)) if mlu else ''
    handlers = re.findall(r'catch\(([^)]*)\)\{([^{}]*)\}', st)
    flags = {
        # exactly two handlers in store: the value copy failed -> remove(key); return;   anything else -> nl_clear();
        'g_store_value_copy_handler_removes': len(handlers) == 2 and handlers[0][0].startswith('std::bad_allocconst&') and handlers[0][1] == 'remove(key);return;',
        'g_store_handler_clears': len(handlers) == 2 and handlers[1][0].startswith('std::bad_allocconst&') and handlers[1][1] == 'nl_clear();',
        # /repo a6386b3: every container is cleared and both counters are reset BEFORE the two bucket vectors are re-created
        'g_nl_clear_clears_every_container_then_rehashes': nc == ('timeout.clear();lru.clear();primary.clear();triggers.clear();size=0;triggers_count=0;'
                                                                   'primary.rehash(limit);triggers.rehash(limit);'),
        # /repo 117bb4c: the recency update of fetch is ONE splice under lru_mutex - no erase/push_front pair, no allocation, no assignment
        # to the stored iterator
        'g_fetch_lru_update_is_one_splice': lru_upd == 'lock_guardlock(*lru_mutex);lru.splice(lru.begin(),lru,p->second.lru);',
    }
    txt = ('(* generated by checks/C08.py (gen_shape) from private/hash_map.h of the tree under test -- do not edit *)\n'
           'From Coq Require Import List.\nImport ListNotations.\nFrom CppcmsV Require Import C08.ResDefs.\n')
    for name in ('g_allocate_copy', 'g_allocate_default', 'g_destroy', 'g_erase', 'g_clear'):
        txt += 'Definition %s : list rstmt := [%s].\n' % (name, '; '.join(_classify_body(parts[name])))
    txt += '(* src/cache_storage.cpp: the two catch blocks of mem_cache::store and the statement list of nl_clear, compared as text *)\n'
    for name in sorted(flags):
        txt += 'Definition %s : bool := %s.\n' % (name, 'true' if flags[name] else 'false')
    out = os.path.join(vlib.COQ, 'gen', 'Gen_C08_hashmap.v')
    os.makedirs(os.path.dirname(out), exist_ok=True)
    with vlib.Lock('gen-Gen_C08_hashmap'):
        vlib.write_if_changed(out, txt)
    return parts


def _guards_tu():
    """mechanism T for the guards of the anchored code: whole functions of the anchored files are outside the fragment of tools/cxx2v.py
    (pointers, loops, containers) but their integer GUARDS and size formulas are not.  They are cut out of the CURRENT source as text
    and wrapped into tiny functions (regenerated on every import): the while condition of check_limits (not_enough_memory() -> nem), the
    expired-first test, not_enough_memory() and size_limit() of process_settings, the size formula of buddy_allocator::malloc, the
    buddy address computation and bound test of get_buddy, the merge test of free_page, the refusal test of page_alloc and total_free_at; from private/hash_map.h the
    growth test of rehash_if_needed and next_size().
    If a piece is not found in the expected form it is left out and the translator / Link.v report a broken tie."""
    d = os.path.join(vlib.WORK, 'C08')
    os.makedirs(d, exist_ok=True)
    out = os.path.join(d, 'C08_guards_tu.cpp')

    def rd(*parts):
        try:
            t = open(os.path.join(vlib.REPO, *parts)).read()
        except OSError:
            return ''
        t = re.sub(r'/\*.*?\*/', '', t, flags=re.S)
        return re.sub(r'//[^\n]*', '', t)
    cs, ba = rd('src', 'cache_storage.cpp'), rd('private', 'buddy_allocator.h')
    txt = ('// generated by checks/C08.py (_guards_tu) from src/cache_storage.cpp and private/buddy_allocator.h -- do not edit\n'
           '#include <stddef.h>\nstatic_assert(sizeof(size_t)==8 && sizeof(long)==8 && sizeof(void*)==8,"LP64");\n'
           'static const size_t alignment = 16;   // buddy_allocator::alignment on LP64, compared with the real value by `bud consts`\n'
           'static const int page_in_use = 0x100; // compared by `bud consts`\n')
    body = _body_after(cs, r'void\s+check_limits\s*\(\s*\)\s*\{') or ''
    m = re.search(r'while\s*\((.*?)\)\s*\{', body, re.S)
    if m and m.group(1).count('not_enough_memory()') == 1:
        txt += 'bool c08_must_evict(size_t size,unsigned limit,bool nem)\n{\n\treturn %s;\n}\n' % m.group(1).replace('not_enough_memory()', 'nem')
    m = re.search(r'if\s*\(\s*!timeout\.empty\(\)\s*&&\s*timeout\.begin\(\)->first\s*([<>=!]+)\s*now\s*\)', body)
    if m:
        txt += 'bool c08_expired_first(bool nonempty,long first,long now)\n{\n\treturn nonempty && first%snow;\n}\n' % m.group(1)
    ps = _body_after(cs, r'struct\s+process_settings\s*\{') or ''
    m = re.search(r'static\s+bool\s+not_enough_memory\s*\(\s*\)\s*\{\s*return\s+(.*?);\s*\}', ps, re.S)
    if m and m.group(1).count('process_memory->max_available()') == 1 and m.group(1).count('process_memory->size()') == 1:
        txt += ('bool c08_not_enough_memory(size_t max_available,size_t size)\n{\n\treturn %s;\n}\n'
                % m.group(1).replace('process_memory->max_available()', 'max_available').replace('process_memory->size()', 'size'))
    m = re.search(r'static\s+size_t\s+size_limit\s*\(\s*\)\s*\{\s*return\s+(.*?);\s*\}', ps, re.S)
    if m and m.group(1).count('process_memory->size()') == 1:
        txt += 'size_t c08_size_limit(size_t size)\n{\n\treturn %s;\n}\n' % m.group(1).replace('process_memory->size()', 'size')
    mb = _body_after(ba, r'void\s*\*\s*malloc\s*\(\s*size_t\s+required_size\s*\)\s*\{') or ''
    m = re.search(r'size_t\s+n\s*=\s*(.*?);', mb, re.S)
    if m:
        txt += 'size_t c08_malloc_size(size_t required_size)\n{\n\treturn %s;\n}\n' % m.group(1)
    gb = _body_after(ba, r'page\s*\*\s*get_buddy\s*\(\s*page\s*\*\s*p\s*\)\s*\{') or ''
    m1 = re.search(r'size_t\s+p_len\s*=\s*(.*?);', gb, re.S)
    m2 = re.search(r'size_t\s+b_ptr\s*=\s*(.*?);', gb, re.S)
    m3 = re.search(r'if\s*\((.*?)\)\s*return\s+0\s*;', gb, re.S)
    if m1 and m2 and m3 and m1.group(1).count('p->bits') == 1:
        txt += ('long c08_get_buddy(size_t p_ptr,int bits,size_t memory_size_)\n{\n\tsize_t p_len = %s;\n\tsize_t b_ptr = %s;\n\tif(%s)\n\t\treturn -1;\n'
                '\treturn (long)b_ptr;\n}\n' % (m1.group(1).replace('p->bits', 'bits').replace('size_t(1)', '(size_t)1'), m2.group(1), m3.group(1)))
    fp = _body_after(ba, r'void\s+free_page\s*\(\s*page\s*\*\s*p\s*\)\s*\{') or ''
    m = re.search(r'if\s*\(\s*(buddy\s*!=\s*0\s*&&\s*buddy->bits\s*[<>=!]+\s*bits[^)]*)\)\s*\{', fp)
    if m:
        txt += ('bool c08_merge(bool has_buddy,int buddy_bits,int bits)\n{\n\treturn %s;\n}\n'
                % re.sub(r'buddy\s*!=\s*0', 'has_buddy', m.group(1)).replace('buddy->bits', 'buddy_bits'))
    m = re.search(r'p->bits\s*=\s*(\(bits\+1\)\s*\+\s*page_in_use)\s*;', fp)
    if m:
        txt += 'int c08_merged_bits(int bits)\n{\n\treturn %s;\n}\n' % m.group(1)
    pa = _body_after(ba, r'page\s*\*\s*page_alloc\s*\(\s*int\s+bit_size\s*\)\s*\{') or ''
    m = re.search(r'if\s*\((bit_size\s*[<>=!]+\s*max_bit_size_)\)\s*\{', pa)
    if m:
        txt += 'bool c08_too_big(int bit_size,int max_bit_size_)\n{\n\treturn %s;\n}\n' % m.group(1)
    m = re.search(r'unused\s*=\s*reinterpret_cast<page\s*\*>\(reinterpret_cast<char\s*\*>\(to_split\)\s*\+\s*(\(size_t\(1\)<<bit_size\))\)', pa)
    if m:
        txt += 'size_t c08_split_offset(size_t to_split,int bit_size)\n{\n\treturn to_split + %s;\n}\n' % m.group(1).replace('size_t(1)', '(size_t)1')
    ta = _body_after(ba, r'size_t\s+total_free_at\s*\(\s*int\s+bits\s*\)\s*\{') or ''
    m = re.search(r'return\s+(count\s*\*.*?);', ta, re.S)
    if m:
        txt += 'size_t c08_total_free_at(size_t count,int bits)\n{\n\treturn %s;\n}\n' % m.group(1).replace('size_t(1)', '(size_t)1')
    hm = rd('private', 'hash_map.h')
    m = re.search(r'size_t\s+next_size\s*\(\s*\)\s*\{\s*return\s+(.*?);\s*\}', hm, re.S)
    if m:
        txt += 'size_t c08_next_size(size_t size_)\n{\n\treturn %s;\n}\n' % m.group(1)
    rn = _body_after(hm, r'void\s+rehash_if_needed\s*\(\s*\)\s*\{') or ''
    m = re.search(r'if\s*\((size_\s*\+\s*1\s*[<>=!]+\s*table_size)\)\s*\{', rn)
    if m:
        txt += 'bool c08_rehash_needed(size_t size_,size_t table_size)\n{\n\treturn %s;\n}\n' % m.group(1)
    vlib.write_if_changed(out, txt)
    return out


GEN = {
    'Gen_C08_guards': dict(src=_guards_tu(), incs=[], functions=[
        ('c08_must_evict', 'g_c08_must_evict'), ('c08_expired_first', 'g_c08_expired_first'),
        ('c08_not_enough_memory', 'g_c08_not_enough_memory'), ('c08_size_limit', 'g_c08_size_limit'),
        ('c08_malloc_size', 'g_c08_malloc_size'), ('c08_get_buddy', 'g_c08_get_buddy'), ('c08_merge', 'g_c08_merge'),
        ('c08_merged_bits', 'g_c08_merged_bits'), ('c08_too_big', 'g_c08_too_big'), ('c08_split_offset', 'g_c08_split_offset'),
        ('c08_total_free_at', 'g_c08_total_free_at'), ('c08_next_size', 'g_c08_next_size'), ('c08_rehash_needed', 'g_c08_rehash_needed')], consts=[('alignment', 'g_c08_alignment'), ('page_in_use', 'g_c08_page_in_use')]),
}

T0 = 1000
INFTY = 0x7FFFFFFFFFFFFFFF - 3600 * 24
SELF = 544          # sizeof(buddy_allocator), compared with the real value on every run


# --------------------------------------------------------------------------------------------
# token helpers (syntax of harness/C08_cache.cpp)
# --------------------------------------------------------------------------------------------
def hx(b):
    return b.hex() if b else '-'


def trig_tok(ts):
    ts = list(ts)
    return '+'.join(hx(t) for t in ts) if ts else '.'


def S(k, v, ts, d, g=None):
    vt = v if isinstance(v, str) else hx(v)
    return 'S:%s:%s:%s:%d:%s' % (hx(k), vt, trig_tok(ts), d, '-' if g is None else str(g))


def F(k):
    return 'F:' + hx(k)


def R(t):
    return 'R:' + hx(t)


def D(k):
    return 'D:' + hx(k)


def T(n):
    return 'T:%d' % n


_valcache = {}


def value_bytes(tok):
    if tok.startswith('#'):
        ln, pre = tok[1:].split('x')
        b = b'' if pre == '-' else bytes.fromhex(pre)
        return b + b'v' * (int(ln) - len(b))
    return b'' if tok == '-' else bytes.fromhex(tok)


def valtok_of(tok):
    """the token the harness prints for the value written as `tok` in the case"""
    r = _valcache.get(tok)
    if r is None:
        if tok.startswith('#'):
            ln, pre = tok[1:].split('x')
            ln = int(ln)
            b = b'' if pre == '-' else bytes.fromhex(pre)
            ln = max(ln, len(b))
            head = (b + b'v' * 32)[:32] if ln >= 32 else b + b'v' * (ln - len(b))
            odd = sum(1 for c in b[32:] if c != 118)
        else:
            b = b'' if tok == '-' else bytes.fromhex(tok)
            ln, head, odd = len(b), b[:32], sum(1 for c in b[32:] if c != 118)
        if ln <= 32:
            r = hx(head)
        else:
            h = 0xcbf29ce484222325
            for c in head:
                h = ((h ^ c) * 0x100000001b3) & 0xFFFFFFFFFFFFFFFF
            r = '#%d.%016x.%d' % (ln, h, odd)
        if len(_valcache) < 200000:
            _valcache[tok] = r
    return r


# --------------------------------------------------------------------------------------------
# the property as a history interpreter (written from the property text, not from the code):
# every entry remembers the number of the operation that last stored or hit it; when room must be made the entry
# with the smallest passed deadline goes (earliest stored first among equals), else the one with the oldest use.
# --------------------------------------------------------------------------------------------
class Hist:
    __slots__ = ('limit', 'e', 'gen', 'gen_known')

    def __init__(self, limit):
        self.limit = limit
        self.e = {}              # key -> [valtok, trigger tuple (sorted), deadline, generation|None, use stamp, store stamp]
        self.gen = 0
        self.gen_known = True

    def copy(self):
        h = Hist(self.limit)
        h.e = {k: list(v) for k, v in self.e.items()}
        h.gen = self.gen
        h.gen_known = self.gen_known
        return h

    def victim(self, now):
        exp = [(v[2], v[5], k) for k, v in self.e.items() if v[2] < now]
        if exp:
            return min(exp)[2]
        return min((v[4], k) for k, v in self.e.items())[1]

    def stats(self):
        return len(self.e), sum(len(v[1]) for v in self.e.values())

    def lru(self):
        return [k for _, k in sorted(((-v[4], k) for k, v in self.e.items()))]

    def timeouts(self):
        return [(v[2], k) for _, _, k, v in sorted((v[2], v[5], k, v) for k, v in self.e.items())]

    def key(self):
        return (tuple(sorted((k, tuple(v[:3]), v[4], v[5]) for k, v in self.e.items())), self.gen if self.gen_known else -1)

    def insert(self, k, vt, ts, d, g, stamp):
        if g is None:
            g = self.gen if self.gen_known else None
            self.gen += 1
        self.e[k] = [vt, tuple(sorted(set(ts) | {k})), d, g, stamp, stamp]

    def rise(self, t):
        for k in [k for k, v in self.e.items() if t in v[1]]:
            del self.e[k]


def store_successors(h, now, stamp, k, vt, ts, d, g, pressure):
    """states the property allows after store(k): exactly one without memory pressure"""
    base = h.copy()
    base.e.pop(k, None)
    n1 = len(base.e)
    jmin = max(0, n1 - h.limit + 1) if h.limit > 0 else 0
    out = []
    js = range(jmin, n1 + 1) if pressure else [jmin]
    cur = base.copy()
    evicted = 0
    for j in js:
        while evicted < j:
            del cur.e[cur.victim(now)]
            evicted += 1
        c = cur.copy()
        c.insert(k, vt, ts, d, g, stamp)
        out.append(c)
    if pressure:
        # value copy failed (the catch block of mem_cache::store removes the key, /repo 6978548) or the store was dropped
        # after the old entry was deleted: the key is absent, nothing else changed.  "Nothing happened" (the superseded
        # entry still cached) is NOT an allowed outcome.
        b = base.copy()
        c = Hist(h.limit); c.gen = h.gen; c.gen_known = False   # bad_alloc inside: everything cleared, counter may have moved
        out += [b, c]
    return out


def parse_case(case):
    c = case.split()
    return c[0], c[1], int(c[2]), int(c[3]), c[4:]


def oracle_seq(case, out):
    mode, backend, limit, t0, ops = parse_case(case)
    if out.startswith('<') or 'exception' in out or '<crash' in out:
        return ('cache-crash', 'harness/child died or threw: ' + out[:300])
    toks = out.split(' ') if out else []
    if len(toks) != len(ops) + 1 or not toks[-1].startswith('X:'):
        return ('bad-output', 'answer has %d tokens for %d ops: %s' % (len(toks), len(ops), out[:200]))
    pressure = backend.startswith('P')
    now = t0
    states = [Hist(limit)]
    for i, (o, a) in enumerate(zip(ops, toks)):
        f = o.split(':')
        af = a.split(':')
        tag = f[0]
        try:
            ks, tsn = [int(x) for x in af[-2].split('/')]
        except (ValueError, IndexError):
            return ('bad-output', 'no stats in token ' + a[:100])
        lru_obs = [] if af[-1] == '.' else af[-1].split(',')
        where = 'op %d (%s) answered %s' % (i, o[:80], a[:200])
        if limit > 0 and (ks > limit or len(lru_obs) > limit):
            return ('limit-exceeded', 'the cache holds %d entries (recency list %d) with limit %d after %s' % (ks, len(lru_obs), limit, where))
        succ = []
        for h in states:
            if tag == 'S':
                ts = [] if f[3] == '.' else f[3].split('+')
                g = None if f[5] == '-' else int(f[5])
                if pressure:
                    succ += store_successors(h, now, i, f[1], valtok_of(f[2]), ts, int(f[4]), g, True)
                else:
                    # the one state the rule allows (in place: there is a single candidate)
                    h.e.pop(f[1], None)
                    if h.limit > 0:
                        while len(h.e) >= h.limit:
                            del h.e[h.victim(now)]
                    h.insert(f[1], valtok_of(f[2]), ts, int(f[4]), g, i)
                    succ.append(h)
            elif tag == 'F':
                c = h.copy() if pressure else h
                e = c.e.get(f[1])
                if e is not None and e[2] >= now:
                    e[4] = i
                succ.append(c)
            elif tag == 'R':
                c = h.copy() if pressure else h
                c.rise(f[1]); succ.append(c)
            elif tag == 'D':
                c = h.copy() if pressure else h
                c.e.pop(f[1], None); succ.append(c)
            elif tag == 'C':
                c = h.copy() if pressure else h
                c.e = {}; succ.append(c)
            elif tag == 'T':
                succ.append(h)
            else:
                return ('bad-output', 'unknown op ' + o[:40])
        if tag == 'T':
            now = int(f[1])
        ok = []
        seen = set()
        first_reason = None
        for c in succ:
            reason = None
            exp_stats = c.stats()
            exp_lru = c.lru()
            if tag == 'F':
                # the answer itself: judged against the state BEFORE the use stamp moved (same entry)
                e = c.e.get(f[1])
                hit = e is not None and e[2] >= now
                if af[0] == 'h':
                    if len(af) != 7:
                        return ('bad-output', 'malformed hit token ' + a[:200])
                    if e is None:
                        reason = ('hit-of-absent-entry', 'fetch hit for a key the history says is not held (never stored, removed, cleared, '
                                  'invalidated, or evicted under the rule): ' + where)
                    elif not hit:
                        reason = ('hit-after-deadline', 'fetch hit although the deadline %d is before now=%d: %s' % (e[2], now, where))
                    elif af[1] != e[0]:
                        reason = ('hit-wrong-value', 'hit returned a value that is not the one of the latest store: ' + where)
                    elif af[2] != '+'.join(e[1]):
                        reason = ('hit-wrong-triggers', 'hit returned trigger set %s, latest store has %s: %s' % (af[2], '+'.join(e[1]), where))
                    elif int(af[3]) != e[2]:
                        reason = ('hit-wrong-deadline', 'hit returned deadline %s, latest store has %d: %s' % (af[3], e[2], where))
                    elif e[3] is not None and int(af[4]) != e[3]:
                        reason = ('hit-wrong-generation', 'hit returned generation %s, latest store has %d: %s' % (af[4], e[3], where))
                elif af[0] == 'm':
                    if hit:
                        reason = ('miss-of-held-entry', 'fetch missed a live entry that must still be held under the eviction rule '
                                  '(a different entry should have been the victim): ' + where)
                else:
                    return ('bad-output', 'unexpected token %s for fetch' % a[:100])
            if reason is None and (ks, tsn) != exp_stats:
                reason = ('stats-wrong', 'stats after %s are %d/%d, the history implies %d/%d under the rule' % (where, ks, tsn, exp_stats[0], exp_stats[1]))
            if reason is None and sorted(lru_obs) != sorted(exp_lru):
                gone = sorted(set(exp_lru) - set(lru_obs))
                kept = sorted(set(lru_obs) - set(exp_lru))
                reason = ('wrong-victim', 'after %s the cache holds %s but the rule (expired with earliest deadline first, else least recently '
                          'stored-or-hit) keeps %s: it dropped %s and kept %s' % (where, ','.join(lru_obs) or '.', ','.join(exp_lru) or '.',
                                                                                   ','.join(gone) or '-', ','.join(kept) or '-'))
            if reason is None and lru_obs != exp_lru:
                reason = ('recency-order-wrong', 'recency list after %s is %s, the history (most recent store or hit first) gives %s'
                          % (where, ','.join(lru_obs), ','.join(exp_lru)))
            if reason is None:
                if not pressure:
                    ok.append(c)
                else:
                    kk = c.key()
                    if kk not in seen:
                        seen.add(kk)
                        ok.append(c)
            elif first_reason is None:
                first_reason = reason
        if not ok:
            return first_reason
        states = ok[:8]
    # final token: timeout index, index consistency, memory after a final clear()
    xf = toks[-1].split(':')
    h = states[0]
    exp_t = ','.join('%d=%s' % (d, k) for d, k in h.timeouts()) or '-'
    if len(xf) < 3:
        return ('bad-output', 'malformed final token ' + toks[-1][:200])
    if not pressure and xf[1] != exp_t:
        return ('timeout-index-wrong', 'timeout index is %s, the history gives %s (sorted by deadline, equal deadlines in store order)' % (xf[1][:300], exp_t[:300]))
    if xf[2] != 'ok':
        return ('index-inconsistent', 'the four indexes / counters of the real cache object disagree: ' + xf[2][:200])
    if len(xf) > 3:
        try:
            u0, u1 = [int(x) for x in xf[3][1:].split('/')]
        except ValueError:
            return ('bad-output', 'malformed memory field ' + xf[3][:100])
        if u0 < 0 or u1 < 0:
            return ('allocator-headers-broken', 'the page headers of the shared segment no longer tile it (used0=%d used1=%d)' % (u0, u1))
        if u1 != u0:
            return ('memory-not-released', 'after the history and a final clear() %d bytes of the shared segment are in use, %d were after construction' % (u1, u0))
    return None


# --------------------------------------------------------------------------------------------
# fill / read back / empty cycles
# --------------------------------------------------------------------------------------------
def oracle_cyc(case, out):
    c = case.split()
    backend, limit, vsz, n, cycles, how = c[1], int(c[2]), int(c[3]), int(c[4]), int(c[5]), c[7]
    if out.startswith('<') or 'exception' in out or '<crash' in out:
        return ('cache-crash', 'harness/child died or threw: ' + out[:300])
    toks = out.split(' ')
    try:
        a0, m0 = [int(x) for x in toks[0][2:].split('/')]
        rows = [[int(x) for x in t.split('/')] for t in toks[1:]]
    except ValueError:
        return ('bad-output', out[:200])
    if not toks[0].startswith('I:') or len(rows) != cycles or any(len(r) != 8 for r in rows):
        return ('bad-output', out[:200])
    if a0 == 1:
        return ('allocator-headers-broken', 'page headers do not tile the segment after construction')
    seg = 0 if backend == 't' else int(backend[1:]) * 1024
    roomy = backend == 't' or n * (vsz + 400) * 2 < seg // 8
    by_how = {}
    for cy, (keys, trg, hits, bad, k2, t2, a, m) in enumerate(rows):
        h = 'crd'[cy % 3] if how == 'm' else how
        where = 'cycle %d of `%s`: %s' % (cy, case, toks[1 + cy])
        if bad:
            return ('readback-wrong-value', '%d fetched values differ from what was stored in %s' % (bad, where))
        if limit > 0 and keys > limit:
            return ('limit-exceeded', 'cache reports %d keys with limit %d in %s' % (keys, limit, where))
        if hits != keys:
            return ('held-entries-not-found', '%d keys reported but %d of the stored keys can be fetched in %s' % (keys, hits, where))
        if roomy:
            want = min(n, limit) if limit > 0 else n
            if keys != want:
                return ('stats-wrong', 'after %d stores with limit %d the cache reports %d keys, %d expected in %s' % (n, limit, keys, want, where))
            wtr = sum(3 if i % 2 else 2 for i in range(n - want, n))
            if trg != wtr:
                return ('stats-wrong', 'trigger count %d, expected %d in %s' % (trg, wtr, where))
        if k2 or t2:
            return ('not-empty-after-emptying', 'stats are %d/%d after emptying in %s' % (k2, t2, where))
        if a == 1:
            return ('allocator-headers-broken', 'page headers do not tile the segment in ' + where)
        if h == 'c' and a != a0:
            return ('memory-not-released', 'after clear() %d bytes are in use, %d were before the first fill (%s)' % (-a, -a0, where))
        if h in by_how and by_how[h] != a:
            return ('memory-not-released', 'memory in use after emptying changes from cycle to cycle (%d then %d bytes) in %s' % (-by_how[h], -a, where))
        by_how.setdefault(h, a)
        if abs(a - a0) > 64 * (n + limit) + 8192:
            return ('memory-not-released', 'after emptying %d bytes are in use, %d were before the first fill (%s)' % (-a, -a0, where))
    return None


# --------------------------------------------------------------------------------------------
# buddy allocator: the property on the real allocator's answers alone
# --------------------------------------------------------------------------------------------
def chunks_of(msize):
    """initial pages: binary decomposition of the usable size, orders >= 5"""
    rem = msize - SELF
    pos = 0
    out = []
    while rem >= 32:
        b = rem.bit_length() - 1
        out.append((pos, b))
        pos += 1 << b
        rem -= 1 << b
    return out


def need_bits(size):
    n = ((size + 15) // 16 + 1) * 16
    return (n - 1).bit_length()


def oracle_bud(case, out):
    c = case.split()
    if c[1] == 'consts':
        return None if out == '4 16 256 %d 24' % SELF else ('allocator-constants-changed', out[:100])
    msize = int(c[1])
    ops = c[2:]
    if out.startswith('<') or out == '':
        return ('allocator-crash', out[:200])
    toks = out.split(' ')
    if len(toks) != len(ops) + 3:
        return ('allocator-crash', 'answer has %d tokens for %d ops: %s' % (len(toks), len(ops), out[:200]))
    usable = msize - SELF
    init = chunks_of(msize)
    init_total = sum((1 << b) - 16 for _, b in init)
    init_hb = init[0][1] if init else -1
    init_max = (1 << init_hb) - 16 if init else 0
    hb = init_hb
    slots = []
    live = {}                # slot -> (page offset, bits, size)
    for i, (o, a) in enumerate(zip(ops, toks)):
        af = a.split(':')
        try:
            total, mx, nhb = int(af[1]), int(af[2]), int(af[3])
        except (ValueError, IndexError):
            return ('allocator-crash', 'malformed token %s' % a[:80])
        where = 'op %d (%s) of `%s` answered %s' % (i, o, case[:200], a)
        if o[0] == 'm':
            size = int(o[1:])
            nb = need_bits(size)
            if af[0] == '-':
                slots.append(None)
                if nb <= hb:
                    return ('malloc-failed-with-room', 'malloc(%d) needs a 2^%d page and a free 2^%d page exists, but it returned null: %s' % (size, nb, hb, where))
            else:
                off = int(af[0])
                po = off - 16
                if po < 0 or po % (1 << nb) != 0 and nb < 64:
                    return ('malloc-misaligned', 'malloc(%d) returned offset %d: its 2^%d page is not aligned (%s)' % (size, off, nb, where))
                if po + (1 << nb) > usable or off + size > usable:
                    return ('malloc-outside-region', 'malloc(%d) returned offset %d, page end %d beyond the usable %d bytes (%s)' % (size, off, po + (1 << nb), usable, where))
                if (1 << nb) - 16 < size:
                    return ('malloc-too-small', where)
                for s2, (p2, b2, _) in live.items():
                    if po < p2 + (1 << b2) and p2 < po + (1 << nb):
                        return ('malloc-overlaps-live-block', 'malloc(%d) returned page [%d,%d) which overlaps the live block of slot %d at [%d,%d): %s'
                                % (size, po, po + (1 << nb), s2, p2, p2 + (1 << b2), where))
                if nb > hb:
                    return ('malloc-from-nowhere', 'malloc(%d) succeeded although no free page of order >= %d existed: %s' % (size, nb, where))
                live[len(slots)] = (po, nb, size)
                slots.append(off)
        elif o[0] == 'f':
            live.pop(int(o[1:]), None)
        elif o in ('A', 'Z'):
            live.clear()
        if not live:
            if total != init_total or mx != init_max or nhb != init_hb:
                return ('free-all-does-not-restore', 'no block is live but total_free_memory/max_free_chunk/highest order are %d/%d/%d, initially %d/%d/%d: %s'
                        % (total, mx, nhb, init_total, init_max, init_hb, where))
        else:
            used = sum(1 << b for _, b, _ in live.values())
            region = sum(1 << b for _, b in init)
            if total > region - used - (16 if region > used else 0):
                return ('free-memory-exceeds-region', 'total_free_memory %d with %d of %d bytes in live pages: %s' % (total, used, region, where))
        hb = nhb
    ft, pt, tt = toks[-3], toks[-2], toks[-1]
    if tt != 'T:ok':
        return ('allocator-self-check-failed', 'byte patterns / the repo test_consistent() / header walk report %s for `%s`' % (tt[:200], case[:300]))
    # final dump: the headers tile the region, used pages are exactly the live blocks, free pages are exactly the free lists, no free buddies
    pages = []
    if pt != 'P:-':
        for x in pt[2:].split(','):
            o_, r = x.split('.')
            pages.append((int(o_), int(r[:-1]), r[-1]))
    pos = 0
    for o_, b, u in pages:
        if o_ != pos or o_ % (1 << b) != 0:
            return ('tiling-broken', 'page headers do not tile the region with aligned pages at offset %d: %s' % (o_, pt[:300]))
        pos += 1 << b
    if usable - pos >= 32 or pos > usable:
        return ('tiling-broken', 'pages cover %d of %d usable bytes: %s' % (pos, usable, pt[:300]))
    usedp = sorted((o_, b) for o_, b, u in pages if u == 'u')
    if usedp != sorted((p, b) for p, b, _ in live.values()):
        return ('used-pages-differ-from-live-blocks', 'in-use pages %s, live blocks %s' % (usedp[:20], sorted((p, b) for p, b, _ in live.values())[:20]))
    freep = sorted((o_, b) for o_, b, u in pages if u == 'f')
    fl = []
    if ft != 'F:-':
        for grp in ft[2:].split(';'):
            b, lst = grp.split('=')
            fl += [(int(x), int(b)) for x in lst.split(',')]
    if sorted(fl) != freep:
        return ('free-lists-differ-from-free-pages', 'free lists %s, free pages in the header walk %s' % (sorted(fl)[:20], freep[:20]))
    fs = set(freep)
    for o_, b in freep:
        bo = o_ ^ (1 << b)
        if bo + (1 << b) <= usable and (bo, b) in fs:
            return ('free-buddies-coexist', 'pages %d and %d of order %d are both free and not merged' % (min(o_, bo), max(o_, bo), b))
    if not live and freep != sorted(init):
        return ('free-all-does-not-restore', 'no block is live but the free pages are %s, initially %s' % (freep[:20], sorted(init)[:20]))
    return None


# --------------------------------------------------------------------------------------------
# allocator exhaustion inside insertions: the conservation clause on the real cache + real buddy allocator
# ("memory of removed entries is released; a process-shared cache can be filled, emptied and refilled indefinitely")
# --------------------------------------------------------------------------------------------
def oracle_exh(case, out):
    c = case.split()
    if c[1:] == ['consts']:
        return None if out == '15 232 136 80 24 32 48 16' else ('layout-constants-changed', 'sizes of the cache object / index nodes differ from coq/C08/ResDefs.v: ' + out[:100])
    kib, limit, pct, steps = int(c[1]), int(c[2]), int(c[4]), c[5:]
    if out.startswith('<') or 'exception' in out or '<crash' in out:
        return ('cache-crash', 'harness/child died or threw: ' + out[:300])
    toks = out.split(' ')
    if len(toks) != len(steps) or 'BAD-STEP' in toks:
        return ('bad-output', 'answer has %d tokens for %d steps: %s' % (len(toks), len(steps), out[:200]))
    seg = kib * 1024
    base = None
    hogged = False
    cleared = True          # nothing was stored since construction / the last clear()
    clears = 2              # consecutive clear() calls (the second one moves the hash vectors of a limited cache back to small pages)
    last_empty = 'construction'
    for i, (st, a) in enumerate(zip(steps, toks)):
        where = 'step %d (%s) answered %s' % (i, st, a[:160])
        f = st.split(':')
        if st == 'M':
            m = a.split(':')
            try:
                ks, tr = [int(x) for x in m[1].split('/')]
                used, total, mx, pages, flags = int(m[2]), int(m[3]), int(m[4]), m[5], m[6]
            except (ValueError, IndexError):
                return ('bad-output', 'malformed measure token ' + a[:200])
            if 'tiling' in flags:
                return ('allocator-headers-broken', 'the page headers of the shared segment no longer tile it: ' + where)
            if 'lists' in flags:
                return ('free-lists-differ-from-free-pages', 'the free lists of the shared segment are not the free pages found by the header walk: ' + where)
            if 'buddies' in flags:
                return ('free-buddies-coexist', 'two free buddy pages of the same order are not merged in the shared segment: ' + where)
            if 'index-' in flags:
                return ('index-inconsistent', 'the four indexes / counters of the real cache object disagree: ' + where)
            if limit > 0 and ks > limit:
                return ('limit-exceeded', 'cache reports %d keys with limit %d: %s' % (ks, limit, where))
            if base is None:
                base = (used, total, mx, pages)
                if i != 0:
                    return ('bad-output', 'first step must be M')
                continue
            if ks == 0 and tr == 0 and not hogged and cleared:
                if used != base[0]:
                    return ('memory-not-released', 'the cache is empty after %s (no other tenant in the segment) but %d bytes of the shared segment are in '
                            'in-use pages, %d were after construction: an allocator block was orphaned (%s; fresh free pages %s)'
                            % (last_empty, used, base[0], where, base[3][:200]))
                # with a limit nl_clear() allocates the new hash vector of `primary` (limit ranges) while the trigger index still occupies
                # the segment: the vector may legitimately land in another page than at construction, so only the byte count is exact
                if limit == 0 and (mx != base[2] or total != base[1]):
                    return ('memory-not-released', 'the cache is empty after %s but total_free_memory/max_free_chunk are %d/%d, %d/%d after construction (%s)'
                            % (last_empty, total, mx, base[1], base[2], where))
                if limit == 0 and pages != base[3]:
                    return ('memory-not-released', 'the cache is empty after %s but the free pages of the segment differ from those after construction: %s (fresh: %s)'
                            % (last_empty, where, base[3][:300]))
        elif st[0] == 'H':
            hogged = True
        elif st == 'U':
            hogged = False
        elif st[0] == 'S':
            if a.startswith('s!'):
                # since /repo a6386b3 nl_clear() releases every container before it re-creates the bucket vectors: std::bad_alloc can leave
                # store() only when even the emptied cache can not get a bucket vector (a second tenant holds the segment), and then the
                # cache is empty and consistent
                if not hogged:
                    return ('exception-escapes-store', 'std::bad_alloc came out of store() although the cache has the segment for itself: nl_clear() could '
                            'not re-create a bucket vector after an exhaustion (regression of /repo a6386b3: the vectors must be re-created after all '
                            'four containers have given their memory back) - limit %d, %s' % (limit, where))
                if a != 's!0/0':
                    return ('stale-indexes-after-failed-clear', 'std::bad_alloc left store() with the counters / indexes not reset (%s): nl_clear() must empty '
                            'all four containers and zero the counters before it allocates (regression of /repo a6386b3) - %s' % (a, where))
                cleared = False
                continue
            try:
                ks, tr = [int(x) for x in a[1:].split('/')]
            except ValueError:
                return ('bad-output', 'malformed store token ' + a[:100])
            if limit > 0 and ks > limit:
                return ('limit-exceeded', 'cache reports %d keys with limit %d: %s' % (ks, limit, where))
            klen, vlen, nt = int(f[1]), int(f[2]), int(f[3])
            thi = int(f[4].split('-')[-1])
            foot = klen + vlen + (nt + 1) * (2 * thi + 600) + 4096
            if cleared and not hogged and foot < seg // 16 and (ks, tr) != (1, nt + 1):
                return ('refill-refused', 'a store of about %d bytes into the EMPTY cache (after %s, no other tenant, %d KiB segment) left stats %d/%d, '
                        'expected 1/%d: %s' % (foot, last_empty, kib, ks, tr, nt + 1, where))
            cleared = False
        elif st[0] == 'F':
            if a == 'h0':
                return ('readback-wrong-value', 'fetch returned other bytes than were stored: ' + where)
            if a not in ('h1', 'm'):
                return ('bad-output', 'unexpected fetch token ' + a[:100])
        elif st[0] in 'DR':
            cleared = False
        elif st == 'C':
            if a.startswith('c!'):
                if not hogged:
                    return ('exception-escapes-clear', 'std::bad_alloc came out of clear() although the cache has the segment for itself '
                            '(regression of /repo a6386b3) - limit %d, %s' % (limit, where))
                if a != 'c!0/0':
                    return ('stale-indexes-after-failed-clear', 'clear() threw and left the counters / indexes not reset (%s; regression of /repo a6386b3) - %s' % (a, where))
                cleared = False
                continue
            if a != 'c0/0':
                return ('not-empty-after-emptying', 'stats after clear(): ' + where)
            clears = clears + 1 if cleared else 1
            cleared = True
            last_empty = 'clear() at step %d' % i
        elif st == 'P':
            if a == 'PX':
                return ('readback-wrong-value', 'the probe value came back with other bytes: ' + where)
            # (a limited cache re-allocates its two hash vectors in nl_clear() before the old ones are freed: after an exhaustion they may
            # stay inside the largest page for good - bounded fragmentation, not a leak - so the large probe is judged for limit 0 only)
            if a == 'P0' and cleared and not hogged and limit == 0:
                return ('refill-refused', 'the cache is empty after %s and has the %d KiB segment for itself, but one value of %d%% of the segment '
                        '(it fits the largest page of a fresh segment) is refused: the memory of removed entries was not released / '
                        'can not coalesce (%s)' % (last_empty, kib, pct, where))
            if a not in ('P0', 'P1'):
                return ('bad-output', 'unexpected probe token ' + a[:100])
            cleared = False
        else:
            return ('bad-output', 'unknown step ' + st[:40])
    return None


def oracle_inj(case, out):
    """thread_shared cache, the k-th allocation of one store throws std::bad_alloc (k = 1..kmax): whatever the point of failure, the
    indexes stay consistent, the key is not served afterwards, and clear() brings the heap footprint back to that of an empty cache"""
    c = case.split()
    limit, nt, kmax, npre = int(c[1]), int(c[5]), int(c[7]), int(c[8])
    burst = 2 if c[0] == 'inj2' else 1
    if out.startswith('<') or 'exception' in out or '<crash' in out:
        return ('cache-crash', 'harness/child died or threw: ' + out[:300])
    toks = out.split(' ')
    if len(toks) != kmax and not (toks and toks[-1].split(':')[-1] != 'ok'):
        return ('bad-output', 'answer has %d tokens for kmax=%d: %s' % (len(toks), kmax, out[:200]))
    for k, a in enumerate(toks, 1):
        f = a.split(':')
        try:
            threw = f[1].startswith('!')
            fired, (ks, tr), fetched, delta, cons = int(f[0]), [int(x) for x in f[1].lstrip('!').split('/')], f[2], int(f[3]), f[4]
        except (ValueError, IndexError):
            return ('bad-output', 'malformed token ' + a[:100])
        where = 'allocation %d of the store fails in `%s`: answered %s' % (k, case, a)
        if threw and (burst < 2 or limit == 0):
            return ('exception-escapes-store', 'std::bad_alloc came out of store() although only one allocation failed: ' + where)
        if threw and (cons != 'ok' or (ks, tr) != (0, 0)):
            return ('stale-indexes-after-failed-clear', 'the allocation of the bucket vector inside the bad_alloc handler failed too; nl_clear() must have '
                    'emptied all four containers and zeroed the counters before (regression of /repo a6386b3), but stats are %d/%d, flags %s: %s'
                    % (ks, tr, cons[:100], where))
        if cons != 'ok':
            return ('index-inconsistent', 'the four indexes / counters of the real cache object disagree after a failed store (%s): %s' % (cons[:100], where))
        if delta != 0:
            return ('memory-not-released', 'after the failed store and clear() the heap footprint of the cache differs by %d bytes from that of the empty cache: '
                    'a block obtained during the store was neither kept in an index nor given back (%s)' % (delta, where))
        if limit > 0 and ks > limit:
            return ('limit-exceeded', where)
        if fetched == 'h0':
            return ('readback-wrong-value', where)
        if fired:
            if fetched != 'm':
                return ('hit-of-absent-entry', 'the store threw inside but the key is served: ' + where)
            if (ks, tr) not in ((0, 0), (npre, 2 * npre)):
                return ('stats-wrong', 'after a failed store the cache must be empty (cleared) or hold the %d earlier entries (value copy failed): %s' % (npre, where))
        else:
            want = npre + 1
            if (limit == 0 or want <= limit) and ((ks, tr) != (want, 2 * npre + nt + 1) or fetched != 'h1'):
                return ('stats-wrong', 'no allocation failed but the store did not go through (expected %d/%d and a hit): %s' % (want, 2 * npre + nt + 1, where))
    return None


def oracle_injf(case, out):
    """thread_shared cache holding A, B, C (stored in that order); the k-th allocation during fetch(A) throws"""
    c = case.split()
    kmax = int(c[5])
    if out.startswith('<') or 'exception' in out or '<crash' in out:
        return ('cache-crash', 'harness/child died or threw: ' + out[:300])
    toks = out.split(' ')
    for k, a in enumerate(toks, 1):
        f = a.split(':')
        if len(f) != 6:
            return ('bad-output', 'malformed token ' + a[:100])
        fired, threw, fetched, order, cons, delta = f[0] == '1', f[1] == '1', f[2], f[3], f[4], f[5]
        where = 'allocation %d of fetch fails in `%s`: answered %s' % (k, case, a)
        if cons != 'ok':
            if fired and threw and 'lru-length' in cons and order == 'CB':
                return ('fetch-loses-entry-from-recency-list',
                        'an allocation failed during fetch() and the entry is gone from the recency list, its stored iterator dangling (recency list %s, flags %s): '
                        'the recency update must not allocate (regression of /repo 117bb4c: lru.splice instead of erase + push_front) - %s' % (order, cons, where))
            return ('index-inconsistent', 'the indexes of the real cache object disagree after a failed fetch (%s): %s' % (cons[:100], where))
        if fetched == 'h0':
            return ('readback-wrong-value', where)
        # the recency update (one splice) comes before anything fetch allocates: A is in front whether or not copying out threw
        if order != 'ACB':
            return ('recency-order-wrong', 'recency list %s after fetch(A) on entries stored A, B, C: %s' % (order, where))
        if not fired and fetched != 'h1':
            return ('miss-of-held-entry', where)
        if delta != '0':
            return ('memory-not-released', 'heap footprint after clear() differs by %s bytes: %s' % (delta, where))
    if len(toks) != kmax and not (toks and toks[-1].split(':')[4] != 'ok'):
        return ('bad-output', 'answer has %d tokens for kmax=%d' % (len(toks), kmax))
    return None


def oracle(case, out):
    if case.startswith('seq '):
        return oracle_seq(case, out)
    if case.startswith('cyc '):
        return oracle_cyc(case, out)
    if case.startswith('bud '):
        return oracle_bud(case, out)
    if case.startswith('exh '):
        return oracle_exh(case, out)
    if case.startswith('inj ') or case.startswith('inj2 '):
        return oracle_inj(case, out)
    if case.startswith('injf '):
        return oracle_injf(case, out)
    return ('bad-output', 'unknown case kind')


# --------------------------------------------------------------------------------------------
# generators
# --------------------------------------------------------------------------------------------
def expand_ticks(seq):
    now = T0
    out = []
    for o in seq:
        if o == 'TICK':
            now += 1
            out.append(T(now))
        else:
            out.append(o)
    return out


def exhaustive_cases(backend, limits, length, nkeys, deadlines):
    """all sequences over: store of each key with each deadline, fetch of each key, clock tick"""
    keys = [bytes([97 + i]) for i in range(nkeys)]
    ops = [S(k, k, [], d) for k in keys for d in deadlines] + [F(k) for k in keys] + ['TICK']
    cases = []
    for seq in itertools.product(ops, repeat=length):
        if not seq[0].startswith('S') or seq[-1] == 'TICK':
            continue
        e = ' '.join(expand_ticks(seq))
        for lim in limits:
            cases.append('seq %s %d %d %s' % (backend, lim, T0, e))
    return cases


def random_seq(rng, limit, nkeys, ntrigs, length, vsz=None):
    # a third of the sequences use names longer than the 15-byte small-string buffer (16, 17, 40 bytes): copying such a key
    # into a freshly allocated index node allocates again
    pad = rng.choice([b'', b'', b'_' * 14, b'_' * 15, b'_' * 38])
    keys = [b'k%d' % i + pad for i in range(nkeys)]
    if rng.random() < 0.1:
        keys[0] = b''
    trigs = [b't%d' % i + pad for i in range(ntrigs)] + keys[:max(1, nkeys // 3)]
    now = T0
    ops = []
    pstore = rng.choice([0.35, 0.5, 0.65])
    pfetch = rng.choice([0.2, 0.35])
    # deadline regimes: all far (pure LRU), mixed around the clock (expired-first), many ties
    regime = rng.choice(['far', 'near', 'near', 'ties'])
    for _ in range(length):
        r = rng.random()
        if r < pstore:
            k = rng.choice(keys)
            nt = rng.choice([0, 0, 0, 1, 1, 2])
            ts = [rng.choice(trigs) for _ in range(nt)]
            if regime == 'far':
                d = now + rng.choice([50, 100, 1000]) if rng.random() < 0.9 else INFTY
            elif regime == 'ties':
                d = now + rng.choice([-1, 0, 1, 1, 2, 2])
            else:
                dr = rng.random()
                if dr < 0.7:
                    d = now + rng.choice([-2, -1, 0, 0, 1, 1, 2, 3, 5, 10])
                elif dr < 0.95:
                    d = now + rng.randrange(0, 30)
                else:
                    d = rng.choice([INFTY, 0, -1, -2 ** 62, 2 ** 63 - 1, now - 100])
            g = None
            if rng.random() < 0.1:
                g = rng.choice([0, 1, 7, 2 ** 32, 2 ** 64 - 1, rng.randrange(2 ** 64)])
            if vsz:
                v = '#%dx%s' % (rng.choice(vsz), hx(bytes([rng.randrange(256)]) + k))
            else:
                ln = rng.choice([0, 1, 2, 3, 8, 31, 32, 33, 100])
                v = '#%dx%s' % (ln, hx(bytes([rng.randrange(256)]))) if ln > 3 else bytes(rng.randrange(256) for _ in range(ln))
            ops.append(S(k, v, ts, d, g))
        elif r < pstore + pfetch:
            ops.append(F(rng.choice(keys)))
        elif r < pstore + pfetch + 0.05:
            ops.append(R(rng.choice(trigs)))
        elif r < pstore + pfetch + 0.09:
            ops.append(D(rng.choice(keys)))
        elif r < pstore + pfetch + 0.10:
            ops.append('C')
        else:
            now += rng.choice([1, 1, 1, 2, 3, 10])
            ops.append(T(now))
    return ops


def aimed_cases(backends):
    """the histories the property text talks about, for every limit 1..8"""
    cases = []
    for be in backends:
        for lim in range(1, 9):
            ks = [b'k%d' % i for i in range(lim + 3)]
            far = T0 + 100
            seqs = []
            # pure LRU by store order: limit+3 keys, then every key fetched
            seqs.append([S(k, k, [], far) for k in ks] + [F(k) for k in ks])
            # a fetch rescues the oldest entry: k0 is hit just before the cache overflows
            seqs.append([S(k, k, [], far) for k in ks[:lim]] + [F(ks[0]), S(ks[lim], b'x', [], far)] + [F(k) for k in ks[:lim + 1]])
            # a missed fetch (expired) must NOT refresh recency; the expired entry goes first although it was stored last
            seqs.append([S(k, k, [], far) for k in ks[:max(0, lim - 1)]] + [S(b'e', b'e', [], T0 + 1), T(T0 + 2), F(b'e'), S(b'n', b'n', [], far)]
                        + [F(b'e'), F(b'n')] + [F(k) for k in ks[:lim]])
            # two expired entries: the earlier deadline goes first; deadline == now is not expired
            seqs.append([S(b'a', b'a', [], T0 + 2), S(b'b', b'b', [], T0 + 1), S(b'c', b'c', [], T0 + 3)] + [S(k, k, [], far) for k in ks[:max(0, lim - 3)]]
                        + [T(T0 + 3), S(b'x', b'x', [], far), F(b'a'), F(b'b'), F(b'c'), S(b'y', b'y', [], far), F(b'a'), F(b'c'), S(b'z', b'z', [], far), F(b'c')])
            # equal deadlines: first stored goes first
            seqs.append([S(b'a', b'a', [], T0 + 1), S(b'b', b'b', [], T0 + 1), S(b'c', b'c', [], T0 + 1)] + [S(k, k, [], far) for k in ks[:max(0, lim - 3)]]
                        + [F(b'c'), F(b'a'), T(T0 + 5), S(b'x', b'x', [], far), S(b'y', b'y', [], far), F(b'a'), F(b'b'), F(b'c')])
            # re-store of a held key at the limit evicts nobody; re-store refreshes recency
            seqs.append([S(k, k, [], far) for k in ks[:lim]] + [S(ks[0], b'new', [], far)] + [F(k) for k in ks[:lim]] + [S(ks[lim], b'v', [], far)] + [F(k) for k in ks[:lim + 1]])
            # eviction updates the trigger index and counters: evicted entries carry triggers, rise afterwards
            seqs.append([S(k, k, [b'all', b'm%d' % (i % 2)], far) for i, k in enumerate(ks)] + [R(b'm0')] + [F(k) for k in ks] + [R(b'all'), S(ks[0], b'v', [b'all'], far), F(ks[0])])
            # fill, clear, refill, remove one by one, refill
            seqs.append([S(k, k, [b'all'], far) for k in ks] + ['C'] + [S(k, k, [b'all'], far) for k in ks] + [D(k) for k in ks] + [S(k, k, [], far) for k in ks] + [F(k) for k in ks])
            for s in seqs:
                cases.append('seq %s %d %d %s' % (be, lim, T0, ' '.join(s)))
    return cases


def cyc_cases(rng, n, thorough):
    cases = []
    segs = ['t', 'p512', 'p1024', 'p2048', 'p4096']
    fixed = [('p512', 8, 100, 20, 6, 'm'), ('t', 8, 100, 20, 6, 'm'), ('p512', 0, 1000, 60, 6, 'm'), ('p512', 4, 60000, 10, 6, 'm'),
             ('p512', 4, 200000, 3, 6, 'm'), ('p512', 4, 300000, 3, 4, 'c'), ('p512', 1, 0, 5, 6, 'm'), ('p1024', 3, 52428, 9, 6, 'm'),
             ('p4096', 8, 209715, 12, 6, 'm'), ('p512', 8, 26214, 12, 6, 'r'), ('p512', 8, 26215, 12, 6, 'd')]
    for be, lim, vsz, cnt, cyc, how in fixed:
        cases.append('cyc %s %d %d %d %d %d %s' % (be, lim, vsz, cnt, cyc, T0, how))
    for _ in range(n):
        be = rng.choice(segs)
        seg = 512 * 1024 if be == 't' else int(be[1:]) * 1024
        lim = rng.choice([0, 1, 2, 3, 4, 5, 6, 7, 8])
        vsz = rng.choice([0, 1, 15, 16, 17, 100, 1000, 5000, seg // 20 - 1, seg // 20, seg // 20 + 1, seg // 10, seg // 5, seg // 3, seg // 2, seg])
        cnt = rng.choice([lim + 1, lim + 3, 10, 25]) if vsz > 5000 else rng.choice([lim + 1, lim + 3, 20, 60])
        cyc = rng.choice([200, 200, 300]) if thorough and vsz <= 5000 else rng.choice([6, 9, 30]) if vsz <= 5000 else rng.choice([6, 9])
        cases.append('cyc %s %d %d %d %d %d %s' % (be, lim, vsz, max(1, cnt), cyc, T0, rng.choice('crdmm')))
    return cases


def exh_natural(rng, kib, limit, tspec, cycles, pct=40):
    """cycles of: one store whose trigger set is too large for the segment (bad_alloc lands somewhere inside the trigger-index
    insertions), clear(), accounting, refill probe"""
    steps = ['M']
    for cy in range(cycles):
        klen = rng.choice([3, 15, 16, 17, 24, 60, 200])
        vlen = rng.choice([0, 10, 15, 16, 100, 3000])
        nt = kib * 1024 // rng.choice([150, 100, 60])
        r = rng.random()
        if r < 0.25:
            # some ordinary entries first: the exhausting store then runs with a populated cache
            for j in range(rng.choice([1, 3, 6])):
                steps.append('S:%d:%d:%d:%s:%d' % (rng.choice([8, 20, 40]), rng.choice([5, 200]), rng.choice([0, 2, 5]), tspec, 1000 * cy + j + 500))
        steps.append('S:%d:%d:%d:%s:%d' % (klen, vlen, nt, tspec, cy))
        steps += (['C', 'M', 'P'] if limit == 0 else ['C', 'M', 'C', 'P']) if rng.random() < 0.8 else ['C', 'M']
        if rng.random() < 0.3:
            steps += ['C', 'S:%d:%d:%d:%s:%d' % (20, 50, 3, '20-30', 7000 + cy), 'F:20:50:%d' % (7000 + cy), 'C', 'M']
    steps += ['C', 'M', 'C', 'P']
    return 'exh %d %d %d %d %s' % (kib, limit, T0, pct, ' '.join(steps))


def exh_hog(rng, kib, limit, unit, stride, k0, k1, klen, vlen, nt, tspec, pct=40):
    """budget sweep: a second tenant holds the whole segment except <keep> blocks; one store with a long key and long trigger
    names then fails at a different allocation point for every budget (value copy, key copy, hash vector, primary node,
    key copy INSIDE the node, lru node, timeout node, trigger name, trigger node, name copy inside the node, the two list nodes)"""
    steps = ['M']
    for n, keep in enumerate(range(k0, k1)):
        steps.append('H%d:%d:%d' % (unit, keep, stride))
        steps.append('S:%d:%d:%d:%s:%d' % (klen, vlen, nt, tspec, keep))
        how = n % 4
        if how == 0:
            steps += ['U', 'C', 'M']
        elif how == 1:
            steps += ['C', 'U', 'M']
        elif how == 2:
            steps += ['F:%d:%d:%d' % (klen, vlen, keep), 'D:%d:%d' % (klen, keep), 'U', 'C', 'M']
        else:
            steps += ['U', 'R:%s:%d:%d' % (tspec, keep, 0), 'D:%d:%d' % (klen, keep), 'C', 'M', 'C', 'P']
    steps += ['C', 'M', 'C', 'P']
    return 'exh %d %d %d %d %s' % (kib, limit, T0, pct, ' '.join(steps))


def exh_cases(rng, thorough):
    cases = []
    # refill contrast on an undisturbed cache (the oracle's own expectations must hold there)
    cases.append('exh 512 0 %d 40 M S:20:5:2:20-20:1 M F:20:5:1 C M P C M S:40:100:6:16-90:2 F:40:100:2 D:40:2 C M P' % T0)
    tspecs = ['16-16', '17-40', '16-200', '100-100', '24-24', '16-31', '33-300']
    for kib in (512, 1024, 2048):
        for tspec in (tspecs if thorough else rng.sample(tspecs, 4)):
            # limits 16..400 were the input class of the repaired finding 1 (a6386b3): the oracle now demands a healthy cache there
            cases.append(exh_natural(rng, kib, rng.choice([0, 0, 0, 3, 8, 16, 64, 400]), tspec, 24 if thorough else 10))
    sweeps = [(48, 1), (48, 2), (100, 1), (100, 2), (100, 3), (230, 1), (230, 2), (500, 2), (16, 1), (48, 3)]
    for unit, stride in sweeps:
        for kib in ((512, 1024, 2048) if thorough else (512, rng.choice([1024, 2048]))):
            top = max(8, 3400 // (unit + 16)) if stride == 1 else 34
            klen = rng.choice([16, 20, 40, 100])
            nt = rng.choice([1, 2, 3])
            tspec = rng.choice(['16-16', '20-20', '18-60', '100-100', '40-40'])
            # with a limit nl_clear() allocates (rehash(limit)); with a second tenant holding the segment std::bad_alloc may then leave store() /
            # clear() - legitimately since a6386b3, provided the cache is empty and consistent afterwards (oracle: s!0/0, c!0/0)
            cases.append(exh_hog(rng, kib, rng.choice([0, 0, 4, 16]), unit, stride, 0, top, klen, rng.choice([0, 15, 16, 40]), nt, tspec))
    return cases


def exhm_cases(rng, thorough):
    """correspondence of the resource model (coq/C08/ResDefs.v over the buddy model) with the real cache + real allocator: the model
    must predict, for every budget the second tenant leaves, at which allocation the store gives up (stats after the store) and the
    exact page structure of the segment after the store, after giving the budget back and after clear().  Single-entry cycles and
    stores into an almost empty cache (the order in which delete_node / nl_clear release several blocks is not modelled: states are
    compared where the set of live blocks determines the page structure)."""
    cases = ['exh consts']
    sweeps = [(48, 1, 64), (48, 2, 40), (100, 1, 40), (100, 2, 40), (100, 3, 30), (230, 1, 24), (230, 2, 30), (16, 1, 80), (500, 1, 12), (40, 5, 40)]
    for unit, stride, top in sweeps:
        page = 1 << (((unit + 15) // 16 + 1) * 16 - 1).bit_length()
        sizes = [k for k in (8, 16, 32, 64, 128, 256, 512) if k * 1024 // page <= 320] or [8]
        for kib in (sizes if thorough else (sizes[0], sizes[-1])):
            for rep in range(3 if thorough else 1):
                klen = rng.choice([3, 15, 16, 17, 20, 40, 100])
                vlen = rng.choice([0, 15, 16, 40, 300])
                nt = rng.choice([0, 1, 2, 3, 5])
                tspec = rng.choice(['3-3', '15-16', '16-16', '20-20', '18-60', '100-100', '40-40'])
                steps = ['M']
                for n, keep in enumerate(range(0, top)):
                    steps += ['H%d:%d:%d' % (unit, keep, stride), 'S:%d:%d:%d:%s:%d' % (klen, vlen, nt, tspec, keep), 'M']
                    steps += [['F:%d:%d:%d' % (klen, vlen, keep), 'M', 'U', 'M', 'C', 'M'], ['C', 'M', 'U', 'M'],
                              ['F:%d:%d:%d' % (klen, vlen, keep), 'D:%d:%d' % (klen, keep), 'M', 'U', 'C', 'M'],
                              ['U', 'C', 'S:%d:%d:%d:%s:%d' % (klen, vlen, nt, tspec, keep), 'M', 'C', 'M']][n % 4]
                cases.append('exh %d 0 %d 40 %s' % (kib, T0, ' '.join(steps)))
    # oversized trigger sets on small segments (no second tenant), a few ordinary entries around them
    for kib in ((8, 16, 32, 64, 128) if thorough else (8, 16, 64)):
        for tspec in ('16-16', '17-40', '3-30', '100-100'):
            steps = ['M']
            for cy in range(12 if thorough else 6):
                pre = rng.choice([0, 0, 1, 2])
                for j in range(pre):
                    steps += ['S:%d:%d:%d:%s:%d' % (rng.choice([8, 20, 40]), rng.choice([5, 200]), rng.choice([0, 2, 5]), tspec, 1000 * cy + j + 500), 'M']
                steps += ['S:%d:%d:%d:%s:%d' % (rng.choice([3, 16, 24, 60]), rng.choice([0, 16, 100]), kib * 1024 // rng.choice([150, 100, 60]), tspec, cy), 'M', 'C', 'M']
            cases.append('exh %d 0 %d 40 %s' % (kib, T0, ' '.join(steps)))
    return cases


def inj_cases(rng, thorough):
    """(cases compared with the resource model: limit 0), (oracle only: limit > 0)"""
    with_model, alone = [], []
    fixed = [(20, 30, 2, '20-20', 0), (16, 16, 0, '16-16', 0), (3, 0, 3, '3-3', 0), (15, 15, 2, '15-16', 2), (40, 100, 4, '16-60', 3), (100, 0, 1, '100-100', 1)]
    more = [(rng.choice([1, 15, 16, 17, 31, 64]), rng.choice([0, 1, 15, 16, 17, 500]), rng.choice([0, 1, 2, 5, 8]),
             rng.choice(['3-3', '15-15', '16-16', '10-20', '16-100']), rng.choice([0, 0, 1, 4])) for _ in range(40 if thorough else 10)]
    for klen, vlen, nt, tspec, npre in fixed + more:
        kmax = 12 + 8 * (nt + 1)        # more than the store can allocate: the last rounds run without a failure
        with_model.append('inj 0 %d %d %d %d %s %d %d' % (T0, klen, vlen, nt, tspec, kmax, npre))
        lim = rng.choice([1, 2, 5, 8])
        alone.append('inj %d %d %d %d %d %s %d %d' % (lim, T0, klen, vlen, nt, tspec, kmax, min(npre, lim - 1)))
        # two consecutive failures: the second one is the bucket vector nl_clear() re-creates inside the bad_alloc handler of store
        lim = rng.choice([1, 3, 8, 16])
        alone.append('inj2 %d %d %d %d %d %s %d %d' % (lim, T0, klen, vlen, nt, tspec, kmax, min(npre, lim - 1)))
    # fetch under failure injection (oracle only): the recency update must not allocate
    for klen, vlen in ((20, 30), (3, 3), (16, 16), (rng.choice([1, 15, 40]), rng.choice([0, 15, 100]))):
        alone.append('injf %d %d %d %d 6' % (rng.choice([0, 4, 8]), T0, klen, vlen))   # three entries: limit 0 or > 3
    return with_model, alone


def exhl_cases(rng, thorough):
    """limits 1..8 (the quantifier of the property) against the resource model: nl_clear() re-creates the bucket vectors with `limit`
    buckets before the trigger index is released.  Where the new vectors land depends on the order in which nl_clear released the blocks
    (not modelled), so only the order-insensitive part of every answer is compared: stats and the bytes in in-use pages."""
    cases = []
    for kib in ((8, 16, 32, 64, 128) if thorough else (8, 32, 64)):
        for lim in ((1, 2, 3, 4, 5, 6, 7, 8, 16, 64) if thorough else rng.sample([1, 2, 3, 4, 5, 6, 7, 8], 3) + [rng.choice([16, 64])]):
            tspec = rng.choice(['16-16', '17-40', '3-30', '100-100'])
            steps = ['M']
            for cy in range(10 if thorough else 5):
                steps += ['S:%d:%d:%d:%s:%d' % (rng.choice([8, 20, 40]), rng.choice([5, 200]), rng.choice([0, 2, 5]), tspec, 1000 * cy + 500), 'M']
                if rng.random() < 0.5:
                    steps += ['D:%d:%d' % (rng.choice([8, 20, 40]), 1000 * cy + 500), 'M']
                steps += ['S:%d:%d:%d:%s:%d' % (rng.choice([3, 16, 24, 60]), rng.choice([0, 16, 100]), kib * 1024 // rng.choice([150, 100, 60]), tspec, cy), 'M', 'C', 'M']
            cases.append('exh %d %d %d 40 %s' % (kib, lim, T0, ' '.join(steps)))
    # the witness of the repaired finding 1 (16 KiB, limit 64, 80 trigger names of 20 bytes) and its 512 KiB relatives
    cases.append('exh 16 64 %d 40 M S:16:0:80:20-20:1 M C M S:16:0:1:17-17:2 M F:16:0:2 C M' % T0)
    cases.append('exh 64 16 %d 40 M S:20:10:900:20-20:1 M C M S:20:10:2:20-20:2 M F:20:10:2 C M' % T0)
    # entries that SHARE trigger names (same id, different key length): removing one must keep the trigger nodes, removing the last one of a
    # trigger releases its node; rise of a shared trigger removes both
    for kib in (16, 64):
        for lim in (0, 2, 8):
            steps = ['M']
            for cy in range(8 if thorough else 4):
                nt = rng.choice([1, 3, 5])
                tspec = rng.choice(['16-16', '3-3', '20-40'])
                a, b = rng.sample([8, 17, 24, 40], 2)
                steps += ['S:%d:5:%d:%s:%d' % (a, nt, tspec, cy), 'M', 'S:%d:30:%d:%s:%d' % (b, nt, tspec, cy), 'M']
                how = cy % 3
                if how == 0:
                    steps += ['D:%d:%d' % (a, cy), 'M', 'D:%d:%d' % (b, cy), 'M']
                elif how == 1:
                    steps += ['D:%d:%d' % (b, cy), 'M', 'R:%s:%d:0' % (tspec, cy), 'M']
                else:
                    steps += ['R:%s:%d:%d' % (tspec, cy, nt - 1), 'M']
                if rng.random() < 0.5:
                    steps += ['C', 'M']
            steps += ['C', 'M']
            cases.append('exh %d %d %d 40 %s' % (kib, lim, T0, ' '.join(steps)))
    return cases


def coarse(line):
    """M:<k>/<t>:<used>:... -> M:<k>/<t>:<used>"""
    return ' '.join(':'.join(t.split(':')[:3]) if t.startswith('M:') else t for t in line.split(' '))


def bud_sizes(rng, usable):
    edge = []
    for k in range(5, max(6, usable.bit_length() + 1)):
        edge += [(1 << k) - 17, (1 << k) - 16, (1 << k) - 15]
    return edge


def bud_random(rng, msize, length):
    usable = msize - SELF
    edge = [s for s in bud_sizes(rng, usable) if s >= 1]
    ops = []
    nslots = 0
    live = []
    pfree = rng.choice([0.2, 0.4, 0.5])
    small = rng.random() < 0.5
    for _ in range(length):
        r = rng.random()
        if r < pfree and live:
            s = live.pop(rng.randrange(len(live)))
            ops.append('f%d' % s)
        elif r < pfree + 0.03:
            ops.append(rng.choice('AZ')); live = []
        else:
            q = rng.random()
            if q < 0.4:
                size = rng.choice(edge)
                if small and size > usable // 8:
                    size = rng.choice([1, 16, 17, 47, 48, 49])
            elif q < 0.8:
                size = rng.randrange(1, max(2, usable // rng.choice([1, 2, 4, 16, 64])))
            else:
                size = rng.choice([1, 2, 15, 16, 17, 31, 32, 33, usable, usable + 1, 2 * usable, usable - 16, 1 << 40])
            ops.append('m%d' % size)
            live.append(nslots)
            nslots += 1
    ops.append(rng.choice(['A', 'Z', 'A', 'Z', '']))
    return ' '.join(o for o in ops if o)


def bud_cases(rng, n, quick):
    cases = ['bud consts']
    # exhaustive: every sequence over a small op alphabet on tiny arenas (one chunk, and a non power of two with three chunks)
    alpha = ['m1', 'm40', 'm100', 'f0', 'f1', 'f2', 'A']
    for ms in (SELF + 256, SELF + 256 + 64 + 32 + 9):
        for ln in ([5] if quick else [5, 6]):
            for seq in itertools.product(alpha, repeat=ln):
                if seq[0][0] != 'm':
                    continue
                cases.append('bud %d %s' % (ms, ' '.join(seq)))
    # fill until exhausted, free everything in either order, refill: the second fill must hand out the same number of blocks
    for ms, sz in ((SELF + 4096, 1), (SELF + 5000, 17), (SELF + 65536 + 777, 100), (SELF + 1000, 16), (SELF + 40000, 1000)):
        nfit = (ms - SELF) // 32 + 2
        for order in 'AZ':
            cases.append('bud %d %s %s %s %s' % (ms, ' '.join(['m%d' % sz] * nfit), order, ' '.join(['m%d' % sz] * nfit), order))
    sizes = [SELF, SELF + 1, SELF + 31, SELF + 32, SELF + 33, SELF + 63, SELF + 64, SELF + 96, SELF + 1000, SELF + 4096, SELF + 4095, SELF + 4097,
             65536, 65536 + SELF, 100000, 1 << 20, (1 << 20) + SELF - 1, 10 * 1024 * 1024]
    for _ in range(n):
        ms = rng.choice(sizes) if rng.random() < 0.6 else SELF + rng.randrange(0, 1 << rng.choice([8, 12, 16, 20]))
        cases.append('bud %d %s' % (ms, bud_random(rng, max(ms, SELF + 1), rng.choice([10, 30, 80, 150]))))
    return cases


def gen_cases(ctx):
    rng = ctx.rng
    seqs = []
    seqs += aimed_cases(['t', 'p512'])
    if ctx.quick():
        seqs += exhaustive_cases('t', [1, 2], 4, 3, [T0, T0 + 1, T0 + 5])
        seqs += exhaustive_cases('t', [2], 5, 2, [T0 + 1, T0 + 5])
    else:
        seqs += exhaustive_cases('t', [1, 2, 3], 5, 3, [T0, T0 + 1, T0 + 5])
        seqs += exhaustive_cases('t', [2, 3], 6, 3, [T0 + 1, T0 + 5])
        seqs += exhaustive_cases('p512', [1, 2], 3, 3, [T0, T0 + 5])
    for _ in range(ctx.scale(2500, 24000)):
        lim = rng.choice([1, 2, 3, 4, 5, 6, 7, 8])
        nk = lim + rng.choice([1, 1, 2, 3, 5, 10])
        be = 't' if rng.random() < 0.85 else rng.choice(['p512', 'p1024', 'p4096'])
        ln = rng.choice([20, 40, 80, 200])
        seqs.append('seq %s %d %d %s' % (be, lim, T0, ' '.join(random_seq(rng, lim, nk, rng.choice([1, 3, 6]), ln))))
    # contrast: no limit and a limit far above the alphabet (nothing may ever be evicted)
    for _ in range(ctx.scale(150, 1500)):
        lim = rng.choice([0, 0, 64, 1000])
        seqs.append('seq t %d %d %s' % (lim, T0, ' '.join(random_seq(rng, lim, rng.choice([3, 8, 20]), 3, rng.choice([20, 80])))))
    # memory pressure on the shared segment: values up to beyond segment/20 and segment/10 (oracle only: the number of extra
    # evictions depends on the allocator state, their identity must still follow the rule)
    press = []
    for _ in range(ctx.scale(120, 1500)):
        kib = rng.choice([512, 512, 1024, 2048])
        seg = kib * 1024
        vsz = [0, 1, 100, 5000, seg // 20 - 1, seg // 20 + 1, seg // 10, seg // 8, seg // 5, seg // 3]
        lim = rng.choice([1, 2, 3, 4, 5, 6, 7, 8])
        press.append('seq P%d %d %d %s' % (kib, lim, T0, ' '.join(random_seq(rng, lim, lim + rng.choice([1, 3, 6]), 2, rng.choice([15, 30, 50]), vsz=vsz))))
    return seqs, press


def nontrivial(case, out):
    c = case.split(None, 2)
    if c[0] == 'seq':
        # at least one hit and one store that evicted somebody (a new key went in and the number of keys did not grow)
        if ' h:' not in ' ' + out:
            return False
        prev_n, prev_l = 0, []
        for o, a in zip(case.split()[4:], out.split(' ')):
            af = a.split(':')
            if len(af) < 3:
                return False
            n = int(af[-2].split('/')[0])
            l = af[-1].split(',')
            if o.startswith('S:') and n == prev_n and n > 0 and o.split(':')[1] not in prev_l:
                return True
            prev_n, prev_l = n, l
        return False
    if c[0] == 'cyc':
        return True
    if c[0] == 'injf':
        return out.startswith('1:')
    if c[0] in ('inj', 'inj2'):
        return out.startswith('1:') and ' 0:' in out
    if c[0] == 'exh':
        # at least one store that the allocator refused part-way (dropped or cleared) and one accounting read-out
        return ' s0/0' in out and ' M:' in out
    if c[0] == 'bud':
        return ':' in out and any(t and t[0].isdigit() for t in out.split(' ')[:-3])
    return False


def classify(case, out):
    c = case.split(None, 4)
    if c[0] == 'seq':
        lim = int(c[2])
        n = len(c[4].split()) if len(c) > 4 else 0
        lb = 'limit0' if lim == 0 else 'limit%d' % lim if lim <= 8 else 'limit>8'
        nb = 'len<=6' if n <= 6 else 'len7-40' if n <= 40 else 'len>40'
        be = 'thread' if c[1] == 't' else 'process-pressure' if c[1][0] == 'P' else 'process'
        return 'seq:%s:%s:%s' % (be, lb, nb)
    if c[0] == 'cyc':
        return 'cyc:%s:%s' % ('thread' if c[1] == 't' else 'process', c[-1].split()[-1])
    if case == 'exh consts':
        return 'exh:consts'
    if c[0] in ('inj', 'inj2'):
        return '%s:thread:limit%s' % (c[0], '0' if c[1] == '0' else '>0')
    if c[0] == 'injf':
        return 'inj:thread:fetch'
    if c[0] == 'exh':
        return 'exh:%s:limit%s' % ('second-tenant-budget-sweep' if ' H' in case else 'oversized-trigger-set', '0' if c[2] == '0' else '>0')
    if c[0] == 'bud':
        n = len(case.split()) - 2
        return 'bud:%s' % ('len<=6' if n <= 6 else 'len7-40' if n <= 40 else 'len>40')
    return 'other'


def strip_mem(case, a):
    """the model does not predict the memory accounting field of the final token (oracle-only)"""
    if case.startswith('seq p') or case.startswith('seq P'):
        i = a.rfind(':U')
        if i > 0 and ' ' not in a[i:]:
            return a[:i]
    return a


def run(ctx):
    errs = vlib.gen_coq(GEN)
    for n, e in errs:
        ctx.broke('translator cxx2v failed on %s (tie to source broken)' % n, e)
    parts = gen_shape()
    for n, b in parts.items():
        if b is None:
            ctx.broke('tie to source broken: basic_map::%s not found in private/hash_map.h in the expected form' % n[2:])
    res = vlib.coq_props('C08')
    ctx.proof(res)
    ctx.coverage['trusted_base'] = [
        'Coq 8.16.1 kernel (vm_compute only in the non-vacuity Examples and in unprotected_allocate_orphans_the_node)',
        'hand-written models: coq/C07/Defs.v (mem_cache, shared with C07), coq/C08/Defs.v (buddy_allocator), coq/C08/ResDefs.v (the containers of the '
        'process_shared cache as tagged blocks over the allocator model); whole functions of the anchored files are outside the fragment of cxx2v, their '
        'integer guards and size formulas are cut out textually into a TU (checks/C08.py _guards_tu), translated by tools/cxx2v.py (clang 14 AST) and '
        'proved equal to the model leafs (coq/C08/LinkGuards.v); the allocator constants (`bud consts`) and the object / node sizes (`exh consts`) are '
        'compared with the real ones at run time',
        'checks/C08.py gen_shape: lexical extraction (comments stripped, white space removed, fixed table of statement texts) of basic_map::allocate(v), '
        'allocate(), destroy, the destroy calls of erase / clear, the two catch blocks of mem_cache::store, the statement list of nl_clear (rehash '
        'calls last, a6386b3) and the recency update of fetch (one splice, 117bb4c) into '
        'coq/gen/Gen_C08_hashmap.v; coq/C08/Link.v proves they are the shapes the resource model assumes',
        'extraction: ExtrOcamlBasic only, OCaml 4.13.1',
        'harness/C08_cache.cpp (includes src/cache_storage.cpp of the tree under test, -fno-access-control, interposed time() and operator new with '
        'failure injection, fork per process_shared case, reads the real page headers and free lists of the shared segment), harness/C08_buddy.cpp, '
        'ocaml/C08_driver.ml (incl. the check_limits eviction loop and the table compaction of the functional maps), checks/C08.py (generators, oracles)',
        'hash_map / std::multimap / std::list / std::set behave as finite map / stable sorted multimap / list / set; libstdc++ LP64 layout (string SSO 15)']
    ctx.assumptions = ['single-threaded use (locks not modelled; C09 covers concurrency)',
                       'for cache correspondence: no allocation failure and not_enough_memory() false (values <= 100 bytes); sequences with memory '
                       'pressure are judged by the property oracle only',
                       'resource-model theorems: ms - sizeof(buddy_allocator) < 2^63; RI r0 (the initial in-use pages are the recorded blocks plus the other '
                       'tenants; RI_init: true for the fresh segment); limit 0 for the two restore-after-clear theorems (with a limit the two bucket vectors '
                       'stay allocated, possibly in other pages than at construction); the catch block of basic_map::allocate is present (Link.link_allocate_protected, '
                       're-derived from the source on every run)',
                       'exh budget sweeps hold the segment with blocks of a second tenant (process_settings::process_memory is shared by every cache of the '
                       'process); with a limit and a second tenant std::bad_alloc may leave store()/clear() (the bucket vector can not be re-created): the '
                       'oracle then demands an empty, consistent cache; sweeps compared with the model use limit 0',
                       'counters do not wrap (uint64 generation, size_t size); buddy requests are >= 1 byte and < 2^63 '
                       '(malloc(0) corrupts the allocator but no container of the cache ever asks for 0 bytes, see docs/C08.md)',
                       'time() is the only clock the cache reads (checked by the harness self-test on every run)',
                       'LP64: sizeof(buddy_allocator)=544, alignment 16, sizeof(mem_cache<process_settings>)=232, index nodes 136/80/24/32/48 bytes '
                       '(compared with the real values on every run)']
    exe, err = vlib.build_harness('C08_cache', ['C08_cache.cpp'], extra=['-fno-access-control'])
    if not exe:
        ctx.broke('cache harness build failed', err)
    bexe, err = vlib.build_harness('C08_buddy', ['C08_buddy.cpp'], extra=['-fno-access-control'], link=False)
    if not bexe:
        ctx.broke('buddy harness build failed', err)
    mexe, err = vlib.build_model('C08', 'C08_driver.ml', 'c08m')
    if not mexe:
        ctx.broke('model extraction/build failed', err)
    if not exe or not bexe:
        return
    if ctx.replay_cases is not None:
        cases = ctx.replay_cases
        seqs = [c for c in cases if c.startswith('seq ') and not c.startswith('seq P')]
        press = [c for c in cases if c.startswith('seq P')]
        cycs = [c for c in cases if c.startswith('cyc ')]
        buds = [c for c in cases if c.startswith('bud ')]
        exhs = [c for c in cases if c.startswith('exh ')]
        exhm = []
        exhl = []
        injm, inja = [], [c for c in cases if c.split(' ', 1)[0] in ('inj', 'inj2', 'injf')]
    else:
        corpus = vlib.corpus_cases('C08')
        seqs, press = gen_cases(ctx)
        seqs = [c for c in corpus if c.startswith('seq ') and not c.startswith('seq P')] + seqs
        press = [c for c in corpus if c.startswith('seq P')] + press
        cycs = [c for c in corpus if c.startswith('cyc ')] + cyc_cases(ctx.rng, ctx.scale(40, 300), not ctx.quick())
        buds = [c for c in corpus if c.startswith('bud ')] + bud_cases(ctx.rng, ctx.scale(2000, 30000), ctx.quick())
        exhs = [c for c in corpus if c.startswith('exh ')] + exh_cases(ctx.rng, not ctx.quick())
        exhm = exhm_cases(ctx.rng, not ctx.quick())
        exhl = exhl_cases(ctx.rng, not ctx.quick())
        injm, inja = inj_cases(ctx.rng, not ctx.quick())
        inja = [c for c in corpus if c.split(' ', 1)[0] in ('inj', 'inj2', 'injf')] + inja
    ctx.coverage['rule'] = (
        'seq: back end (thread_shared / process_shared 512 KiB-4 MiB), limit 1..8 (plus 0/large for contrast), a sequence of store/fetch/rise/'
        'remove/clear/clock-set over a key alphabet of limit+1..limit+10 keys; the answer lists every fetch result, stats() and the private recency '
        'list after every operation, then the timeout index, the index consistency flags and (process) the bytes in use after a final clear(). '
        'Exhaustive: all sequences of length 4 (quick; 5 thorough) over {store a/b/c x 3 deadlines, fetch a/b/c, tick} x limits {1,2}, length 5 over 2 keys x 2 deadlines (thorough: 6 over 3 keys). '
        'Aimed: 8 histories per limit 1..8 (LRU by store, hit rescue, expired-first, deadline ties, re-store, trigger index after eviction, fill/clear/refill). '
        'Random (seeded): up to 200 ops, three deadline regimes. Pressure: values up to segment/3 on process_shared (oracle only). '
        'cyc: fill/read back/empty cycles (clear, rise, remove, mixed) x value sizes 0..segment, limits 0..8 with used-memory accounting. '
        'bud: malloc/free/free-all sequences on the real buddy_allocator over arenas of 544..10 MiB bytes: exhaustive length-5 (6) sequences over a 7-op alphabet on two '
        'tiny arenas, fill-exhaust/free-all/refill, random with sizes at 2^k-17..2^k-15. '
        'exh (process_shared, real segment accounting after every cycle): stores whose trigger set (names of 16..300 bytes) is larger than the segment '
        '(512 KiB, 1 MiB, 2 MiB; bad_alloc lands somewhere inside the trigger-index insertions), clear(), accounting against the fresh segment, probe of '
        '40 % of the segment; budget sweeps: a second tenant holds the segment except 0..N blocks of 32..512 bytes (contiguous or every 2nd/3rd/5th), one '
        'store with long key and trigger names, so that every allocation of store is the failing one for some budget; the same on 8..512 KiB segments '
        'compared step by step with the extracted resource model. inj (thread_shared): the k-th operator new of one store throws, k = 1..beyond the '
        'last allocation, with 0..4 earlier entries, limit 0 compared with the model, limits 1..8 oracle only; inj2: two consecutive failures (the second is '
        'the bucket vector of the nl_clear() inside the handler, limits 1..16); injf: the k-th allocation of fetch. Non-trivial = seq with an eviction-capable store and a hit / '
        'bud with a successful malloc; distinct = distinct case lines.')
    ctx.coverage['exhaustive'] = False
    ctx.coverage['exhaustive_parts'] = ['cache: all op sequences of length 4 (quick) / 5 (thorough) over the 13-op alphabet starting with a store x limits {1,2}(,3)',
                                        'buddy: all op sequences of length 5 (quick) / 5-6 (thorough) over the 7-op alphabet starting with a malloc, arenas of 256 and 361 usable bytes',
                                        'failure points of one store: every k = 1..kmax (kmax beyond the last allocation) by injection on the thread cache; every budget 0..N of a second tenant on the process cache']
    if seqs:
        vlib.differential(ctx, seqs, exe, mexe, oracle, nontrivial, classify, canon_case=strip_mem, canon_model=lambda b: b,
                          what='correspondence cache model vs mem_cache')
    if press:
        vlib.differential(ctx, press, exe, None, oracle, nontrivial, classify, what='pressure sequences (oracle only)')
    if cycs:
        vlib.differential(ctx, cycs, exe, None, oracle, nontrivial, classify, what='fill/empty cycles (oracle only)', jobs=8)
    if exhm and mexe:
        vlib.differential(ctx, exhm, exe, mexe, oracle, nontrivial, classify,
                          what='correspondence resource model (cache over buddy allocator) vs process_shared mem_cache: failure points and page structure')
    if exhl and mexe:
        vlib.differential(ctx, exhl, exe, mexe, oracle, nontrivial, classify, canon_case=lambda c, a: coarse(a), canon_model=coarse,
                          what='correspondence resource model vs process_shared mem_cache, limits 1..8, 16, 64 (stats and bytes in in-use pages)')
    if injm and mexe:
        vlib.differential(ctx, injm, exe, mexe, oracle, nontrivial, classify,
                          what='correspondence resource model vs thread_shared mem_cache under failure injection: which allocation of a store is the k-th')
    if inja:
        vlib.differential(ctx, inja, exe, None, oracle, nontrivial, classify, what='failure injection, limited caches (oracle only)')
    if exhs:
        vlib.differential(ctx, exhs, exe, None, oracle, nontrivial, classify, what='allocator exhaustion inside insertions (oracle only)', jobs=8)
    if buds:
        vlib.differential(ctx, buds, bexe, mexe, oracle, nontrivial, classify, what='correspondence allocator model vs buddy_allocator')
