"""C07 -- the cache never returns invalidated, expired or superseded data."""
import os, itertools
import vlib

META = dict(
    property_id='C07',
    design_ref='DESIGN.md section 4, C07',
    technique='Coq proof (mirror-consistency invariant + refinement of a line-by-line model of mem_cache to a map specification) '
              '+ extracted-model correspondence on operation sequences + spec-interpreter oracle on the real caches',
    level_text=('Theorems in coq/C07/Props.v over an executable model of mem_cache (src/cache_storage.cpp: delete_node, fetch, store, '
                'add_trigger, rise, remove, clear, check_limits with its four indexes and counters), for ALL finite sequences of '
                'store/fetch/rise/remove/clear with arbitrary clock schedules, limits and allocator behaviour: the four indexes stay '
                'mirror-consistent (Inv); every entry the cache holds is exactly the latest store under its key and has not been removed, '
                'cleared, or had any attached trigger (own key included) raised since, and a fetch past the deadline misses (so a hit is never '
                'stale, with or without a limit); with no limit and no allocation failure the cache content EQUALS the specification map '
                '(a live entry is always found); the model outputs equal those of an abstract LRU specification. cache_interface trigger '
                'recording (nested recorders, inherited triggers) is modelled and proved to attach every recorded trigger. '
                'The model is tied to the current source by running the extracted model and the real thread_shared and process_shared caches '
                '(interposed time()) on the same operation sequences: exhaustive short sequences over a tiny alphabet, long random ones, '
                'limits 0,1,2,small,large.'),
    level_note=('Trusted: Coq kernel; ExtrOcamlBasic extraction; the hand-written model of mem_cache (no leaf function of this code is in the '
                'loop-free integer fragment cxx2v translates, so the tie is correspondence only); hash_map is modelled as a finite map (its '
                'bucket/rehash machinery is exercised through the cache by >2*limit inserts, not proved); std::multimap/std::list/std::set '
                'semantics; locks are not modelled (single-threaded semantics; concurrency is C09). Allocation failures of the shared-memory '
                'variant are oracle arguments in the model (covered by the soundness theorems, not by correspondence).'),
)

GEN = {}

T0 = 1000
INFTY = 0x7FFFFFFFFFFFFFFF - 3600 * 24


# --------------------------------------------------------------------------------------------
# token helpers (same syntax as harness/C07_cache.cpp)
# --------------------------------------------------------------------------------------------
def hx(b):
    return b.hex() if b else '-'


def trig_tok(ts):
    ts = list(ts)
    return '+'.join(hx(t) for t in ts) if ts else '.'


def S(k, v, ts, d, g=None):
    vt = v if isinstance(v, str) else hx(v)
    return 'S:%s:%s:%s:%d:%s' % (hx(k), vt, trig_tok(ts), d, '-' if g is None else str(g))


def F(k):
    return 'F:' + hx(k)


def R(t):
    return 'R:' + hx(t)


def D(k):
    return 'D:' + hx(k)


def T(n):
    return 'T:%d' % n


_valcache = {}


def value_bytes(tok):
    if tok.startswith('#'):
        ln, pre = tok[1:].split('x')
        b = b'' if pre == '-' else bytes.fromhex(pre)
        return b + b'v' * (int(ln) - len(b))
    return b'' if tok == '-' else bytes.fromhex(tok)


def valtok_of(tok):
    """the token the harness prints for the value written as `tok` in the case"""
    r = _valcache.get(tok)
    if r is None:
        v = value_bytes(tok)
        if len(v) <= 32:
            r = hx(v)
        else:
            h = 0xcbf29ce484222325
            for c in v:
                h = ((h ^ c) * 0x100000001b3) & 0xFFFFFFFFFFFFFFFF
            r = '#%d.%016x' % (len(v), h)
        if len(_valcache) < 200000:
            _valcache[tok] = r
    return r


# --------------------------------------------------------------------------------------------
# specification interpreter: map + (optionally) the LRU / expired-first eviction rule
# --------------------------------------------------------------------------------------------
class Spec:
    def __init__(self, limit, evict=True):
        self.limit = limit if evict else 0
        self.m = {}          # key -> (valtok, sorted trigger tuple, deadline, gen or None if unknown)
        self.order = []      # keys in store order (tie-break among equal deadlines)
        self.lru = []        # most recently stored-or-hit first
        self.gen = 0
        self.now = T0

    def delete(self, k):
        del self.m[k]
        self.order.remove(k)
        self.lru.remove(k)

    def trig_count(self):
        return sum(len(e[1]) for e in self.m.values())

    def store(self, k, vt, ts, d, g):
        if k in self.m:
            self.delete(k)
        if self.limit > 0:
            while len(self.m) >= self.limit:
                kmin = min(self.order, key=lambda x: self.m[x][2])
                if self.m[kmin][2] < self.now:
                    self.delete(kmin)
                else:
                    self.delete(self.lru[-1])
        if g is None:
            g = self.gen
            self.gen += 1
        self.m[k] = (vt, tuple(sorted(set(ts) | {k})), d, g)
        self.order.append(k)
        self.lru.insert(0, k)

    def fetch(self, k):
        e = self.m.get(k)
        if e is None or e[2] < self.now:
            return None
        self.lru.remove(k)
        self.lru.insert(0, k)
        return e

    def rise(self, t):
        for k in [k for k in self.order if t in self.m[k][1]]:
            self.delete(k)

    def remove(self, k):
        if k in self.m:
            self.delete(k)

    def clear(self):
        self.m.clear()
        self.order = []
        self.lru = []


def parse_case(case):
    c = case.split()
    return c[0], c[1], int(c[2]), int(c[3]), c[4:]


def hit_tok(e, st):
    return 'h:%s:%s:%d:%d:%s' % (e[0], '+'.join(t for t in e[1]) if e[1] else '.', e[2], e[3], st)


def spec_run(limit, t0, ops, evict=True):
    """expected answer tokens (exact rule). keys/triggers are kept as hex tokens (sorting hex = sorting bytes)."""
    sp = Spec(limit, evict)
    sp.now = t0
    out = []
    for o in ops:
        f = o.split(':')
        tag = f[0]
        res = None
        if tag == 'S':
            ts = [] if f[3] == '.' else f[3].split('+')
            sp.store(f[1], valtok_of(f[2]), ts, int(f[4]), None if f[5] == '-' else int(f[5]))
            t = 's'
        elif tag == 'F':
            res = sp.fetch(f[1])
            t = 'm'
        elif tag == 'R':
            sp.rise(f[1]); t = 'r'
        elif tag == 'D':
            sp.remove(f[1]); t = 'd'
        elif tag == 'C':
            sp.clear(); t = 'c'
        elif tag == 'T':
            sp.now = int(f[1]); t = 't'
        else:
            out.append('BAD-OP'); continue
        st = '%d/%d' % (len(sp.m), sp.trig_count())
        out.append(hit_tok(res, st) if res is not None else t + ':' + st)
    return out


def oracle_sound(case, out, pressure=False):
    """C07 on the implementation's answers alone: every hit is exactly the latest store under that key, still valid
    (not removed / cleared / expired / risen); with limit 0 and no memory pressure every live entry is found and stats are exact."""
    mode, backend, limit, t0, ops = parse_case(case)
    toks = out.split(' ') if out else []
    if out.startswith('<') or 'exception' in out:
        return ('cache-crash', 'harness/child died or threw: ' + out[:300])
    if len(toks) != len(ops):
        return ('bad-output', 'answer has %d tokens for %d ops: %s' % (len(toks), len(ops), out[:200]))
    if 'FETCH-FORMS-DIFFER' in out:
        return ('fetch-forms-differ', 'fetch(key,&a,&tags,&timeout,&gen), fetch(key,a,&tags) and fetch(key,0,0,0,0) disagree')
    exact = (limit == 0 and not pressure)
    sp = Spec(0, evict=False)
    sp.now = t0
    auto_gens = {}
    for i, (o, a) in enumerate(zip(ops, toks)):
        f = o.split(':')
        tag = f[0]
        af = a.split(':')
        if tag == 'S':
            ts = [] if f[3] == '.' else f[3].split('+')
            g = None if f[5] == '-' else int(f[5])
            sp.store(f[1], valtok_of(f[2]), ts, int(f[4]), g)
            if pressure and g is None:
                e = sp.m[f[1]]
                sp.m[f[1]] = (e[0], e[1], e[2], None)
        elif tag == 'F':
            e = sp.m.get(f[1])
            live = e is not None and e[2] >= sp.now
            if af[0] == 'h':
                if len(af) != 6:
                    return ('bad-output', 'malformed hit token ' + a[:200])
                where = 'op %d (%s) answered %s' % (i, o[:80], a[:160])
                if e is None:
                    return ('hit-after-invalidation', 'fetch hit for a key that was never stored, or was removed / cleared / had a trigger '
                            'raised since its last store: ' + where)
                if e[2] < sp.now:
                    return ('hit-after-deadline', 'fetch hit although the deadline %d of the latest store is before now=%d: %s' % (e[2], sp.now, where))
                if af[1] != e[0]:
                    return ('hit-wrong-value', 'hit returned a value that is not the one of the latest store: ' + where)
                if af[2] != ('+'.join(e[1]) if e[1] else '.'):
                    return ('hit-wrong-triggers', 'hit returned trigger set %s, latest store has %s: %s' % (af[2], '+'.join(e[1]), where))
                if int(af[3]) != e[2]:
                    return ('hit-wrong-deadline', 'hit returned deadline %s, latest store has %d: %s' % (af[3], e[2], where))
                if e[3] is not None and int(af[4]) != e[3]:
                    return ('hit-wrong-generation', 'hit returned generation %s, latest store has %d: %s' % (af[4], e[3], where))
                if e[3] is None:
                    # unknown counter under memory pressure: auto generations of one key must still change between stores
                    pass
            elif af[0] == 'm':
                if exact and live:
                    return ('miss-of-live-entry', 'no limit is in play but a live entry was not found: op %d (%s), stored %s' % (i, o, e[:3]))
            else:
                return ('bad-output', 'unexpected token %s for fetch' % a[:100])
        elif tag == 'R':
            sp.rise(f[1])
        elif tag == 'D':
            sp.remove(f[1])
        elif tag == 'C':
            sp.clear()
        elif tag == 'T':
            sp.now = int(f[1])
        st = af[-1]
        try:
            ks, tsn = [int(x) for x in st.split('/')]
        except ValueError:
            return ('bad-output', 'no stats in token ' + a[:100])
        if exact:
            if ks != len(sp.m) or tsn != sp.trig_count():
                return ('stats-wrong', 'stats after op %d (%s) are %s, history implies %d/%d' % (i, o[:80], st, len(sp.m), sp.trig_count()))
        else:
            if ks > len(sp.m) or tsn > sp.trig_count():
                return ('stats-exceed-history', 'stats after op %d (%s) are %s but at most %d/%d entries can be valid' % (i, o[:80], st, len(sp.m), sp.trig_count()))
            if limit > 0 and ks > limit:
                return ('limit-exceeded', 'cache reports %d keys with limit %d after op %d' % (ks, limit, i))
    return None


def oracle(case, out):
    if case.startswith('ifc '):
        return oracle_ifc(case, out)
    return oracle_sound(case, out)


# --------------------------------------------------------------------------------------------
# cache_interface with recorders: spec = page trigger set + stack of recorder sets over the map spec
# --------------------------------------------------------------------------------------------
def oracle_ifc(case, out):
    mode, backend, limit, t0, ops = parse_case(case)
    toks = out.split(' ') if out else []
    if out.startswith('<') or 'exception' in out:
        return ('cache-crash', 'harness/child died or threw: ' + out[:300])
    if len(toks) != len(ops):
        return ('bad-output', 'answer has %d tokens for %d ops: %s' % (len(toks), len(ops), out[:200]))
    sp = Spec(0, evict=False)
    sp.now = t0
    page = set()
    recs = []

    def add(t):
        page.add(t)
        for r in recs:
            r.add(t)
    for i, (o, a) in enumerate(zip(ops, toks)):
        f = o.split(':')
        tag = f[0]
        body, st = a.rsplit(':', 1)
        where = 'op %d (%s) answered %s' % (i, o[:80], a[:160])
        if tag == 'S':
            ts = [] if f[3] == '.' else f[3].split('+')
            secs = int(f[4])
            if f[5] != '1':
                for t in ts:
                    add(t)
                add(f[1])
            sp.store(f[1], valtok_of(f[2]), ts, INFTY if secs < 0 else sp.now + secs, None)
        elif tag == 'P':
            secs = int(f[2])
            add(f[1])
            sp.store('5f553a' + ('' if f[1] == '-' else f[1]), valtok_of('70616765'), sorted(page), INFTY if secs < 0 else sp.now + secs, None)
        elif tag == 'F' or tag == 'G':
            key = f[1] if tag == 'F' else '5f553a' + ('' if f[1] == '-' else f[1])
            e = sp.m.get(key)
            live = e is not None and e[2] >= sp.now
            if body.startswith('h'):
                if e is None:
                    return ('hit-after-invalidation', 'interface fetch hit for a key without a valid store (a trigger recorded while the '
                            'entry was built was raised, or it was removed/cleared): ' + where)
                if e[2] < sp.now:
                    return ('hit-after-deadline', 'interface fetch hit after the deadline: ' + where)
                if body != 'h:' + e[0]:
                    return ('hit-wrong-value', 'interface fetch returned a value that is not the latest store: ' + where)
                if tag == 'F' and f[2] != '1':
                    for t in e[1]:
                        add(t)
            else:
                if live and limit == 0:
                    return ('miss-of-live-entry', 'interface fetch missed a live entry with no limit: ' + where)
        elif tag == 'A':
            add(f[1])
        elif tag == 'R':
            sp.rise(f[1])
        elif tag == 'C':
            sp.clear()
        elif tag == 'X':
            page.clear()
        elif tag == 'T':
            sp.now = int(f[1])
        elif tag == '(':
            recs.append(set())
        elif tag == ')':
            if recs:
                r = recs.pop()
                exp = ')' + ('+'.join(sorted(r)) if r else '.')
                if body != exp:
                    return ('recorder-wrong-set', 'detached recorder returned %s, the triggers added or inherited while it was attached are %s: %s'
                            % (body, exp, where))
            elif body != ')none':
                return ('bad-output', where)
        if limit == 0:
            ks, tsn = [int(x) for x in st.split('/')]
            if ks != len(sp.m) or tsn != sp.trig_count():
                return ('stats-wrong', 'stats after op %d (%s) are %s, history implies %d/%d' % (i, o[:80], st, len(sp.m), sp.trig_count()))
    return None


# --------------------------------------------------------------------------------------------
# generators
# --------------------------------------------------------------------------------------------
KA, KB, KX = b'a', b'b', b'x'
PAGE_OPS = False


def small_alphabet(full):
    """tiny op alphabet for exhaustive enumeration: 2 keys, triggers drawn from {other key, x}, deadlines T0-1, T0, T0+1"""
    ops = []
    deadlines = [T0 - 1, T0, T0 + 1] if full else [T0, T0 + 1]
    for k, other in ((KA, KB), (KB, KA)):
        trigsets = [[], [other], [KX]] if full else [[], [other if k == KB else KX]]
        for ts in trigsets:
            for d in deadlines:
                ops.append(S(k, k + b'1', ts, d))
    ops += [F(KA), F(KB), R(KA), R(KX), D(KA), 'C', 'TICK']
    if full:
        ops += [R(KB), D(KB)]
    return ops


def expand_ticks(seq):
    now = T0
    out = []
    for o in seq:
        if o == 'TICK':
            now += 1
            out.append(T(now))
        else:
            out.append(o)
    return out


def exhaustive_cases(backend, limits, length, full):
    ops = small_alphabet(full)
    cases = []
    for seq in itertools.product(ops, repeat=length):
        # the last op of a sequence is only informative when it is a fetch (every prefix is observed through stats anyway)
        if not seq[-1].startswith('F'):
            continue
        e = ' '.join(expand_ticks(seq))
        for lim in limits:
            cases.append('seq %s %d %d %s' % (backend, lim, T0, e))
    return cases


def random_seq(rng, nkeys, ntrigs, length, limit, big_values=False, vsz=None):
    keys = [b'k%d' % i for i in range(nkeys)]
    if rng.random() < 0.2:
        keys[0] = b''
    trigs = [b't%d' % i for i in range(ntrigs)] + keys[:max(1, nkeys // 2)]
    now = T0
    ops = []
    pstore = rng.choice([0.3, 0.45, 0.6])
    for _ in range(length):
        r = rng.random()
        if r < pstore:
            k = rng.choice(keys)
            nt = rng.choice([0, 0, 1, 1, 2, 3])
            ts = [rng.choice(trigs) for _ in range(nt)]
            if rng.random() < 0.1:
                ts.append(k)                      # key inside its own trigger set
            dr = rng.random()
            if dr < 0.6:
                d = now + rng.choice([-1, 0, 0, 1, 1, 2, 3, 5, 10])
            elif dr < 0.9:
                d = now + rng.randrange(0, 30)
            else:
                d = rng.choice([INFTY, 0, -1, -2 ** 62, 2 ** 63 - 1, now - 100])
            g = None
            if rng.random() < 0.15:
                g = rng.choice([0, 1, 2, 7, 2 ** 32, 2 ** 64 - 1, rng.randrange(2 ** 64)])
            if big_values:
                v = '#%dx%s' % (rng.choice(vsz), hx(bytes([rng.randrange(256)]) + k))
            else:
                ln = rng.choice([0, 1, 2, 3, 8, 31, 32, 33, 100])
                v = '#%dx%s' % (ln, hx(bytes([rng.randrange(256)]))) if ln > 3 else bytes(rng.randrange(256) for _ in range(ln))
            ops.append(S(k, v, ts, d, g))
        elif r < pstore + 0.3:
            ops.append(F(rng.choice(keys)))
        elif r < pstore + 0.38:
            ops.append(R(rng.choice(trigs)))
        elif r < pstore + 0.44:
            ops.append(D(rng.choice(keys)))
        elif r < pstore + 0.455:
            ops.append('C')
        else:
            now += rng.choice([1, 1, 1, 2, 3, 10])
            ops.append(T(now))
    return ops


def aimed_cases(backends, limits):
    """histories named in the property text"""
    a, b, c, x, y = b'a', b'b', b'c', b'x', b'y'
    seqs = [
        # re-store of a key that is also a trigger of another entry: b depends on a; storing a again must not touch b,
        # raising a kills both
        [S(a, b'1', [], T0 + 5), S(b, b'2', [a], T0 + 5), S(a, b'3', [], T0 + 5), F(b), F(a), R(a), F(a), F(b)],
        [S(b, b'2', [a], T0 + 5), S(a, b'1', [], T0 + 5), D(a), F(b), S(a, b'3', [b], T0 + 5), R(b), F(a), F(b)],
        # shared triggers
        [S(a, b'1', [x], T0 + 5), S(b, b'2', [x, y], T0 + 5), S(c, b'3', [y], T0 + 5), R(x), F(a), F(b), F(c), R(y), F(c)],
        [S(a, b'1', [x], T0 + 5), S(b, b'2', [x], T0 + 5), D(a), R(x), F(b), S(a, b'1', [x], T0 + 5), F(a)],
        # deadline == now, now-1, now+1 and the clock passing them
        [S(a, b'1', [], T0), S(b, b'2', [], T0 - 1), S(c, b'3', [], T0 + 1), F(a), F(b), F(c), T(T0 + 1), F(a), F(c), T(T0 + 2), F(c)],
        # key inside its own trigger set
        [S(a, b'1', [a], T0 + 5), F(a), R(a), F(a), S(a, b'1', [a, x], T0 + 5), F(a), R(x), F(a)],
        # superseding store: value, triggers, deadline and generation all replaced; old triggers no longer attached
        [S(a, b'1', [x], T0 + 5, 7), F(a), S(a, b'2', [y], T0 + 9), F(a), R(x), F(a), R(y), F(a)],
        # an expired entry is not resurrected by anything, and stays counted until evicted or replaced
        [S(a, b'1', [x], T0), T(T0 + 1), F(a), S(b, b'2', [x], T0 + 5), F(a), R(x), F(a), F(b)],
        # clear then reuse
        [S(a, b'1', [x], T0 + 5), S(b, b'2', [x], T0 + 5), 'C', F(a), F(b), R(x), S(a, b'3', [], T0 + 5), F(a)],
        # empty strings as key, value and trigger
        [S(b'', b'', [b''], T0 + 5), F(b''), R(b''), F(b''), S(b'', b'', [], T0 + 5), S(a, b'', [b''], T0 + 5), R(b''), F(a)],
    ]
    cases = []
    for be in backends:
        for lim in limits:
            for s in seqs:
                cases.append('seq %s %d %d %s' % (be, lim, T0, ' '.join(s)))
            # > 2*limit inserts (forces hash_map rehash while trigger lists hold iterators), then rise of a shared trigger
            n = max(8, 3 * lim if lim < 200 else 8)
            seq = []
            for i in range(n):
                seq.append(S(b'k%d' % i, b'v%d' % i, [b'all', b'm%d' % (i % 3)], T0 + 5 + i % 4))
                if i % 3 == 0:
                    seq.append(F(b'k%d' % (i // 2)))
            seq += [F(b'k%d' % i) for i in range(n)]
            seq += [R(b'm1')] + [F(b'k%d' % i) for i in range(n)] + [R(b'all')] + [F(b'k%d' % i) for i in range(n)]
            cases.append('seq %s %d %d %s' % (be, lim, T0, ' '.join(seq)))
    return cases


def ifc_cases(rng, n, backends, limits):
    cases = []
    keys = [b'f%d' % i for i in range(4)]
    trigs = [b't%d' % i for i in range(4)] + keys[:2]
    fixed = [
        # the repo's own nesting, then: page inherits the triggers of the frame it fetched; rising one kills the page
        ['(', S(b'foo', b'bar', [b'k1'], 10) + '', ')'],
    ]
    for be in backends:
        for lim in limits:
            # frame with trigger t0, page fetches frame (inherits f0,t0), page stored with collected set, rise t0 -> page gone
            if PAGE_OPS:
                seq = ['S:%s:%s:%s:10:0' % (hx(b'f0'), hx(b'frame'), trig_tok([b't0'])), 'X', 'F:%s:0' % hx(b'f0'), 'A:' + hx(b'extra'),
                       'P:%s:10' % hx(b'page'), 'G:' + hx(b'page'), 'R:' + hx(b't0'), 'G:' + hx(b'page'), 'F:%s:0' % hx(b'f0')]
                cases.append('ifc %s %d %d %s' % (be, lim, T0, ' '.join(seq)))
            seq = ['(', 'S:%s:%s:%s:10:0' % (hx(b'f0'), hx(b'x'), trig_tok([b't0'])), '(', 'F:%s:0' % hx(b'f0'), 'A:' + hx(b't1'), ')',
                   'S:%s:%s:%s:-1:1' % (hx(b'f1'), hx(b'y'), trig_tok([b't2'])), 'F:%s:1' % hx(b'f1'), ')', 'R:' + hx(b't2'), 'F:%s:0' % hx(b'f1')]
            cases.append('ifc %s %d %d %s' % (be, lim, T0, ' '.join(seq)))
    for _ in range(n):
        be = rng.choice(backends)
        lim = rng.choice(limits)
        now = T0
        depth = 0
        seq = []
        for _ in range(rng.randrange(4, 40)):
            r = rng.random()
            if r < 0.25:
                nt = rng.choice([0, 1, 1, 2])
                seq.append('S:%s:%s:%s:%d:%d' % (hx(rng.choice(keys)), hx(bytes([rng.randrange(97, 123)])),
                                                  trig_tok(set(rng.choice(trigs) for _ in range(nt))),
                                                  rng.choice([-1, 0, 1, 2, 10]), rng.random() < 0.2))
            elif r < 0.45:
                seq.append('F:%s:%d' % (hx(rng.choice(keys)), rng.random() < 0.2))
            elif r < 0.55:
                seq.append('A:' + hx(rng.choice(trigs)))
            elif r < 0.63:
                seq.append('R:' + hx(rng.choice(trigs)))
            elif r < 0.73 and depth < 4:
                seq.append('('); depth += 1
            elif r < 0.83 and depth > 0:
                seq.append(')'); depth -= 1
            elif r < 0.88 and PAGE_OPS:
                seq.append('P:%s:%d' % (hx(rng.choice([b'p0', b'p1'])), rng.choice([-1, 1, 5])))
            elif r < 0.93 and PAGE_OPS:
                seq.append('G:' + hx(rng.choice([b'p0', b'p1'])))
            elif r < 0.95:
                seq.append('X')
            elif r < 0.96:
                seq.append('C')
            else:
                now += rng.choice([1, 1, 2, 5])
                seq.append(T(now))
        while depth > 0:
            seq.append(')'); depth -= 1
        cases.append('ifc %s %d %d %s' % (be, lim, T0, ' '.join(seq)))
    return cases


def gen_cases(ctx):
    rng = ctx.rng
    cases = []
    # aimed histories on both back ends, limits 0,1,2,small,large
    cases += aimed_cases(['t', 'p512'], [0, 1, 2, 5, 1000])
    # exhaustive short sequences over the tiny alphabet
    if ctx.quick():
        cases += exhaustive_cases('t', [0, 1, 2], 3, True)
        cases += exhaustive_cases('t', [0, 2], 4, False)
    else:
        cases += exhaustive_cases('t', [0, 1, 2], 4, True)
        cases += exhaustive_cases('t', [0, 1, 2], 5, False)
        cases += exhaustive_cases('p512', [0, 1], 3, False)
    # long random sequences over larger alphabets
    for _ in range(ctx.scale(2500, 30000)):
        lim = rng.choice([0, 0, 0, 1, 2, 3, 5, 8, 64, 100000])
        nk = rng.choice([2, 3, 5, 8, 20])
        be = 't' if rng.random() < 0.8 else rng.choice(['p512', 'p1024', 'p4096'])
        ln = rng.choice([10, 30, 80, 200])
        if be != 't' and lim > 1000:
            lim = 1000          # the constructor allocates 2 x limit x 16 bytes of the shared segment
        cases.append('seq %s %d %d %s' % (be, lim, T0, ' '.join(random_seq(rng, nk, rng.choice([1, 3, 6]), ln, lim))))
    return cases


def nontrivial(case, out):
    # a sequence that produced at least one hit and at least one miss of a key that had been stored before
    if ' h:' not in ' ' + out:
        return False
    ops = case.split()[4:]
    stored = set()
    for o, a in zip(ops, out.split(' ')):
        if o.startswith('S:'):
            stored.add(o.split(':')[1])
        elif o.startswith('F:') and a.startswith('m') and o.split(':')[1] in stored:
            return True
    return False


def classify(case, out):
    c = case.split(None, 4)
    lim = int(c[2])
    n = len(c[4].split()) if len(c) > 4 else 0
    lb = 'limit0' if lim == 0 else 'limit1-2' if lim <= 2 else 'limit3-8' if lim <= 8 else 'limit>8'
    nb = 'len<=5' if n <= 5 else 'len6-40' if n <= 40 else 'len>40'
    return '%s:%s:%s:%s' % (c[0], 'thread' if c[1] == 't' else 'process', lb, nb)


def run(ctx):
    errs = vlib.gen_coq(GEN)
    for n, e in errs:
        ctx.broke('translator cxx2v failed on %s (tie to source broken)' % n, e)
    res = vlib.coq_props('C07')
    ctx.proof(res)
    ctx.coverage['trusted_base'] = [
        'Coq 8.16.1 kernel (no vm_compute in the property theorems; vm_compute only in the non-vacuity Examples)',
        'hand-written model coq/C07/Defs.v of mem_cache in src/cache_storage.cpp (no cxx2v-translatable leaf functions in this code)',
        'extraction: ExtrOcamlBasic only, OCaml 4.13.1',
        'harness/C07_cache.cpp (interposed time(), fork per process_shared case), ocaml/C07_driver.ml, checks/C07.py (generators, spec interpreter oracle)',
        'hash_map / std::multimap / std::list / std::set behave as finite map / stable sorted multimap / list / set']
    ctx.assumptions = ['single-threaded use (locks not modelled; C09 covers concurrency)',
                       'for correspondence: no allocation failure and not_enough_memory() false (shared segment >= 512 KiB, values <= 100 bytes)',
                       'counters do not wrap (uint64 generation, size_t size)',
                       'time() is the only clock the cache reads (checked by the harness self-test on every run)']
    exe, err = vlib.build_harness('C07_cache', ['C07_cache.cpp'])
    if not exe:
        ctx.broke('harness build failed', err)
        return
    mexe, err = vlib.build_model('C07', 'C07_driver.ml', 'c07m')
    if not mexe:
        ctx.broke('model extraction/build failed', err)
    if ctx.replay_cases is not None:
        cases = ctx.replay_cases
    else:
        cases = vlib.corpus_cases('C07') + gen_cases(ctx)
    ctx.coverage['rule'] = ('case = back end (thread_shared / process_shared 512 KiB-4 MiB), limit, start time and a sequence of store/fetch/rise/remove/clear/'
                            'clock-set operations; the answer lists every fetch result (hit: value, sorted trigger set, deadline, generation) and stats() after '
                            'every operation. Exhaustive: all sequences of a fixed length ending in a fetch over a tiny alphabet (2 keys, triggers from '
                            '{other key, x}, deadlines now-1/now/now+1, rise, remove, clear, clock tick) x limits 0,1,2. Random (seeded): sequences of up to '
                            '200 operations over up to 20 keys and 9 triggers (trigger names overlap key names), limits 0..100000, deadlines around the moving '
                            'clock plus extreme values, explicit generations, values up to 100 bytes. Aimed: the histories named in the property text. '
                            'Plus sequences through cppcms::cache_interface with nested triggers_recorder objects. Non-trivial = at least one hit and at '
                            'least one miss of a previously stored key; distinct = distinct case lines.')
    ctx.coverage['exhaustive'] = False
    ctx.coverage['exhaustive_parts'] = ['all op sequences of length 3 (quick) / 4 (thorough) over the 29-op alphabet ending in a fetch x limits {0,1,2}',
                                        'all op sequences of length 4 (quick) / 5 (thorough) over the 15-op alphabet ending in a fetch']
    seqs = [c for c in cases if c.startswith('seq ')]
    ifcs = [c for c in cases if not c.startswith('seq ')]
    vlib.differential(ctx, seqs, exe, mexe, oracle, nontrivial, classify)
    if ctx.replay_cases is None:
        ifcs += ifc_cases(ctx.rng, ctx.scale(600, 6000), ['t', 'p512'], [0, 0, 2, 64])
    if ifcs:
        vlib.differential(ctx, ifcs, exe, None, oracle, nontrivial, classify, what='correspondence interface model vs cache_interface')
