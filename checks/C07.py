"""C07 -- the cache never returns invalidated, expired or superseded data."""
import os, itertools
import vlib

META = dict(
    property_id='C07',
    design_ref='DESIGN.md section 4, C07',
    technique='Coq proof (mirror-consistency invariant of a line-by-line model of mem_cache, refinement to an abstract LRU cache and to a '
              'map specification, model of cache_interface/triggers_recorder) + extracted-model correspondence on operation sequences '
              'against the real thread_shared and process_shared caches and the real cache_interface (frames, recorders, fetch_page/store_page) '
              '+ specification-interpreter oracle on the implementation answers',
    level_text=('Theorems in coq/C07/Props.v over an executable model (coq/C07/Defs.v) of mem_cache (src/cache_storage.cpp: delete_node, fetch, '
                'store, add_trigger, rise, remove, clear, check_limits with its four indexes and counters) and (coq/C07/Ifc.v) of cache_interface '
                'and triggers_recorder (src/cache_interface.cpp: fetch, store, add_trigger, store_page, fetch_page, reset, recorder attach/detach), '
                'for ALL finite operation sequences, clock schedules, limits, memory-pressure patterns and allocator faults: '
                '(1) the four indexes stay mirror-consistent (Inv) and the model answers equal those of an abstract LRU cache; '
                '(2) refines_spec: with no limit and no allocation failure every fetch answer and the stats after every operation equal those of '
                'the specification map key -> latest store (rise t deletes every binding whose trigger list, own key included, contains t; hit iff '
                'bound and now <= deadline), so a live entry is always found; the same exact agreement for every limited cache whose limit is at '
                'least the number of distinct keys the history stores under (refines_spec_within_limit); (3) refines_spec_limited: for every limit, pressure pattern and '
                'allocator fault, every fetch misses or returns exactly the specification answer and every counted entry is a binding '
                'of the specification map (nothing stale is ever returned or kept); in the specification a store that cannot be carried out '
                '(value cannot be copied into the shared segment - the catch block calls remove(key) -, size test, allocator failure while linking) '
                'leaves the key unbound; (4) the clauses of the property text over explicit '
                'histories, without side conditions on the allocator: hit = value, triggers, deadline of the latest store; miss after remove / clear / '
                'rise of any attached trigger / deadline passed / never stored / a store under the key that could not be carried out; (5) every interface operation is one back-end operation, a recorder returns exactly the names '
                'added between attach and detach under any nesting, the page set holds everything added or inherited since the last reset, a '
                'stored page or frame misses after raising any of its recorded triggers; (6) the model of private/hash_map.h (intrusive list + '
                'bucket ranges, growth rehash, erase repairing range ends, both clear branches) refines a finite map for every operation sequence, '
                'and string_hash::update_state as translated from the current header equals the model hash (Link.v); infty and deadtime() as '
                'translated from the current src/cache_interface.cpp equal the interface model (Link.v). '
                'The model is tied to the current source by running the extracted model and the real code on the same operation sequences: '
                'exhaustive short sequences over a tiny alphabet, long random ones, limits 0,1,2,small,large, both back ends, and sequences '
                'through cache_interface objects of a service and of request contexts.'),
    level_note=('Trusted: Coq kernel; ExtrOcamlBasic extraction; the hand-written models (string_hash::update_state and infty/deadtime() of '
                'cache_interface.cpp are in the loop-free integer fragment cxx2v translates and are linked - after a textual lift into small TUs, '
                'see docs/C07.md; containers, strings, time() are tied by correspondence); the cache model uses a finite map for primary/triggers - the hash_map '
                'model is proved to refine a finite map and is tied to the header separately, the two are composed through that interface, not '
                'as one Coq term; std::multimap/std::list/std::set semantics; locks are not modelled '
                '(single-threaded semantics; concurrency is C09). Allocation failures of the shared-memory variant are oracle arguments of the '
                'model (all covered by the theorems; correspondence covers the value-larger-than-the-segment failure deterministically, the '
                'memory-pressure runs are judged by the oracle alone).'),
)

import re


def _hash_tu():
    """tools/cxx2v.py resolves uint32_t but not the nested typedef string_hash::state_type, so the body of
    string_hash::update_state is lifted textually from the CURRENT private/hash_map.h into a tiny TU (regenerated on every
    import, i.e. on every run) in which the typedef name is replaced by the type it names.  If the function can no longer
    be found in that shape the TU is left without it and the translator reports a broken tie."""
    d = os.path.join(vlib.WORK, 'C07')
    os.makedirs(d, exist_ok=True)
    out = os.path.join(d, 'C07_hash_tu.cpp')
    try:
        src = open(os.path.join(vlib.REPO, 'private', 'hash_map.h')).read()
    except OSError:
        src = ''
    m = re.search(r'typedef\s+uint32_t\s+state_type\s*;.*?static\s+state_type\s+update_state\s*\(\s*state_type\s+value\s*,\s*char\s+c\s*\)\s*\{(.*?)\n\t\}',
                  src, re.S)
    m0 = re.search(r'static\s+const\s+state_type\s+initial_state\s*=\s*(\w+)\s*;', src)
    txt = '// generated by checks/C07.py from private/hash_map.h (string_hash) -- do not edit\n#include <stdint.h>\n'
    if m0:
        txt += 'static const uint32_t c07_initial_state = %s;\n' % m0.group(1)
    if m:
        txt += 'uint32_t c07_update_state(uint32_t value,char c)\n{' + m.group(1).replace('state_type', 'uint32_t') + '\n}\n'
    vlib.write_if_changed(out, txt)
    return out


def _iface_tu():
    """src/cache_interface.cpp: the constant `infty` is a ?: over sizeof(time_t) (the constant evaluator of cxx2v takes literals only)
    and `deadtime()` reads the clock through time() and throws; both are lifted textually from the CURRENT source into a tiny TU
    (regenerated on every run): the initialiser of infty becomes the body of c07_infty() with sizeof(time_t) replaced by 8 (the TU
    static_asserts that this is what the compiler sees), the body of deadtime() becomes c07_deadtime(sec, now) with `time(&tmp);`
    replaced by `tmp=now;`, the throw statement by `return -1;`, the type name time_t by long long.  If the source no longer has
    that shape the function is left out and the translator reports a broken tie."""
    d = os.path.join(vlib.WORK, 'C07')
    os.makedirs(d, exist_ok=True)
    out = os.path.join(d, 'C07_iface_tu.cpp')
    try:
        src = open(os.path.join(vlib.REPO, 'src', 'cache_interface.cpp')).read()
    except OSError:
        src = ''
    txt = ('// generated by checks/C07.py from src/cache_interface.cpp (infty, deadtime) -- do not edit\n#include <time.h>\n'
           'static_assert(sizeof(time_t)==8 && sizeof(long long)==8,"LP64 time_t");\n')
    m1 = re.search(r'const\s+time_t\s+infty\s*=\s*(.*?);', src, re.S)
    if m1 and m1.group(1).count('sizeof(time_t)') == 1:
        txt += 'long long c07_infty()\n{\n\treturn %s;\n}\n' % m1.group(1).replace('sizeof(time_t)', '8')
    m2 = re.search(r'time_t\s+deadtime\s*\(\s*int\s+sec\s*\)\s*\{(.*?)\n\t\}', src, re.S)
    if m2:
        body = m2.group(1)
        throws = re.findall(r'throw\s+cppcms_error\s*\([^;]*\)\s*;', body)
        if body.count('time(&tmp);') == 1 and len(throws) == 1 and len(re.findall(r'\binfty\b', body)) == 1:
            body = body.replace('time(&tmp);', 'tmp=now;').replace(throws[0], 'return -1;')
            body = re.sub(r'\binfty\b', 'c07_infty()', body).replace('time_t', 'long long')
            txt += 'long long c07_deadtime(int sec,long long now)\n{' + body + '\n}\n'
    vlib.write_if_changed(out, txt)
    return out


GEN = {
    # infty and deadtime() of src/cache_interface.cpp (the deadline the interface hands to the back end)
    'Gen_C07_iface': dict(src=_iface_tu(), incs=[], functions=[('c07_infty', 'g_c07_infty'), ('c07_deadtime', 'g_c07_deadtime')]),
    # string_hash::update_state and string_hash::initial_state of private/hash_map.h (the hash behind mem_cache::primary / triggers)
    'Gen_C07_hash': dict(src=_hash_tu(), incs=[], consts=[('c07_initial_state', 'g_c07_hash_initial')],
                         functions=[('c07_update_state', 'g_c07_hash_update')]),
}

T0 = 1000
INFTY = 0x7FFFFFFFFFFFFFFF - 3600 * 24


# --------------------------------------------------------------------------------------------
# token helpers (same syntax as harness/C07_cache.cpp)
# --------------------------------------------------------------------------------------------
def hx(b):
    return b.hex() if b else '-'


def trig_tok(ts):
    ts = list(ts)
    return '+'.join(hx(t) for t in ts) if ts else '.'


def S(k, v, ts, d, g=None):
    vt = v if isinstance(v, str) else hx(v)
    return 'S:%s:%s:%s:%d:%s' % (hx(k), vt, trig_tok(ts), d, '-' if g is None else str(g))


def F(k):
    return 'F:' + hx(k)


def R(t):
    return 'R:' + hx(t)


def D(k):
    return 'D:' + hx(k)


def T(n):
    return 'T:%d' % n


_valcache = {}


def value_bytes(tok):
    if tok.startswith('#'):
        ln, pre = tok[1:].split('x')
        b = b'' if pre == '-' else bytes.fromhex(pre)
        return b + b'v' * (int(ln) - len(b))
    return b'' if tok == '-' else bytes.fromhex(tok)


def value_len(tok):
    if tok.startswith('#'):
        ln, pre = tok[1:].split('x')
        return max(int(ln), 0 if pre == '-' else len(pre) // 2)
    return 0 if tok == '-' else len(tok) // 2


def oversized(backend, vtok):
    """process_shared back end and a value larger than the whole shared segment: copying it into the segment throws
    std::bad_alloc in the first try block of mem_cache::store, whose catch block removes the key and returns"""
    return backend.startswith('p') and value_len(vtok) > int(backend[1:]) * 1024


def valtok_of(tok):
    """the token the harness prints for the value written as `tok` in the case"""
    r = _valcache.get(tok)
    if r is None:
        v = value_bytes(tok)
        if len(v) <= 32:
            r = hx(v)
        else:
            h = 0xcbf29ce484222325
            for c in v:
                h = ((h ^ c) * 0x100000001b3) & 0xFFFFFFFFFFFFFFFF
            r = '#%d.%016x' % (len(v), h)
        if len(_valcache) < 200000:
            _valcache[tok] = r
    return r


# --------------------------------------------------------------------------------------------
# specification interpreter: map + (optionally) the LRU / expired-first eviction rule
# --------------------------------------------------------------------------------------------
class Spec:
    def __init__(self, limit, evict=True):
        self.limit = limit if evict else 0
        self.m = {}          # key -> (valtok, sorted trigger tuple, deadline, gen or None if unknown)
        self.order = []      # keys in store order (tie-break among equal deadlines)
        self.lru = []        # most recently stored-or-hit first
        self.gen = 0
        self.now = T0

    def delete(self, k):
        del self.m[k]
        self.order.remove(k)
        self.lru.remove(k)

    def trig_count(self):
        return sum(len(e[1]) for e in self.m.values())

    def store(self, k, vt, ts, d, g):
        if k in self.m:
            self.delete(k)
        if self.limit > 0:
            while len(self.m) >= self.limit:
                kmin = min(self.order, key=lambda x: self.m[x][2])
                if self.m[kmin][2] < self.now:
                    self.delete(kmin)
                else:
                    self.delete(self.lru[-1])
        if g is None:
            g = self.gen
            self.gen += 1
        self.m[k] = (vt, tuple(sorted(set(ts) | {k})), d, g)
        self.order.append(k)
        self.lru.insert(0, k)

    def fetch(self, k):
        e = self.m.get(k)
        if e is None or e[2] < self.now:
            return None
        self.lru.remove(k)
        self.lru.insert(0, k)
        return e

    def rise(self, t):
        for k in [k for k in self.order if t in self.m[k][1]]:
            self.delete(k)

    def remove(self, k):
        if k in self.m:
            self.delete(k)

    def clear(self):
        self.m.clear()
        self.order = []
        self.lru = []


def parse_case(case):
    c = case.split()
    return c[0], c[1], int(c[2]), int(c[3]), c[4:]


def hit_tok(e, st):
    return 'h:%s:%s:%d:%d:%s' % (e[0], '+'.join(t for t in e[1]) if e[1] else '.', e[2], e[3], st)


def spec_run(limit, t0, ops, evict=True):
    """expected answer tokens (exact rule). keys/triggers are kept as hex tokens (sorting hex = sorting bytes)."""
    sp = Spec(limit, evict)
    sp.now = t0
    out = []
    for o in ops:
        f = o.split(':')
        tag = f[0]
        res = None
        if tag == 'S':
            ts = [] if f[3] == '.' else f[3].split('+')
            sp.store(f[1], valtok_of(f[2]), ts, int(f[4]), None if f[5] == '-' else int(f[5]))
            t = 's'
        elif tag == 'F':
            res = sp.fetch(f[1])
            t = 'm'
        elif tag == 'R':
            sp.rise(f[1]); t = 'r'
        elif tag == 'D':
            sp.remove(f[1]); t = 'd'
        elif tag == 'C':
            sp.clear(); t = 'c'
        elif tag == 'T':
            sp.now = int(f[1]); t = 't'
        else:
            out.append('BAD-OP'); continue
        st = '%d/%d' % (len(sp.m), sp.trig_count())
        out.append(hit_tok(res, st) if res is not None else t + ':' + st)
    return out


def oracle_sound(case, out, pressure=False):
    """C07 on the implementation's answers alone: every hit is exactly the latest store under that key, still valid
    (not removed / cleared / expired / risen); with limit 0 and no memory pressure every live entry is found and stats are exact."""
    mode, backend, limit, t0, ops = parse_case(case)
    toks = out.split(' ') if out else []
    if out.startswith('<') or 'exception' in out:
        return ('cache-crash', 'harness/child died or threw: ' + out[:300])
    if len(toks) != len(ops):
        return ('bad-output', 'answer has %d tokens for %d ops: %s' % (len(toks), len(ops), out[:200]))
    if 'FETCH-FORMS-DIFFER' in out:
        return ('fetch-forms-differ', 'fetch(key,&a,&tags,&timeout,&gen), fetch(key,a,&tags) and fetch(key,0,0,0,0) disagree')
    # "no size limit in play": limit 0, or a limit that is at least the number of distinct keys the history stores under
    # (then nothing can ever be evicted - theorem refines_spec_within_limit)
    nkeys = len(set(o.split(':')[1] for o in ops if o.startswith('S:')))
    exact = (not pressure) and (limit == 0 or limit >= nkeys)
    sp = Spec(0, evict=False)
    sp.now = t0
    # diagnostics only: key -> entries superseded by a later store call under that key that could not be carried out (value larger
    # than the shared segment) or, under memory pressure, may not have been.  They are NOT tolerated: a hit equal to one of
    # them is the regression of /repo commit 6978548 and is reported under its own key.
    stale = {}
    gen_unknown = False
    for i, (o, a) in enumerate(zip(ops, toks)):
        f = o.split(':')
        tag = f[0]
        af = a.split(':')
        if tag == 'S':
            ts = [] if f[3] == '.' else f[3].split('+')
            g = None if f[5] == '-' else int(f[5])
            if oversized(backend, f[2]):
                # this store cannot be carried out.  Property: the key must not be served from older data afterwards:
                # it is absent (and not counted) until the next store.  No generation number is consumed.
                if f[1] in sp.m:
                    stale.setdefault(f[1], []).append(sp.m[f[1]])
                    sp.remove(f[1])
            elif oversized(backend, f[1]) or any(oversized(backend, t) for t in ts):
                # the key or a trigger name cannot be copied into the shared segment: the store cannot be carried out either.
                # Property: the key is absent afterwards.  What happens to the OTHER entries is not the property's business
                # (the implementation drops the whole cache - that is pinned by the model correspondence, not here): from
                # now on misses are always acceptable, hits must still be exactly the latest store, and the value of the
                # generation counter is unknown.
                if f[1] in sp.m:
                    stale.setdefault(f[1], []).append(sp.m[f[1]])
                    sp.remove(f[1])
                exact = False
                gen_unknown = True
            else:
                if pressure and backend.startswith('p') and f[1] in sp.m:
                    # under memory pressure the copy of ANY value may fail: then the key must be absent (a miss is always
                    # allowed in this mode), never the superseded entry
                    pe = sp.m[f[1]]
                    stale.setdefault(f[1], []).append((pe[0], pe[1], pe[2], None))
                elif not pressure:
                    stale.pop(f[1], None)
                sp.store(f[1], valtok_of(f[2]), ts, int(f[4]), g)
                if (pressure or gen_unknown) and g is None:
                    e = sp.m[f[1]]
                    sp.m[f[1]] = (e[0], e[1], e[2], None)
        elif tag == 'F':
            e = sp.m.get(f[1])
            live = e is not None and e[2] >= sp.now
            if af[0] == 'h':
                if len(af) != 6:
                    return ('bad-output', 'malformed hit token ' + a[:200])
                where = 'op %d (%s) answered %s' % (i, o[:80], a[:160])
                ses = stale.get(f[1], [])

                def same(ent):
                    return (ent is not None and ent[2] >= sp.now and af[1] == ent[0] and af[2] == ('+'.join(ent[1]) if ent[1] else '.')
                            and int(af[3]) == ent[2] and (ent[3] is None or int(af[4]) == ent[3]))
                if not same(e) and any(same(x) for x in ses):
                    return ('stale-after-failed-store', 'a later store under this key could not be allocated (value larger than the shared '
                            'segment, or the segment is full) but the entry it supersedes is still served (store must remove the key when '
                            'the value cannot be copied): ' + where)
                if e is None:
                    return ('hit-after-invalidation', 'fetch hit for a key that was never stored, or was removed / cleared / had a trigger '
                            'raised since its last store: ' + where)
                if e[2] < sp.now:
                    return ('hit-after-deadline', 'fetch hit although the deadline %d of the latest store is before now=%d: %s' % (e[2], sp.now, where))
                if af[1] != e[0]:
                    return ('hit-wrong-value', 'hit returned a value that is not the one of the latest store: ' + where)
                if af[2] != ('+'.join(e[1]) if e[1] else '.'):
                    return ('hit-wrong-triggers', 'hit returned trigger set %s, latest store has %s: %s' % (af[2], '+'.join(e[1]), where))
                if int(af[3]) != e[2]:
                    return ('hit-wrong-deadline', 'hit returned deadline %s, latest store has %d: %s' % (af[3], e[2], where))
                if e[3] is not None and int(af[4]) != e[3]:
                    return ('hit-wrong-generation', 'hit returned generation %s, latest store has %d: %s' % (af[4], e[3], where))
                if e[3] is None:
                    # unknown counter under memory pressure: auto generations of one key must still change between stores
                    pass
            elif af[0] == 'm':
                if exact and live:
                    return ('miss-of-live-entry', 'no limit is in play (limit %d, %d distinct keys) but a live entry was not found: op %d (%s), stored %s'
                            % (limit, nkeys, i, o, e[:3]))
            else:
                return ('bad-output', 'unexpected token %s for fetch' % a[:100])
        elif tag == 'R':
            sp.rise(f[1])
            for k in list(stale):
                stale[k] = [x for x in stale[k] if f[1] not in x[1]]
                if not stale[k]:
                    del stale[k]
        elif tag == 'D':
            sp.remove(f[1])
            stale.pop(f[1], None)
        elif tag == 'C':
            sp.clear()
            stale.clear()
        elif tag == 'T':
            sp.now = int(f[1])
        st = af[-1]
        try:
            ks, tsn = [int(x) for x in st.split('/')]
        except ValueError:
            return ('bad-output', 'no stats in token ' + a[:100])
        if exact:
            if ks != len(sp.m) or tsn != sp.trig_count():
                return ('stats-wrong', 'stats after op %d (%s) are %s, history implies %d/%d' % (i, o[:80], st, len(sp.m), sp.trig_count()))
        else:
            if ks > len(sp.m) or tsn > sp.trig_count():
                return ('stats-exceed-history', 'stats after op %d (%s) are %s but at most %d/%d entries can be valid' % (i, o[:80], st, len(sp.m), sp.trig_count()))
            if limit > 0 and ks > limit:
                return ('limit-exceeded', 'cache reports %d keys with limit %d after op %d' % (ks, limit, i))
    return None


def oracle(case, out):
    if out == '<missing>':
        return None         # the worker stopped at an earlier case (which carries the crash marker); no verdict for this one
    if case.startswith('prs '):
        return oracle_sound(case, out, pressure=True)
    if case.startswith('hm '):
        return oracle_hm(case, out)
    if case.startswith('ifc ') or case.startswith('ifp '):
        return oracle_ifc(case, out)
    return oracle_sound(case, out)


# --------------------------------------------------------------------------------------------
# cache_interface with recorders: spec = page trigger set + stack of recorder sets over the map spec
# --------------------------------------------------------------------------------------------
def oracle_ifc(case, out):
    """the property through cppcms::cache_interface, on the implementation's answers alone.
    Specification state: the map spec + the page trigger set + the stack of attached recorder sets; per request
    (mode ifp) whether the response is finished, whether copy_to_cache is on, which page-key prefix is in use."""
    mode, backend, limit, t0, ops = parse_case(case)
    toks = out.split(' ') if out else []
    if out.startswith('<') or 'exception' in out:
        return ('cache-crash', 'harness/child died or threw: ' + out[:300])
    if len(toks) != len(ops):
        return ('bad-output', 'answer has %d tokens for %d ops: %s' % (len(toks), len(ops), out[:200]))
    sp = Spec(0, evict=False)
    sp.now = t0
    page = set()
    recs = []
    req = dict(gz=False, finished=False, copying=False, pgz=False)
    # no size limit in play: limit 0 or at least the number of distinct cache keys the history can store under
    # (frames + both compression variants of every page key)
    nolimit = limit == 0 or limit >= (len(set(o.split(':')[1] for o in ops if o.startswith('S:')))
                                      + 2 * len(set(o.split(':')[1] for o in ops if o.startswith('P:'))))

    def add(t):
        page.add(t)
        for r in recs:
            r.add(t)

    def pkey(gz, k):
        return ('5f5a3a' if gz else '5f553a') + ('' if k == '-' else k)
    for i, (o, a) in enumerate(zip(ops, toks)):
        f = o.split(':')
        tag = f[0]
        if ':' not in a:
            return ('bad-output', 'token without stats: ' + a[:100])
        body, st = a.rsplit(':', 1)
        where = 'op %d (%s) answered %s' % (i, o[:80], a[:160])
        if tag == 'S':
            ts = [] if f[3] == '.' else f[3].split('+')
            secs = int(f[4])
            if f[5] != '1':
                for t in ts:
                    add(t)
                add(f[1])
            if oversized(backend, f[2]):
                # the frame cannot be copied into the shared segment: its triggers were recorded all the same, the key
                # must not be served from older data afterwards
                sp.remove(f[1])
            else:
                sp.store(f[1], valtok_of(f[2]), ts, INFTY if secs < 0 else sp.now + secs, None)
        elif tag == 'P':
            if req['finished']:
                if body != 'skip':
                    return ('bad-output', where)
            else:
                secs = int(f[3])
                add(f[1])
                val = None if req['pgz'] else (valtok_of(f[2]) if req['copying'] else '-')
                sp.store(pkey(req['pgz'], f[1]), val, sorted(page), INFTY if secs < 0 else sp.now + secs, None)
                req['finished'] = True
        elif tag == 'F' or tag == 'G':
            if tag == 'G' and req['finished']:
                if body != 'skip':
                    return ('bad-output', where)
            else:
                if tag == 'G':
                    req['pgz'] = req['gz']
                key = f[1] if tag == 'F' else pkey(req['gz'], f[1])
                what = 'interface fetch' if tag == 'F' else 'fetch_page'
                e = sp.m.get(key)
                live = e is not None and e[2] >= sp.now
                if body.startswith('h'):
                    if e is None:
                        return ('hit-after-invalidation', what + ' hit for a key without a valid store (a trigger recorded while the '
                                'entry was built was raised, or it was removed/cleared): ' + where)
                    if e[2] < sp.now:
                        return ('hit-after-deadline', what + ' hit after the deadline: ' + where)
                    if tag == 'G' and req['gz']:
                        if body != 'h:Z':
                            return ('bad-output', where)
                    elif e[0] is not None and body != 'h:' + e[0]:
                        return ('hit-wrong-value', what + ' returned a value that is not the latest store: ' + where)
                    if tag == 'F' and f[2] != '1':
                        for t in e[1]:
                            add(t)
                    if tag == 'G':
                        req['finished'] = True
                elif body == 'm':
                    if live and nolimit:
                        return ('miss-of-live-entry', what + ' missed a live entry with no limit in play: ' + where)
                    if tag == 'G':
                        req['copying'] = True
                else:
                    return ('bad-output', where)
        elif tag == 'A':
            add(f[1])
        elif tag == 'R':
            sp.rise(f[1])
        elif tag == 'C':
            sp.clear()
        elif tag == 'X':
            page.clear()
        elif tag == 'T':
            sp.now = int(f[1])
        elif tag == 'N':
            page.clear()
            recs = []
            req = dict(gz=(f[1] == '1'), finished=False, copying=False, pgz=False)
        elif tag == '(':
            recs.append(set())
        elif tag == ')':
            if recs:
                r = recs.pop()
                exp = ')' + ('+'.join(sorted(r)) if r else '.')
                if body != exp:
                    return ('recorder-wrong-set', 'detached recorder returned %s, the triggers added or inherited while it was attached are %s: %s'
                            % (body, exp, where))
            elif body != ')none':
                return ('bad-output', where)
        try:
            ks, tsn = [int(x) for x in st.split('/')]
        except ValueError:
            return ('bad-output', 'no stats in token ' + a[:100])
        if nolimit:
            if ks != len(sp.m) or tsn != sp.trig_count():
                return ('stats-wrong', 'stats after op %d (%s) are %s, history implies %d/%d' % (i, o[:80], st, len(sp.m), sp.trig_count()))
        elif ks > len(sp.m) or tsn > sp.trig_count() or ks > limit:
            return ('stats-exceed-history', 'stats after op %d (%s) are %s; at most %d/%d entries can be valid, limit %d'
                    % (i, o[:80], st, len(sp.m), sp.trig_count(), limit))
    return None


# --------------------------------------------------------------------------------------------
# private/hash_map.h directly: finite-map specification over the implementation's answers
# --------------------------------------------------------------------------------------------
def oracle_hm(case, out):
    ops = case.split()[1:]
    if out.startswith('<') or 'exception' in out:
        return ('hashmap-crash', 'hash_map harness died: ' + out[:200])
    toks = out.split(' ') if out else []
    if len(toks) != len(ops):
        return ('bad-output', 'answer has %d tokens for %d ops' % (len(toks), len(ops)))
    m = {}
    for i, (o, a) in enumerate(zip(ops, toks)):
        f = o.split(':')
        af = a.split(':')
        if len(af) != 3:
            return ('bad-output', 'malformed token ' + a[:80])
        where = 'op %d (%s) answered %s' % (i, o, a)
        if f[0] == 'I':
            exp = 'i0' if f[1] in m else 'i1'
            m.setdefault(f[1], int(f[2]))
        elif f[0] == 'F':
            exp = 'f%d' % m[f[1]] if f[1] in m else 'f-'
        elif f[0] == 'E':
            exp = 'e%d' % m[f[1]] if f[1] in m else 'e-'
            m.pop(f[1], None)
        elif f[0] == 'C':
            exp = 'c'
            m.clear()
        elif f[0] == 'R':
            exp = 'rskip' if (int(f[1]) == 0 and m) else 'r'
        else:
            return ('bad-output', where)
        if af[0] != exp:
            return ('hashmap-wrong-answer', 'hash_map answered %s where a finite map answers %s: %s' % (af[0], exp, where))
        if int(af[1]) != len(m):
            return ('hashmap-wrong-size', 'size() is %s, the map holds %d keys: %s' % (af[1], len(m), where))
    return None


def hm_cases(rng, n):
    """sequences against hash_map<std::string,int,string_hash>: few keys in few buckets (collisions, range ends), growth
    rehash (table doubles), explicit rehash to 1 / small / large tables, clear in both branches (size/4 >= table or not)"""
    cases = []
    k = lambda x: hx(x)
    # aimed: one bucket (rehash 1 is undone by growth, so erase right after), first / last / middle erase, reinsertion
    a, b, c, d, e = [bytes([97 + i]) for i in range(5)]
    cases.append('hm ' + ' '.join(['I:%s:%d' % (k(x), i) for i, x in enumerate([a, b, c, d, e])] + ['R:1'] +
                                  ['F:' + k(x) for x in [a, c, e]] + ['E:' + k(a), 'F:' + k(b), 'E:' + k(e), 'F:' + k(d), 'E:' + k(c), 'F:' + k(b), 'F:' + k(d),
                                   'I:%s:7' % k(c), 'F:' + k(c), 'E:' + k(b), 'E:' + k(d), 'E:' + k(c), 'F:' + k(a), 'I:%s:8' % k(a), 'F:' + k(a)]))
    cases.append('hm R:0 F:61 I:61:1 I:61:2 F:61 C R:0 F:61 I:-:3 F:- E:- F:- C C R:3 I:61:4 R:0 F:61')
    # clear with many nodes in a small table (size/4 >= buckets) and with few nodes in a big table
    cases.append('hm R:2 ' + ' '.join('I:%s:%d' % (k(b'k%d' % i), i) for i in range(3)) + ' C F:6b30 I:6b30:5 F:6b30')
    cases.append('hm ' + ' '.join('I:%s:%d' % (k(b'k%d' % i), i) for i in range(40)) + ' R:3 C ' + ' '.join('F:%s' % k(b'k%d' % i) for i in range(0, 40, 7)) + ' I:6b31:1 F:6b31')
    cases.append('hm R:1000 ' + ' '.join('I:%s:%d' % (k(b'k%d' % i), i) for i in range(5)) + ' C F:6b30 I:6b30:5 F:6b30')
    for _ in range(n):
        nk = rng.choice([2, 3, 5, 8, 30, 200])
        keys = [k(b'k%d' % i) for i in range(nk)] + ['-']
        if rng.random() < 0.3:
            keys += [k(bytes([rng.randrange(256) for _ in range(rng.choice([1, 2, 9]))])) for _ in range(4)]
        ops = []
        if rng.random() < 0.5:
            ops.append('R:%d' % rng.choice([0, 1, 2, 5, 64]))
        pi = rng.choice([0.35, 0.5, 0.7])
        for _ in range(rng.choice([5, 30, 120, 400])):
            r = rng.random()
            if r < pi:
                ops.append('I:%s:%d' % (rng.choice(keys), rng.randrange(1000)))
            elif r < pi + 0.18:
                ops.append('F:' + rng.choice(keys))
            elif r < pi + 0.43:
                ops.append('E:' + rng.choice(keys))
            elif r < pi + 0.46:
                ops.append('C')
            else:
                ops.append('R:%d' % rng.choice([0, 1, 1, 2, 3, 7, 16, 100]))
        cases.append('hm ' + ' '.join(ops))
    return cases


# --------------------------------------------------------------------------------------------
# generators
# --------------------------------------------------------------------------------------------
KA, KB, KX = b'a', b'b', b'x'


def small_alphabet(full, big=None):
    """tiny op alphabet for exhaustive enumeration: 2 keys, triggers drawn from {other key, x}, deadlines T0-1, T0, T0+1;
    big = a value token that cannot be copied into the shared segment (process back end): a store of it under either key"""
    ops = []
    deadlines = [T0 - 1, T0, T0 + 1] if full else [T0, T0 + 1]
    for k, other in ((KA, KB), (KB, KA)):
        trigsets = [[], [other], [KX]] if full else [[], [other if k == KB else KX]]
        for ts in trigsets:
            for d in deadlines:
                ops.append(S(k, k + b'1', ts, d))
    ops += [F(KA), F(KB), R(KA), R(KX), D(KA), 'C', 'TICK']
    if full:
        ops += [R(KB), D(KB)]
    if big:
        ops += [S(KA, big, [KX], T0 + 1), S(KB, big, [], T0 + 1)]
    return ops


def expand_ticks(seq):
    now = T0
    out = []
    for o in seq:
        if o == 'TICK':
            now += 1
            out.append(T(now))
        else:
            out.append(o)
    return out


def exhaustive_cases(backend, limits, length, full):
    ops = small_alphabet(full, '#%dx33' % (int(backend[1:]) * 1024 + 1) if backend.startswith('p') else None)
    cases = []
    for seq in itertools.product(ops, repeat=length):
        # the last op of a sequence is only informative when it is a fetch (every prefix is observed through stats anyway)
        if not seq[-1].startswith('F'):
            continue
        e = ' '.join(expand_ticks(seq))
        for lim in limits:
            cases.append('seq %s %d %d %s' % (backend, lim, T0, e))
    return cases


def random_seq(rng, nkeys, ntrigs, length, limit, big_values=False, vsz=None, oversize=0):
    keys = [b'k%d' % i for i in range(nkeys)]
    if rng.random() < 0.2:
        keys[0] = b''
    trigs = [b't%d' % i for i in range(ntrigs)] + keys[:max(1, nkeys // 2)]
    now = T0
    ops = []
    pstore = rng.choice([0.3, 0.45, 0.6])
    for _ in range(length):
        r = rng.random()
        if r < pstore:
            k = rng.choice(keys)
            nt = rng.choice([0, 0, 1, 1, 2, 3])
            ts = [rng.choice(trigs) for _ in range(nt)]
            if rng.random() < 0.1:
                ts.append(k)                      # key inside its own trigger set
            dr = rng.random()
            if dr < 0.6:
                d = now + rng.choice([-1, 0, 0, 1, 1, 2, 3, 5, 10])
            elif dr < 0.9:
                d = now + rng.randrange(0, 30)
            else:
                d = rng.choice([INFTY, 0, -1, -2 ** 62, 2 ** 63 - 1, now - 100])
            g = None
            if rng.random() < 0.15:
                g = rng.choice([0, 1, 2, 7, 2 ** 32, 2 ** 64 - 1, rng.randrange(2 ** 64)])
            if oversize and rng.random() < 0.06:
                # cannot be copied into the shared segment: the store must leave the key absent
                v = '#%dx%s' % (oversize + rng.choice([1, 2, 4096, 88000]), hx(bytes([rng.randrange(256)])))
            elif big_values:
                v = '#%dx%s' % (rng.choice(vsz), hx(bytes([rng.randrange(256)]) + k))
            else:
                ln = rng.choice([0, 1, 2, 3, 8, 31, 32, 33, 100])
                v = '#%dx%s' % (ln, hx(bytes([rng.randrange(256)]))) if ln > 3 else bytes(rng.randrange(256) for _ in range(ln))
            st = S(k, v, ts, d, g)
            if oversize and rng.random() < 0.04:
                # a key or a trigger name that cannot be copied into the shared segment: bad_alloc inside the second try
                # block of store (before resp. after generation++) -> nl_clear
                sf = st.split(':')
                if rng.random() < 0.5:
                    sf[1] = '#%dx%s' % (oversize + 1, hx(b'K'))
                else:
                    sf[3] = '+'.join(([] if sf[3] == '.' else sf[3].split('+')) + ['#%dx%s' % (oversize + 1, hx(b'T'))])
                st = ':'.join(sf)
            ops.append(st)
        elif r < pstore + 0.3:
            ops.append(F(rng.choice(keys)))
        elif r < pstore + 0.38:
            ops.append(R(rng.choice(trigs)))
        elif r < pstore + 0.44:
            ops.append(D(rng.choice(keys)))
        elif r < pstore + 0.455:
            ops.append('C')
        else:
            now += rng.choice([1, 1, 1, 2, 3, 10])
            ops.append(T(now))
    return ops


def aimed_cases(backends, limits):
    """histories named in the property text"""
    a, b, c, x, y = b'a', b'b', b'c', b'x', b'y'
    seqs = [
        # re-store of a key that is also a trigger of another entry: b depends on a; storing a again must not touch b,
        # raising a kills both
        [S(a, b'1', [], T0 + 5), S(b, b'2', [a], T0 + 5), S(a, b'3', [], T0 + 5), F(b), F(a), R(a), F(a), F(b)],
        [S(b, b'2', [a], T0 + 5), S(a, b'1', [], T0 + 5), D(a), F(b), S(a, b'3', [b], T0 + 5), R(b), F(a), F(b)],
        # shared triggers
        [S(a, b'1', [x], T0 + 5), S(b, b'2', [x, y], T0 + 5), S(c, b'3', [y], T0 + 5), R(x), F(a), F(b), F(c), R(y), F(c)],
        [S(a, b'1', [x], T0 + 5), S(b, b'2', [x], T0 + 5), D(a), R(x), F(b), S(a, b'1', [x], T0 + 5), F(a)],
        # deadline == now, now-1, now+1 and the clock passing them
        [S(a, b'1', [], T0), S(b, b'2', [], T0 - 1), S(c, b'3', [], T0 + 1), F(a), F(b), F(c), T(T0 + 1), F(a), F(c), T(T0 + 2), F(c)],
        # key inside its own trigger set
        [S(a, b'1', [a], T0 + 5), F(a), R(a), F(a), S(a, b'1', [a, x], T0 + 5), F(a), R(x), F(a)],
        # superseding store: value, triggers, deadline and generation all replaced; old triggers no longer attached
        [S(a, b'1', [x], T0 + 5, 7), F(a), S(a, b'2', [y], T0 + 9), F(a), R(x), F(a), R(y), F(a)],
        # an expired entry is not resurrected by anything, and stays counted until evicted or replaced
        [S(a, b'1', [x], T0), T(T0 + 1), F(a), S(b, b'2', [x], T0 + 5), F(a), R(x), F(a), F(b)],
        # clear then reuse
        [S(a, b'1', [x], T0 + 5), S(b, b'2', [x], T0 + 5), 'C', F(a), F(b), R(x), S(a, b'3', [], T0 + 5), F(a)],
        # empty strings as key, value and trigger
        [S(b'', b'', [b''], T0 + 5), F(b''), R(b''), F(b''), S(b'', b'', [], T0 + 5), S(a, b'', [b''], T0 + 5), R(b''), F(a)],
    ]
    cases = []
    for be in backends:
        for lim in limits:
            for s in seqs:
                cases.append('seq %s %d %d %s' % (be, lim, T0, ' '.join(s)))
            if be.startswith('p'):
                # a value that cannot be copied into the shared segment (std::bad_alloc in the first try block of store):
                # the key must not be served from the superseded entry afterwards (the catch block removes the key;
                # regression of /repo commit 6978548 = oracle key stale-after-failed-store)
                big = '#%dx32' % (int(be[1:]) * 1024 + 88000)
                cases.append('seq %s %d %d %s' % (be, lim, T0, ' '.join(
                    [S(a, b'1', [x], T0 + 5), F(a), S(a, big, [], T0 + 5), F(a), S(b, b'2', [x], T0 + 5), F(b), R(x), F(a), F(b)])))
                cases.append('seq %s %d %d %s' % (be, lim, T0, ' '.join(
                    [S(a, big, [x], T0 + 5), F(a), S(a, b'1', [], T0 + 5), F(a), S(a, big, [], T0 + 5), D(a), F(a)])))
                # a key / a trigger name that cannot be copied: std::bad_alloc inside the second try block -> nl_clear; the key
                # copy fails before generation++ (the next automatic generation is unchanged), the trigger copy after it
                seg = int(be[1:]) * 1024
                bigk = '#%dx4b' % (seg + 1)
                bigt = '#%dx54' % (seg + 1)
                cases.append('seq %s %d %d %s' % (be, lim, T0, ' '.join(
                    [S(a, b'1', [x], T0 + 5), S(b, b'2', [], T0 + 5), 'S:%s:33:.:%d:-' % (bigk, T0 + 5), F(a), F(b), 'F:' + bigk,
                     S(a, b'4', [], T0 + 5), F(a), 'S:%s:35:%s+%s:%d:-' % (hx(b), hx(x), bigt, T0 + 5), F(a), F(b), 'R:' + bigt, 'D:' + bigk,
                     S(a, b'6', [], T0 + 5), F(a), 'S:%s:37:%s:%d:9' % (hx(a), bigt, T0 + 5), F(a), S(b, b'8', [], T0 + 5), F(b)])))
            # > 2*limit inserts (forces hash_map rehash while trigger lists hold iterators), then rise of a shared trigger
            n = max(8, 3 * lim if lim < 200 else 8)
            seq = []
            for i in range(n):
                seq.append(S(b'k%d' % i, b'v%d' % i, [b'all', b'm%d' % (i % 3)], T0 + 5 + i % 4))
                if i % 3 == 0:
                    seq.append(F(b'k%d' % (i // 2)))
            seq += [F(b'k%d' % i) for i in range(n)]
            seq += [R(b'm1')] + [F(b'k%d' % i) for i in range(n)] + [R(b'all')] + [F(b'k%d' % i) for i in range(n)]
            cases.append('seq %s %d %d %s' % (be, lim, T0, ' '.join(seq)))
    return cases


def ifc_cases(rng, n, backends, limits):
    """sequences through cppcms::cache_interface.  mode ifc: a context-free cache_interface(service) (frames, add_trigger,
    nested recorders, reset); mode ifp: the cache_interface of request contexts, plus N (next request, gzip or not),
    G (fetch_page) and P (write + store_page)."""
    cases = []
    keys = [b'f%d' % i for i in range(4)]
    trigs = [b't%d' % i for i in range(4)] + keys[:2]
    pages = [b'p0', b'p1', b'']
    Sf = lambda k, v, ts, secs, notr: 'S:%s:%s:%s:%d:%d' % (hx(k), hx(v), trig_tok(ts), secs, notr)
    for be in backends:
        for lim in limits:
            # the repo's own nesting plus inheritance: the inner recorder sees what is added while it is attached, the outer one everything
            seq = ['(', Sf(b'f0', b'x', [b't0'], 10, 0), '(', 'F:%s:0' % hx(b'f0'), 'A:' + hx(b't1'), ')',
                   Sf(b'f1', b'y', [b't2'], -1, 1), 'F:%s:1' % hx(b'f1'), ')', 'R:' + hx(b't2'), 'F:%s:0' % hx(b'f1')]
            cases.append('ifc %s %d %d %s' % (be, lim, T0, ' '.join(seq)))
            # a page that fetched a cached frame inherits the frame's triggers: raising one kills page and frame; the gzip variant of
            # the page (key prefix _Z:) built in another request without the frame survives; reset() drops what was collected
            seq = [Sf(b'f0', b'frame', [b't0'], 10, 1), '(', 'F:%s:0' % hx(b'f0'), '(', 'A:' + hx(b'u1'), ')', ')', 'G:' + hx(b'p0'),
                   'P:%s:%s:10' % (hx(b'p0'), '#50x41'), 'N:0', 'G:' + hx(b'p0'), 'N:1', 'G:' + hx(b'p0'), 'P:%s:%s:10' % (hx(b'p0'), hx(b'ZZ')),
                   'N:1', 'G:' + hx(b'p0'), 'R:' + hx(b't0'), 'N:0', 'G:' + hx(b'p0'), 'F:%s:0' % hx(b'f0'), 'N:1', 'G:' + hx(b'p0'),
                   'N:0', 'A:' + hx(b't3'), 'X', 'G:' + hx(b'p1'), 'P:%s:%s:-1' % (hx(b'p1'), hx(b'q')), 'R:' + hx(b't3'), 'N:0', 'G:' + hx(b'p1'),
                   'R:' + hx(b'p1'), 'N:0', 'G:' + hx(b'p1')]
            cases.append('ifp %s %d %d %s' % (be, lim, T0, ' '.join(seq)))
            if be.startswith('p'):
                # a frame that cannot be copied into the shared segment, stored inside a recorder over a cached older version:
                # the recorder still sees its key and trigger, the old version is gone, a page built from it keeps its triggers
                big = '#%dx46' % (int(be[1:]) * 1024 + 1)
                seq = [Sf(b'f0', b'old', [b't0'], 10, 1), 'F:%s:1' % hx(b'f0'), '(', 'S:%s:%s:%s:10:0' % (hx(b'f0'), big, hx(b't1')), ')',
                       'F:%s:0' % hx(b'f0'), Sf(b'f1', b'y', [b'f0'], 10, 1), 'R:' + hx(b'f0'), 'F:%s:1' % hx(b'f1'),
                       Sf(b'f0', b'new', [], 10, 0), 'F:%s:0' % hx(b'f0')]
                cases.append('ifc %s %d %d %s' % (be, lim, T0, ' '.join(seq)))
            # timeout < 0 means the constant infty = max time_t - one day: alive at that very second, expired one second later
            seq = [Sf(b'f0', b'x', [], -1, 0), Sf(b'f1', b'y', [], 0, 0), 'T:%d' % (T0 + 1), 'F:%s:0' % hx(b'f0'), 'F:%s:0' % hx(b'f1'),
                   'T:%d' % INFTY, 'F:%s:0' % hx(b'f0'), 'T:%d' % (INFTY + 1), 'F:%s:0' % hx(b'f0')]
            cases.append('ifc %s %d %d %s' % (be, lim, T0, ' '.join(seq)))
            # store_page without a preceding fetch_page miss stores empty copied_data(); expiry of a page
            seq = ['P:%s:%s:5' % (hx(b'p0'), hx(b'AA')), 'G:' + hx(b'p0'), 'N:0', 'G:' + hx(b'p0'), 'P:%s:%s:5' % (hx(b'p1'), hx(b'B')),
                   'N:0', 'G:' + hx(b'p1'), 'P:%s:%s:5' % (hx(b'p1'), hx(b'B')), 'T:%d' % (T0 + 5), 'N:0', 'G:' + hx(b'p1'),
                   'T:%d' % (T0 + 6), 'N:0', 'G:' + hx(b'p1'), 'G:' + hx(b'p0')]
            cases.append('ifp %s %d %d %s' % (be, lim, T0, ' '.join(seq)))
    for _ in range(n):
        be = rng.choice(backends)
        lim = rng.choice(limits)
        paged = rng.random() < 0.6
        now = T0
        depth = 0
        seq = []
        for _ in range(rng.randrange(4, 40)):
            r = rng.random()
            if r < 0.22:
                nt = rng.choice([0, 1, 1, 2])
                if be.startswith('p') and rng.random() < 0.12:
                    # a frame larger than the shared segment
                    seq.append('S:%s:#%dx%02x:%s:%d:%d' % (hx(rng.choice(keys)), int(be[1:]) * 1024 + rng.choice([1, 5000]), rng.randrange(97, 123),
                                                          trig_tok(set(rng.choice(trigs) for _ in range(nt))), rng.choice([-1, 1, 10]), rng.random() < 0.2))
                    continue
                seq.append(Sf(rng.choice(keys), bytes([rng.randrange(97, 123)]), set(rng.choice(trigs) for _ in range(nt)),
                              rng.choice([-1, 0, 1, 2, 10]), rng.random() < 0.2))
            elif r < 0.40:
                seq.append('F:%s:%d' % (hx(rng.choice(keys)), rng.random() < 0.2))
            elif r < 0.48:
                seq.append('A:' + hx(rng.choice(trigs)))
            elif r < 0.56:
                seq.append('R:' + hx(rng.choice(trigs + pages[:2])))
            elif r < 0.64 and depth < 4:
                seq.append('('); depth += 1
            elif r < 0.72 and depth > 0:
                seq.append(')'); depth -= 1
            elif r < 0.80 and paged:
                seq.append('G:' + hx(rng.choice(pages)))
            elif r < 0.87 and paged:
                seq.append('P:%s:%s:%d' % (hx(rng.choice(pages)), hx(bytes([rng.randrange(65, 91)]) * rng.choice([1, 2, 40])), rng.choice([-1, 0, 1, 5])))
            elif r < 0.93 and paged:
                seq.append('N:%d' % (rng.random() < 0.3)); depth = 0
            elif r < 0.95:
                seq.append('X')
            elif r < 0.96:
                seq.append('C')
            else:
                now += rng.choice([1, 1, 2, 5])
                seq.append(T(now))
        while depth > 0:
            seq.append(')'); depth -= 1
        cases.append('%s %s %d %d %s' % ('ifp' if paged else 'ifc', be, lim, T0, ' '.join(seq)))
    return cases


def ifc_exhaustive(length, backend='t'):
    """all interface sequences of a fixed length over a tiny alphabet: one frame with one trigger stored with/without notriggers,
    fetched with/without notriggers, an explicit trigger, rise of the frame trigger, recorder open/close, reset; closed by
    detaching every recorder still open.  On a process back end the alphabet has one more operation - a store of that frame
    with a value that cannot be copied into the shared segment - and only the sequences that use it are generated."""
    f0, t0, t1 = hx(b'f0'), hx(b't0'), hx(b't1')
    alpha = ['S:%s:78:%s:5:0' % (f0, t0), 'S:%s:79:.:5:1' % f0, 'F:%s:0' % f0, 'F:%s:1' % f0, 'A:' + t1, 'R:' + t0, '(', ')', 'X']
    big = None
    if backend.startswith('p'):
        big = 'S:%s:#%dx7a:%s:5:0' % (f0, int(backend[1:]) * 1024 + 1, t1)
        alpha.append(big)
    cases = []
    for seq in itertools.product(alpha, repeat=length):
        if big and big not in seq:
            continue
        depth = 0
        ok = True
        for o in seq:
            if o == '(':
                depth += 1
            elif o == ')':
                if depth == 0:
                    ok = False
                    break
                depth -= 1
        if not ok:
            continue
        cases.append('ifc %s 0 %d %s' % (backend, T0, ' '.join(list(seq) + [')'] * depth + (['F:%s:1' % f0] if big else []))))
    return cases


def pressure_cases(rng, n):
    """process_shared cache with values of 4..60 KiB in a 512 KiB / 1 MiB segment: not_enough_memory() evictions, failed copies,
    bad_alloc -> nl_clear.  No model (the allocator is the environment); the oracle demands that every hit is the latest store."""
    cases = []
    for _ in range(n):
        be = rng.choice(['p512', 'p512', 'p1024'])
        lim = rng.choice([0, 0, 3, 8, 50])
        vsz = rng.choice([[4000, 9000], [20000, 30000], [30000, 60000], [100, 50000, 120000]])
        nk = rng.choice([3, 6, 12])
        ops = random_seq(rng, nk, rng.choice([1, 3]), rng.choice([20, 60, 120]), lim, big_values=True, vsz=vsz)
        cases.append('prs %s %d %d %s' % (be, lim, T0, ' '.join(ops)))
    return cases


def gen_cases(ctx):
    rng = ctx.rng
    cases = []
    # aimed histories on both back ends, limits 0,1,2,small,large
    cases += aimed_cases(['t', 'p512'], [0, 1, 2, 5, 1000])
    # exhaustive short sequences over the tiny alphabet
    if ctx.quick():
        cases += exhaustive_cases('t', [0, 1, 2], 3, True)
        cases += exhaustive_cases('t', [0, 2], 4, False)
        cases += exhaustive_cases('p512', [0], 3, False)       # includes stores of a value that cannot be copied
    else:
        cases += exhaustive_cases('t', [0, 1, 2], 4, True)
        cases += exhaustive_cases('t', [0, 1, 2], 5, False)
        cases += exhaustive_cases('p512', [0, 1], 3, False)
    # long random sequences over larger alphabets
    for _ in range(ctx.scale(2500, 30000)):
        lim = rng.choice([0, 0, 0, 1, 2, 3, 5, 8, 64, 100000])
        nk = rng.choice([2, 3, 5, 8, 20])
        be = 't' if rng.random() < 0.8 else rng.choice(['p512', 'p512', 'p1024', 'p4096'])
        ln = rng.choice([10, 30, 80, 200])
        if be != 't' and lim > 1000:
            lim = 1000          # the constructor allocates 2 x limit x 16 bytes of the shared segment
        over = int(be[1:]) * 1024 if be != 't' and rng.random() < 0.7 else 0
        cases.append('seq %s %d %d %s' % (be, lim, T0, ' '.join(random_seq(rng, nk, rng.choice([1, 3, 6]), ln, lim, oversize=over))))
    return cases


def nontrivial(case, out):
    if case.startswith('hm '):
        # a refused duplicate insert, a successful erase and a rehash all happened
        return ' i0:' in ' ' + out and ' e' in out and ' r:' in ' ' + out
    # a sequence that produced at least one hit and at least one miss of a key that had been stored before
    if ' h:' not in ' ' + out:
        return False
    ops = case.split()[4:]
    stored = set()
    for o, a in zip(ops, out.split(' ')):
        if o.startswith('S:'):
            stored.add(o.split(':')[1])
        elif o.startswith('F:') and a.startswith('m') and o.split(':')[1] in stored:
            return True
    return False


def classify(case, out):
    if case.startswith('hm '):
        n = case.count(' ')
        return 'hm:' + ('len<=40' if n <= 40 else 'len>40')
    c = case.split(None, 4)
    lim = int(c[2])
    n = len(c[4].split()) if len(c) > 4 else 0
    lb = 'limit0' if lim == 0 else 'limit1-2' if lim <= 2 else 'limit3-8' if lim <= 8 else 'limit>8'
    nb = 'len<=5' if n <= 5 else 'len6-40' if n <= 40 else 'len>40'
    # histories that contain a store which cannot be carried out (value larger than the shared segment) are counted separately
    fs = ':failed-store' if c[1] != 't' and len(c) > 4 and any(o.startswith('S:') and ('#' in o.split(':')[1] or '#' in o.split(':')[3] or oversized(c[1], o.split(':')[2]))
                                                                 for o in c[4].split()) else ''
    return '%s:%s:%s:%s%s' % (c[0], 'thread' if c[1] == 't' else 'process', lb, nb, fs)


def run(ctx):
    errs = vlib.gen_coq(GEN)
    for n, e in errs:
        ctx.broke('translator cxx2v failed on %s (tie to source broken)' % n, e)
    res = vlib.coq_props('C07')
    ctx.proof(res)
    ctx.coverage['trusted_base'] = [
        'Coq 8.16.1 kernel (vm_compute only in the non-vacuity / regression Examples)',
        'hand-written models coq/C07/Defs.v (mem_cache, src/cache_storage.cpp), coq/C07/Ifc.v (cache_interface, triggers_recorder, '
        'src/cache_interface.cpp) and coq/C07/HashMap.v (private/hash_map.h); generated leafs: string_hash::update_state (coq/gen/Gen_C07_hash.v, '
        'lifted textually from the header into a TU because cxx2v does not resolve the nested typedef state_type) and infty / deadtime() '
        '(coq/gen/Gen_C07_iface.v, lifted from src/cache_interface.cpp with sizeof(time_t)=8 static_asserted, time() as a parameter, throw as return -1)',
        'the map specification of coq/C07/Spec.v (m_step, m_fetch) and coq/C07/MapSpec.v is what the property text means',
        'extraction: ExtrOcamlBasic only, OCaml 4.13.1',
        'harness/C07_cache.cpp + harness/C07_dummy_api.h (interposed time(), fork per process_shared / interface case, socket-less cgi connection '
        'for request contexts), ocaml/C07_driver.ml, checks/C07.py (generators, spec interpreter oracle)',
        'harness/C07_hashmap.cpp (hash_map<std::string,int,string_hash> of the current header)',
        'std::multimap / std::list / std::set behave as stable sorted multimap / list / set; the cache model composes with the proved hash_map '
        'model through the finite-map interface']
    ctx.assumptions = ['single-threaded use (locks not modelled; C09 covers concurrency)',
                       'theorems refines_spec / live_entry_found: limit 0, no allocation failure, not_enough_memory() false (op_no_fault)',
                       'theorems refines_spec_within_limit / live_entry_found_within_limit: limit >= number of distinct stored keys, op_no_fault',
                       'theorems refines_spec_limited and the miss/hit clauses: none (every limit, fault and pressure pattern)',
                       'for correspondence: not_enough_memory() false (shared segment >= 512 KiB, values <= 100 bytes); the only allocation failures are '
                       'those of values / keys / trigger names larger than the whole segment, which fail deterministically',
                       'counters do not wrap (uint64 generation, size_t size); deadtime(): now + seconds does not overflow time_t',
                       'time() is the only clock the cache reads (the harness self-test checks on every run that the library calls the interposed time())',
                       'fetch_page/store_page: the request is a GET with or without Accept-Encoding: gzip, default content type, io_mode normal']
    exe, err = vlib.build_harness('C07_cache', ['C07_cache.cpp'])
    if not exe:
        ctx.broke('harness build failed', err)
        return
    mexe, err = vlib.build_model('C07', 'C07_driver.ml', 'c07m')
    if not mexe:
        ctx.broke('model extraction/build failed', err)
    if ctx.replay_cases is not None:
        cases = ctx.replay_cases
    else:
        cases = vlib.corpus_cases('C07') + gen_cases(ctx)
    ctx.coverage['rule'] = ('case = back end (thread_shared / process_shared 512 KiB-4 MiB), limit, start time and a sequence of store/fetch/rise/remove/clear/'
                            'clock-set operations; the answer lists every fetch result (hit: value, sorted trigger set, deadline, generation) and stats() after '
                            'every operation. Exhaustive: all sequences of a fixed length ending in a fetch over a tiny alphabet (2 keys, triggers from '
                            '{other key, x}, deadlines now-1/now/now+1, rise, remove, clear, clock tick) x limits 0,1,2. Random (seeded): sequences of up to '
                            '200 operations over up to 20 keys and 9 triggers (trigger names overlap key names), limits 0..100000, deadlines around the moving '
                            'clock plus extreme values, explicit generations, values up to 100 bytes; on process back ends also stores whose value (6%), key or '
                            'trigger name (4%) is larger than the whole shared segment (std::bad_alloc in the first / second try block of store: key removed / '
                            'cache cleared). Aimed: the histories named in the property text. '
                            'Mode ifc: sequences through a cppcms::cache_interface(service) - store_frame/fetch_frame with and without notriggers, add_trigger, '
                            'rise, clear, reset, nested triggers_recorder attach/detach; mode ifp: the same through the cache_interface of request contexts '
                            '(socket-less connection) plus next-request, fetch_page and store_page with and without gzip; both compared with the extracted '
                            'interface model and judged by the oracle (recorder sets, inherited triggers, page invalidation). Mode hm: insert/find/erase/clear/'
                            'rehash sequences against cppcms::impl::hash_map<std::string,int,string_hash> itself; result, size() and a digest of the iteration '
                            'order after every operation must equal the extracted hash_map model (so bucket ranges, rehash order and the hash function are '
                            'pinned), the oracle is the finite map. Non-trivial = at least one hit and at '
                            'least one miss of a previously stored key; distinct = distinct case lines.')
    ctx.coverage['exhaustive'] = False
    ctx.coverage['exhaustive_parts'] = ['all op sequences of length 3 (quick) / 4 (thorough) over the 27-op alphabet ending in a fetch x limits {0,1,2}',
                                        'process_shared 512 KiB: all op sequences of length 3 over the 15-op alphabet + 2 stores of a value larger than the '
                                        'segment, ending in a fetch, limit 0 (thorough: limits 0,1)',
                                        'all op sequences of length 4 (quick) / 5 (thorough) over the 15-op alphabet ending in a fetch',
                                        'all well-nested interface sequences of length 3 (quick) / 4 (thorough) over a 9-op alphabet (store with/without '
                                        'notriggers, fetch with/without notriggers, add_trigger, rise, recorder open/close, reset)',
                                        'process_shared 512 KiB: all well-nested interface sequences of length 3 over that alphabet plus a store_frame of a value '
                                        'larger than the segment that use that store at least once']
    seqs = [c for c in cases if c.startswith('seq ')]
    ifcs = [c for c in cases if c.startswith('ifc ') or c.startswith('ifp ')]
    hms = [c for c in cases if c.startswith('hm ')]
    if seqs:
        vlib.differential(ctx, seqs, exe, mexe, oracle, nontrivial, classify)
    if ctx.replay_cases is None:
        ifcs += ifc_cases(ctx.rng, ctx.scale(600, 6000), ['t', 'p512'], [0, 0, 2, 64])
        ifcs += ifc_exhaustive(ctx.scale(3, 4))
        ifcs += ifc_exhaustive(3, 'p512')
    prss = [c for c in cases if c.startswith('prs ')]
    if ctx.replay_cases is None:
        prss += pressure_cases(ctx.rng, ctx.scale(150, 1500))
    if prss:
        vlib.differential(ctx, prss, exe, None, oracle, nontrivial, classify, what='oracle only: process_shared cache under memory pressure')
    if ctx.replay_cases is None:
        hms += hm_cases(ctx.rng, ctx.scale(1500, 15000))
    if hms:
        hexe, err = vlib.build_harness('C07_hashmap', ['C07_hashmap.cpp'], link=False)
        if not hexe:
            ctx.broke('hash_map harness build failed', err)
        else:
            vlib.differential(ctx, hms, hexe, mexe, oracle, nontrivial, classify, what='correspondence hash_map model vs private/hash_map.h')
    if ifcs:
        vlib.differential(ctx, ifcs, exe, mexe, oracle, nontrivial, classify, what='correspondence interface model vs cache_interface')
