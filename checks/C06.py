"""C06 -- session state carries over between requests exactly, never after it ended."""
import os, re, struct, zlib
import vlib
from vlib import hexs, unhex

META = dict(
    property_id='C06',
    design_ref='DESIGN.md section 4, C06',
    technique='Coq proof (codec round trip / totality by induction; per-request theorems, frame and history invariants, end-to-end refinement '
              'theorems over all histories of an executable model of session_interface + sid/cookies/dual back-ends + abstract storage + cookie '
              'jars + virtual clock) + extracted-model correspondence on the real session_interface (cookie-jar adapter AND real HTTP front end) '
              'with interposed time() + independent token-level property oracle',
    level_text=('Theorems in coq/C06/Props.v (62, all closed under the global context) over an executable model of session_interface::load/save '
                '(new-session rule, fixed/renew/browser policy with the IEEE-double 10 % window, cookie_age, session_age, '
                'update_exposed(force, resend = new session or mode != fixed)), clear() resetting age/expiration/on_server to the configured '
                'defaults, the packed entry codec, session_sid, session_cookies (symbolic MAC), session_dual, an abstract session_storage, '
                'per-browser cookie jars and a virtual clock: codec round trip and totality, save_data defined exactly on keys < 2^10 and values '
                '< 2^21 bytes (a value of exactly 2 MiB is refused, not stored with a wrapped length); in every history every storage access uses a '
                '32-hex id; clear kills the id, reset removes the old id and issues the next output of the random source, moving back to the '
                'cookie leaves no server record; the IEEE-double test of the 10 % window is exactly the integer test 10*delta < timeout for '
                'every int timeout; a request that takes an early return of save() changes nothing but browser-side cookie expiry; a live '
                'record / client cookie is read back exactly, an expired / unknown / malformed / forged one reads empty; for every history of '
                'other browsers, clock advances and attacker strings nobody else reads or changes a session (also across any number of the '
                'browser\'s own unchanged requests); age / expiration / on_server are always exactly what the entries _t/_h/_s record, for '
                'every script incl. clear(); end to end (server, client and dual back-ends): the next request of a browser reads exactly the '
                'state the previous one left (values, exposed flags, age, expiration mode, on-server flag) while now <= the deadline of the '
                'mode, the empty session afterwards - also in closed form from the empty world over all fair histories (reachable-world '
                'invariant). Exposed cookies, all three expiration modes: only exposed keys keep a cookie; whenever a save gives the session '
                'cookie a new lifetime (renew, browser, new or reset session in fixed mode) the cookie of every exposed value gets exactly '
                'that lifetime, otherwise (fixed, no reset) deadline, cookie end and untouched exposed cookies stay as they are; so every '
                'save re-establishes that each exposed cookie ends with the session cookie (in fixed mode also proved along histories: r1, any '
                'foreign steps and own unchanged requests, r2), and the browser holds them as long as it holds '
                'the session cookie, whatever other browsers / attackers do and across its own unchanged requests; every deletion cookie is '
                'justified (a save that merely sends everything again deletes no hidden key that was never exposed). '
                'Tie to the source: the character test of valid_sid (src/session_sid.cpp) and the limit tests of packed::packed, the bit-field '
                'widths of struct packed and the bounds tests of load_data (src/session_interface.cpp) are regenerated from the current source '
                'on every run and proved equal to the model; the limit tests accept exactly the sizes the bit-fields can hold. The '
                'model is tied to the code by running the extracted model and the real cppcms::session_interface - over a cookie-jar adapter '
                'with the real memory / file / network storages behind a logging decorator, and as session_interface(http::context&) behind a '
                'real in-process HTTP service - on the same multi-browser histories with attacker cookies, observing what is read, the '
                'storage operations, the resulting jar and the deletion cookies emitted; an independent Python oracle evaluates the property '
                'text on the implementation output alone.'),
    level_note=('Trusted: Coq kernel + vm_compute; ExtrOcamlBasic extraction; the hand model (tied by correspondence; the only '
                'source-generated leafs are the sid character test and the limit / bounds tests and field widths of the entry codec; the regular-'
                'expression cut of those expressions; the bit-field allocation order of the compiler); symbolic MAC (an attacker string never carries a valid MAC unless it is a '
                'verbatim replay); the browser model (a cookie is sent until its max-age elapsed, session cookies for ever); storages are '
                'observed through the session_storage interface only; hypotheses on the random source (pairwise distinct, the drawn id well '
                'formed) are explicit premises. Not covered: CSRF token generation, the empty key, negative ages, keys _t/_h/_s set by the '
                'application, the exposed-in-step statement as ONE invariant over all reachable worlds (proved as an inductive step of every '
                'save), concurrency between requests, gc jobs.'),
)

PACKED_TU = os.path.join(vlib.WORK, 'C06', 'C06_packed_leafs.cpp')
PACKED_LEAFS = ['c06_keylong', 'c06_vallong', 'c06_key_field', 'c06_data_field', 'c06_word', 'c06_hdr', 'c06_fits', 'c06_more']
GEN = {'Gen_C06packed': dict(src=PACKED_TU, incs=[], functions=[(n, 'g_' + n) for n in PACKED_LEAFS])}


def packed_leafs():
    """Tie of the entry codec to the source (src/session_interface.cpp): the two limit tests of packed::packed(ks,exp,ds), the
    bit-field widths of struct packed and the bounds tests of load_data are cut from the CURRENT source text into a tiny TU of
    loop-free functions which tools/cxx2v.py translates (coq/gen/Gen_C06packed.v).  coq/C06/Link.v proves that the limit tests refuse
    exactly the sizes the bit-fields cannot represent and that all of it equals the model's codec (entry_fits, header, load_aux).
    Returns an error text when the statements no longer have the shape the model was written for."""
    try:
        src = open(os.path.join(vlib.REPO, 'src', 'session_interface.cpp')).read()
    except OSError as e:
        return str(e)
    src = re.sub(r'//[^\n]*', '', src)
    src = ' '.join(re.sub(r'/\*.*?\*/', '', src, flags=re.S).split())
    E = r'([^;{}]*?)'
    m1 = re.search(r'struct packed ?\{ ?uint32_t key_size ?: ?(\d+) ?; ?uint32_t exposed ?: ?(\d+) ?; ?uint32_t data_size ?: ?(\d+) ?; ?packed\(\) ?\{ ?\}', src)
    m2 = re.search(r'packed\(unsigned ks, ?bool exp, ?unsigned ds\) ?\{ ?if ?\(' + E + r'\) ?throw cppcms_error\("session::save key too long"\); ?'
                   r'if ?\(' + E + r'\) ?throw cppcms_error\("session::save value too long"\); ?key_size ?= ?ks; ?exposed ?= ?exp ?\? ?1 ?: ?0; ?data_size ?= ?ds; ?\}', src)
    m3 = re.search(r'packed\(char const \*start, ?char const \*end\) ?\{ ?if ?\(' + E + r'\) ?\{ ?memcpy\(this, ?start, ?4\); ?\} ?else throw cppcms_error', src)
    m4 = re.search(r'while ?\(' + E + r'\) ?\{ ?packed p\(begin, ?end\); ?begin ?\+= ?sizeof\(p\); ?if ?\(' + E + r'\) ?\{ ?std::string key\(begin, ?begin ?\+ ?p\.key_size\); ?'
                   r'begin ?\+= ?p\.key_size; ?std::string val\(begin, ?begin ?\+ ?p\.data_size\); ?begin ?\+= ?p\.data_size;', src)
    m5 = re.search(r'packed header\(p->first\.size\(\), ?p->second\.exposed, ?p->second\.value\.size\(\)\);', src)
    if not (m1 and m2 and m3 and m4 and m5):
        return ('session_interface.cpp: struct packed / save_data / load_data no longer have the statement structure the model was written for (%s)'
                % ','.join(n for n, m in (('bit-fields', m1), ('limit tests', m2), ('header test', m3), ('load loop', m4), ('save_data header', m5)) if not m))
    kb, eb, db = int(m1.group(1)), int(m1.group(2)), int(m1.group(3))
    fits = m4.group(2).replace('p.key_size', 'key_size').replace('p.data_size', 'data_size')
    for g in (m2.group(1), m2.group(2), m3.group(1), m4.group(1), fits):
        if re.search(r'[^\w\s<>=!+\-*()]', g) or re.search(r'\b(?!ks\b|ds\b|start\b|end\b|begin\b|key_size\b|data_size\b|int\b)[A-Za-z_]\w*', g):
            return 'session_interface.cpp: expression outside the translatable subset: ' + g
    tu = '\n'.join([
        '// GENERATED by checks/C06.py from src/session_interface.cpp (expressions copied verbatim; pointers become byte offsets of type long;',
        '// bit-field operands are passed as unsigned; *_field = what an assignment to a bit-field of the declared width stores)',
        '#include <stddef.h>', '#include <stdint.h>',
        'bool c06_keylong(unsigned ks) { return %s; }' % m2.group(1),
        'bool c06_vallong(unsigned ds) { return %s; }' % m2.group(2),
        'uint32_t c06_key_field(uint32_t ks) { return ks & ((1u << %d) - 1); }' % kb,
        'uint32_t c06_data_field(uint32_t ds) { return ds & ((1u << %d) - 1); }' % db,
        '// little-endian bit-field allocation of struct packed with the widths declared in the source: %d, %d, %d' % (kb, eb, db),
        'uint32_t c06_word(uint32_t ks, uint32_t ex, uint32_t ds) { return (ks & ((1u << %d) - 1)) | ((ex & ((1u << %d) - 1)) << %d) | ((ds & ((1u << %d) - 1)) << %d); }'
        % (kb, eb, kb, db, kb + eb),
        'bool c06_hdr(long start, long end) { return %s; }' % m3.group(1),
        'bool c06_fits(long begin, long end, unsigned key_size, unsigned data_size) { return %s; }' % fits,
        'bool c06_more(long begin, long end) { return %s; }' % m4.group(1), ''])
    os.makedirs(os.path.dirname(PACKED_TU), exist_ok=True)
    vlib.write_if_changed(PACKED_TU, tu)
    return None


def gen_sid_leaf(ctx):
    """coq/gen/Gen_sid.v: the per-character test of session_sid::valid_sid, regenerated from the current source.
    tools/cxx2v.py translates the loop body of valid_sid as a per-byte transducer; the body rejects with `return false`,
    which the transducer form cannot type, so the (source-derived) test expression is re-wrapped as a bool function."""
    import cxx2v
    out = os.path.join(vlib.COQ, 'gen', 'Gen_sid.v')
    raw = os.path.join(ctx.workdir, 'gen_sid_raw.v')
    try:
        with vlib.Lock('gen-Gen_sid'):
            cxx2v.generate(dict(src=os.path.join(vlib.REPO, 'src/session_sid.cpp'), transducers=[('valid_sid', 'g_valid_sid_step')],
                                incs=vlib.repo_incs()), raw)
            txt = open(raw).read()
            m = re.search(r'Definition g_valid_sid_step \(byte : Z\) : list Z :=\s*(.*)\(if \(negb (\w+)\) then false else \[\]\)(\)*)\.', txt, re.S)
            if not m:
                raise cxx2v.Unsupported('loop body of valid_sid is no longer `char c = ..; bool ok = <test>; if(!ok) return false;`')
            head = txt[:txt.index('Definition g_valid_sid_step')]
            body = 'Definition g_low_x_digit (byte : Z) : bool :=\n  ' + m.group(1) + m.group(2) + m.group(3) + '.\n'
            vlib.write_if_changed(out, head + body)
        return None
    except Exception as e:
        vlib.write_if_changed(out, '(* translator failed *)\nDefinition broken : False := I.\n')
        return str(e)

NOW0 = 1000000
SPECIAL = (b'_csrf', b'_h', b'_s', b'_t')


# ---------------------------------------------------------------------------------------------------
# independent codec (oracle side)
# ---------------------------------------------------------------------------------------------------
def py_save(data):
    out = b''
    for k in sorted(data):
        v, e = data[k]
        out += struct.pack('<I', len(k) | (1024 if e else 0) | (len(v) << 11)) + k + v
    return out


def py_load(blob):
    """dict or None (format violation)"""
    d = {}
    i = 0
    while i < len(blob):
        if i + 4 > len(blob):
            return None
        w, = struct.unpack('<I', blob[i:i + 4])
        i += 4
        ks, e, ds = w & 1023, (w >> 10) & 1, w >> 11
        if len(blob) - i < ks + ds:
            return None
        d[blob[i:i + ks]] = (blob[i + ks:i + ks + ds], bool(e))
        i += ks + ds
    return d


# pattern content for the cases at the codec bounds: the first n bytes of a 64-byte unit repeated; the unit is a well-formed sequence
# of three packed entries (role=admin, uid=0 exposed, p=filler), so a length field that wraps makes load_data read forged keys
PATTERN_UNIT = bytes([4, 40, 0, 0]) + b'roleadmin' + bytes([3, 12, 0, 0]) + b'uid0' + bytes([1, 48, 1, 0]) + b'p' + b'.' * 38
assert len(PATTERN_UNIT) == 64


def pattern(n):
    return (PATTERN_UNIT * (n // 64 + 1))[:n]


def dig(v):
    """rendering of byte strings in the harness / model output: hex, or ~<length>~<crc32> above 4096 bytes"""
    return hexs(v) if len(v) <= 4096 else '~%d~%d' % (len(v), zlib.crc32(v) & 0xffffffff)


# ---------------------------------------------------------------------------------------------------
# generators
# ---------------------------------------------------------------------------------------------------
KEYS = [b'a', b'b', b'ab', b'k1', b'zz', b'A', b'\xff\x01', b'a=b;c']
SAFE_KEYS = [b'a', b'b', b'ab', b'k1', b'zz', b'A']
HEXD = '0123456789abcdef'


def rbytes(rng, n):
    return bytes(rng.getrandbits(8) for _ in range(n))


def gen_value(rng):
    r = rng.random()
    if r < 0.1:
        return b''
    if r < 0.6:
        return rbytes(rng, rng.randrange(1, 5))
    if r < 0.8:
        return bytes(rng.choice(b'ab %+;=/\x00\xff') for _ in range(rng.randrange(1, 8)))
    return rbytes(rng, rng.choice([8, 15, 16, 17, 30, 60]))


def gen_script(rng, cfg, est, safe=False):
    """est: generator's estimate of the data currently in the session of that browser (dict k -> len v), used to aim the payload at limit+-1"""
    ops = []
    n = rng.choice([0, 0, 1, 1, 1, 2, 2, 3, 4])
    for _ in range(n):
        r = rng.random()
        k = rng.choice(SAFE_KEYS if safe else KEYS)
        if r < 0.30:
            v = gen_value(rng)
            ops.append('s:%s:%s' % (hexs(k), hexs(v)))
        elif r < 0.36 and cfg['loc'] == 'B':
            # aim the total blob size at limit-1, limit, limit+1
            cur = sum(4 + len(kk) + vv for kk, vv in est.items() if kk != k)
            want = cfg['lim'] + rng.choice([-1, 0, 1]) - cur - 4 - len(k)
            if 0 <= want < 5000:
                v = rbytes(rng, want)
                ops.append('s:%s:%s' % (hexs(k), hexs(v)))
        elif r < 0.37 and not safe:
            # a key at the bound of the 10-bit key_size field (pattern content)
            ops.append('gk:%d:%s' % (rng.choice([1022, 1023, 1024, 1025]), hexs(gen_value(rng))))
        elif r < 0.44:
            ops.append('e:' + hexs(k))
        elif r < 0.50:
            ops.append('c')
        elif r < 0.60:
            ops.append('x:' + hexs(k))
        elif r < 0.66:
            ops.append('h:' + hexs(k))
        elif r < 0.73:
            ops.append('a:%d' % rng.choice([0, 1, 2, 3, 5, 10, 20, 30, 50, 100, 1000]))
        elif r < 0.76:
            ops.append('da')
        elif r < 0.84:
            ops.append('p:%d' % rng.choice([0, 1, 2]))
        elif r < 0.87:
            ops.append('dp')
        elif r < 0.93:
            if not (safe and cfg['loc'] == 'C'):
                ops.append('o:%d' % rng.choice([0, 1]))
        else:
            ops.append('r')
    return ops


def gen_attack(rng, b, safe=False):
    r = rng.random()
    if r < 0.45:
        return 'A %d hist %d %s' % (b, rng.randrange(0, 6), rng.choice(['id', 'id', 'id', 'flip', 'trunc', 'ext', 'upper'] + ([] if safe else ['path'])))
    good = ''.join(rng.choice(HEXD) for _ in range(32))
    if good.startswith('ffffffff'):
        good = '0' + good[1:]
    choices = [
        'I' + good,                                  # well-formed id that was never issued
        'I' + good[:31],                             # 31 digits
        'I' + good + '0',                            # 33 digits
        'I' + good.upper(),                          # upper-case hex (only differs if a letter is present)
        'I' + good[:15] + 'g' + good[16:],           # non-hex letter
        'I' + '../' * 10 + 'ab',                     # path-like, 33 chars
        'I' + '/' + good[1:],
        'I' + good[:31] + '\x00',
        'i' + good,
        good,
        'C' + good,
        'Cabc',
        'C',
        'I',
        'X',
        '',
        ''.join(chr(rng.randrange(1, 256)) for _ in range(rng.randrange(1, 40))),
    ]
    if safe:
        choices = [c for c in choices if c and re.fullmatch(r'[A-Za-z0-9]+', c)]
    s = rng.choice(choices).encode('latin-1')
    return 'A %d raw %s' % (b, hexs(s))


def gen_plant(rng, b, now):
    idc = ''.join(rng.choice(HEXD) for _ in range(32))
    if idc.startswith('ffffffff'):
        idc = '0' + idc[1:]
    data = {}
    for _ in range(rng.randrange(0, 4)):
        data[rng.choice(KEYS)] = (gen_value(rng), rng.random() < 0.3)
    blob = py_save(data)
    r = rng.random()
    if r < 0.35:
        pass
    elif r < 0.5 and blob:
        blob = blob[:rng.randrange(0, len(blob))]
    elif r < 0.6:
        blob = rbytes(rng, rng.randrange(1, 12))
    elif r < 0.7:
        blob = blob + struct.pack('<I', rng.choice([1, 1023, 1025, 2047, 2049, 0xffffffff, 5 | (3 << 11)])) + rbytes(rng, rng.randrange(0, 9))
    elif r < 0.8:
        blob = blob + rbytes(rng, rng.randrange(1, 4))
    elif r < 0.9:
        # duplicate key: later entry wins
        blob = blob + py_save({b'a': (b'dup', True)})
    dl = now + rng.choice([-1, 0, 1, 5, 100])
    return 'P %d %s %d %s' % (b, idc, dl, hexs(blob))


def gen_history(rng, cfg, nsteps, nb, safe=False):
    steps = []
    now = NOW0
    to = cfg['to']
    tenth = to // 10
    dts = sorted(set([0, 0, 0, 1, 1, 2, max(0, tenth - 1), tenth, tenth + 1, max(0, to - 1), to, to + 1, max(0, to - tenth), 2 * to + 1,
                      max(0, to - tenth - 1), to // 2]))
    est = [dict() for _ in range(nb)]
    for _ in range(nsteps):
        r = rng.random()
        b = rng.randrange(nb)
        if r < 0.22:
            dt = rng.choice(dts)
            now += dt
            steps.append('T %d' % dt)
        elif r < 0.30:
            steps.append(gen_attack(rng, b, safe))
        elif r < 0.33:
            if safe:
                steps.append('X %d %s %s' % (b, hexs(rng.choice(SAFE_KEYS)), hexs(bytes(rng.choice(b'abc019') for _ in range(rng.randrange(1, 5))))))
            else:
                steps.append('X %d %s %s' % (b, hexs(rng.choice(KEYS)), hexs(gen_value(rng) or b'v')))
        elif r < 0.36 and not safe:
            steps.append(gen_plant(rng, b, now))
        else:
            ops = gen_script(rng, cfg, est[b], safe)
            for o in ops:
                a = o.split(':')
                if a[0] == 's':
                    est[b][unhex(a[1])] = len(unhex(a[2]))
                elif a[0] == 'e':
                    est[b].pop(unhex(a[1]), None)
                elif a[0] == 'c':
                    est[b].clear()
                elif a[0] in ('x', 'h'):
                    est[b].setdefault(unhex(a[1]), 0)
            steps.append(' '.join(['R %d' % b] + ops))
    return steps


def case_line(cfg, steps):
    return 'hist loc=%s stor=%s exp=%s to=%d lim=%d | ' % (cfg['loc'], cfg['stor'], cfg['exp'], cfg['to'], cfg['lim']) + ' | '.join(steps)


def directed_cases():
    """boundaries named in DESIGN.md: 10 % window +-1 s (incl. a timeout whose tenth is not exact in double), deadline = now,
    reset after the payload moved server-side, clear on a client-only session, replay of an old sid after reset, id syntax"""
    out = []
    for exp in 'FRB':
        for loc in 'SCB':
            for to in (10, 30, 100, 7):
                t10 = to // 10
                for d in sorted(set([max(t10 - 1, 0), t10, t10 + 1])):
                    out.append('hist loc=%s stor=M exp=%s to=%d lim=64 | R 0 s:61:31 x:61 | T %d | R 0 | T %d | R 0 | R 0 s:62:32 | T %d | R 0'
                               % (loc, exp, to, d, to - d, to))
                for d in (to - 1, to, to + 1):
                    out.append('hist loc=%s stor=M exp=%s to=%d lim=64 | R 0 s:61:31 | T %d | R 0 s:61:32 | T 1 | R 0' % (loc, exp, to, d))
    big = '00' * 70
    for stor in 'MFN':
        out.append('hist loc=B stor=%s exp=R to=100 lim=64 | R 0 s:61:31 | R 0 s:62:%s | R 0 r | A 1 hist 1 id | R 1 | R 0 e:62 | A 1 hist 1 id | R 1 | A 1 hist 2 id | R 1 | R 0 c | R 0' % (stor, big))
        out.append('hist loc=S stor=%s exp=B to=50 lim=64 | R 0 s:61:31 | R 1 s:61:32 | R 0 | R 1 | A 1 hist 0 id | R 1 | R 1 c | R 0 | T 51 | R 1 s:61:33 | R 0' % stor)
        out.append('hist loc=B stor=%s exp=F to=20 lim=0 | R 0 s:61:31 | R 0 o:0 | R 0 o:1 | R 0 o:0 | T 20 | R 0 s:61:39 | T 1 | R 0' % stor)
    out.append('hist loc=C stor=M exp=R to=100 lim=64 | R 0 s:61:31 | R 0 c | A 0 hist 0 id | R 0 | R 0 o:1 | R 0')
    # clear() puts age / expiration / on_server back to the configured defaults (until set again in the same request): the save
    # uses them (deadline, cookie lifetime, storage location) and the next request reads them
    for loc in 'SCB':
        for exp in 'FRB':
            srv = '' if loc == 'C' else ' o:1'
            out.append('hist loc=%s stor=M exp=%s to=20 lim=64 | R 0 a:5 p:%d%s c s:61:31 | R 0 | T 6 | R 0 | T 15 | R 0'
                       % (loc, exp, {'F': 1, 'R': 0, 'B': 0}[exp], srv))
            out.append('hist loc=%s stor=M exp=%s to=20 lim=64 | R 0 a:5 p:%d%s s:61:31 | R 0 c s:61:32 | T 6 | R 0 | T 15 | R 0'
                       % (loc, exp, {'F': 2, 'R': 0, 'B': 1}[exp], srv))
            out.append('hist loc=%s stor=M exp=%s to=20 lim=64 | R 0 s:61:31 x:61 | R 0 c a:7 s:61:32 | T 6 | R 0 c s:62:33 p:2 | T 8 | R 0 c | R 0'
                       % (loc, exp))
            # exposed values follow the session cookie: data-changing saves, renewals of the unchanged session, hide / expose again,
            # switches of the expiration mode, reset_session
            out.append('hist loc=%s stor=M exp=%s to=10 lim=64 | R 0 s:61:31 x:61 s:7a7a:39 x:7a7a | T 5 | R 0 s:62:32 | T 6 | R 0 s:62:33 | T 9 | R 0 | T 9 '
                       '| R 0 h:61 | T 9 | R 0 x:61 | T 2 | R 0 e:7a7a | T 9 | R 0' % (loc, exp))
            for p in (0, 1, 2):
                out.append('hist loc=%s stor=M exp=%s to=10 lim=64 | R 0 s:61:31 x:61 | T 4 | R 0 p:%d | T 5 | R 0 s:62:32 | T 5 | R 0 s:62:33 | T 5 | R 0'
                           % (loc, exp, p))
            out.append('hist loc=%s stor=M exp=%s to=10 lim=64 | R 0 s:61:31 x:61 | T 5 | R 0 r | T 6 | R 0 s:62:33 | T 5 | R 0 r s:61:32 | T 6 | R 0' % (loc, exp))
    return out


OPS_SMALL = ['s:61:31', 's:61:32', 's:62:%s' % ('33' * 70), 'e:61', 'c', 'x:61', 'h:61', 'x:62', 'a:5', 'a:50', 'da', 'p:0', 'p:1', 'p:2', 'dp',
             'o:0', 'o:1', 'r']


def exhaustive_scripts(ctx):
    """exhaustive small domain: EVERY script of at most two operations from OPS_SMALL (all pairs: clear after / before each
    setting, reset with each mode, hide / expose with each mode ...) as the second request of a browser whose first request left
    a=1 exposed with non-default age / expiration / on_server; then the clock passes the 10 % point and two more requests read the
    result.  x location x expiration (quick: one initial state; thorough: two initial states, two clock offsets)"""
    scripts = [[]] + [[a] for a in OPS_SMALL] + [[a, b] for a in OPS_SMALL for b in OPS_SMALL]
    inits = ['s:61:31 x:61 a:20 p:%d o:1', 's:61:31 x:61 s:7a7a:39'] if ctx.scale(0, 1) else ['s:61:31 x:61 a:20 p:%d o:1']
    dts = [(3, 18)] if not ctx.scale(0, 1) else [(3, 18), (1, 9)]
    out = []
    for loc in 'SCB':
        for exp in 'FRB':
            for init in inits:
                i0 = init % {'F': 1, 'R': 2, 'B': 0}[exp] if '%d' in init else init
                if loc == 'C':
                    i0 = i0.replace(' o:1', '')
                for d1, d2 in dts:
                    for sc in scripts:        # (on_server(true) with client-only storage raises in save(): the oracle expects the refusal)
                        out.append('hist loc=%s stor=M exp=%s to=10 lim=64 | R 0 %s | T %d | R 0 %s | T %d | R 0 | T 1 | R 0'
                                   % (loc, exp, i0, d1, ' '.join(sc), d2))
    return out


def bound_cases(exps='R'):
    """the bounds of the entry codec (bit-fields key_size : 10, data_size : 21 of struct packed) through the real session_interface with
    every storage and location: values of 2^21-1 (must round-trip), 2^21 and 2^21+1 bytes (save must refuse, the session of the previous
    request stays intact), keys of 1023 / 1024 / 1025 bytes, both at their maximum together; pattern content (see pattern()): if a length
    wrapped, the next request would read the forged keys role / uid / p instead of raising"""
    out = []
    V = 1 << 21
    for exp in exps:
        for loc, stor in [('S', 'M'), ('S', 'F'), ('S', 'N'), ('B', 'M'), ('B', 'F'), ('B', 'N'), ('C', 'M')]:
            head = 'hist loc=%s stor=%s exp=%s to=100 lim=64 | R 0 s:61:31 x:61 s:7a7a:39 | ' % (loc, stor, exp)
            for n in (V - 1, V, V + 1):
                out.append(head + 'R 0 g:62:%d | R 0 | R 0 e:62 s:63:32 | R 0' % n)
            for n in (1023, 1024, 1025):
                out.append(head + 'R 0 gk:%d:76 | R 0 | R 0 s:63:32 | R 0' % n)
            out.append(head + 'R 0 gg:1023:%d | R 0 | R 0 gg:1024:5 | R 0 | R 0 gg:5:%d | R 0 | T 50 | R 0' % (V - 1, V))
    return out


def gen_cases(ctx):
    rng = ctx.rng
    cases = directed_cases() + exhaustive_scripts(ctx)
    n = ctx.scale(12000, 130000)
    for i in range(n):
        r = rng.random()
        stor = 'M' if r < 0.86 else ('F' if r < 0.95 else 'N')
        cfg = dict(loc=rng.choice('SSCBB'), stor=stor, exp=rng.choice('FRB'),
                   to=rng.choice([1, 2, 5, 7, 10, 20, 30, 100, 3600]), lim=rng.choice([0, 10, 20, 40, 64, 2048]))
        if cfg['loc'] == 'C':
            cfg['stor'] = 'M'
        nb = rng.choice([1, 2, 2, 3])
        nsteps = rng.choice([3, 6, 10, 16, 24]) if stor == 'M' else rng.choice([3, 6, 10])
        cases.append(case_line(cfg, gen_history(rng, cfg, nsteps, nb)))
    # long keys / values at the codec limits (1023 / 1024 byte key)
    for kl in (1022, 1023, 1024):
        cases.append('hist loc=S stor=M exp=R to=100 lim=64 | R 0 s:%s:31 | R 0 | R 0 s:61:32 | R 0' % ('6b' * kl))
    # the codec bounds (2 MiB values): spread evenly over the list, the runner splits it into contiguous chunks per worker
    bc = bound_cases('FRB' if ctx.scale(0, 1) else 'R')
    step = max(1, len(cases) // len(bc))
    for i, c in enumerate(bc):
        cases.insert(i * (step + 1), c)
    return cases


def http_safe(case):
    """can this history be sent through the HTTP front end (cookie-safe names and values, nothing that raises)?"""
    safe = {hexs(k) for k in SAFE_KEYS}
    cfg, steps = parse_case(case)
    for st in steps:
        if not st:
            continue
        if st[0] == 'P':
            return False
        if st[0] == 'A':
            if st[2] == 'raw' and not re.fullmatch(rb'[A-Za-z0-9]+', unhex(st[3])):
                return False
            if st[2] == 'hist' and st[4] == 'path':
                return False
        if st[0] == 'X' and (st[2] not in safe or not re.fullmatch(rb'[A-Za-z0-9]+', unhex(st[3]))):
            return False
        if st[0] == 'R':
            for o in st[2:]:
                a = o.split(':')
                if a[0] in ('g', 'gk', 'gg'):
                    return False
                if a[0] in ('s', 'e', 'x', 'h') and a[1] not in safe:
                    return False
                if a[0] == 'o' and a[1] == '1' and cfg['loc'] == 'C':
                    return False
    return True


def gen_http_cases(ctx):
    """histories for the production path (harness/C06_http.cpp): cookie-safe keys and attacker strings, nothing that raises"""
    rng = ctx.rng
    cases = [c for c in directed_cases() if ' P ' not in c and 'e:5f73' not in c and 'loc=C' not in c or (' o:1' not in c and ' P ' not in c)]
    mem = [c for c in cases if 'stor=M' in c]
    cases = mem[:60] + [c for c in mem[60:] if ' c ' in c or ' x:' in c] + [c for c in cases if 'stor=M' not in c]
    for i in range(ctx.scale(400, 6000)):
        r = rng.random()
        stor = 'M' if r < 0.8 else ('F' if r < 0.9 else 'N')
        cfg = dict(loc=rng.choice('SSCBB'), stor=stor, exp=rng.choice('FRB'),
                   to=rng.choice([1, 2, 5, 7, 10, 20, 30, 100, 3600]), lim=rng.choice([0, 10, 20, 40, 64, 2048]))
        if cfg['loc'] == 'C':
            cfg['stor'] = 'M'
        cases.append(case_line(cfg, gen_history(rng, cfg, rng.choice([3, 6, 10, 16]), rng.choice([1, 2, 2, 3]), safe=True)))
    return cases


# ---------------------------------------------------------------------------------------------------
# parsing of the harness output
# ---------------------------------------------------------------------------------------------------
R_RE = re.compile(r'^R(?: ld=(\d) d=\[([^\]]*)\] age=(-?\d+) how=(-?\d+) srv=(\d))?(?: EXC:(\w+))? ops=\[([^\]]*)\] jar=\[([^\]]*)\] del=\[([^\]]*)\] alive=\[([^\]]*)\]$')


def parse_data(s):
    d = {}
    if s:
        for it in s.split(','):
            k, e, v = it.split(':')
            d[unhex(k)] = (v if v.startswith('~') else unhex(v), e == '1')
    return d


def parse_jar(s):
    sess, xs = None, {}
    if s:
        for it in s.split(','):
            body, exp = it.rsplit('@', 1)
            exp = None if exp == 's' else int(exp)
            if body.startswith('S='):
                sess = (body[2:], exp)
            elif body.startswith('x'):
                k, v = body[1:].split('=')
                xs[unhex(k)] = (unhex(v), exp)
            else:
                xs[('?', body)] = (b'', exp)
    return sess, xs


def parse_case(case):
    parts = [p.split() for p in case.split('|')]
    cfg = dict(x.split('=') for x in parts[0][1:])
    cfg['to'] = int(cfg['to'])
    cfg['lim'] = int(cfg['lim'])
    return cfg, parts[1:]


SID_RE = re.compile(rb'^[0-9a-f]{32}$')


def int_of(data, k, dflt):
    if k in data:
        try:
            return int(data[k][0].decode('ascii'))
        except Exception:
            return None
    return dflt


def apply_ops(data, ops, st):
    for o in ops:
        a = o.split(':')
        op = a[0]
        if op in ('s', 'g', 'gk', 'gg'):
            k = pattern(int(a[1])) if op in ('gk', 'gg') else unhex(a[1])
            v = pattern(int(a[2])) if op in ('g', 'gg') else unhex(a[2])
            data[k] = (v, data.get(k, (b'', False))[1])
        elif op == 'e':
            data.pop(unhex(a[1]), None)
        elif op == 'c':
            # clear(): no entries and the configured age / expiration / on_server again
            data.clear()
            st['age'], st['how'], st['srv'] = st['age_def'], st['how_def'], False
        elif op in ('x', 'h'):
            k = unhex(a[1])
            data[k] = (data.get(k, (b'', False))[0], op == 'x')
        elif op == 'a':
            st['age'] = int(a[1])
            data[b'_t'] = (a[1].encode(), data.get(b'_t', (b'', False))[1])
        elif op == 'da':
            data.pop(b'_t', None)
            st['age'] = st['age_def']
        elif op == 'p':
            st['how'] = int(a[1])
            data[b'_h'] = (a[1].encode(), data.get(b'_h', (b'', False))[1])
        elif op == 'dp':
            data.pop(b'_h', None)
            st['how'] = st['how_def']
        elif op == 'o':
            st['srv'] = a[1] == '1'
            data[b'_s'] = (a[1].encode(), data.get(b'_s', (b'', False))[1])
        elif op == 'r':
            st['reset'] = True


def oracle(case, out):
    """The property evaluated on the implementation's observations only. Spec state: a table token -> abstract session, where a
    token is a session cookie value as the browser holds it (server-side: I + id; client-side: the authentic cookie)."""
    if out.startswith('<crash'):
        return ('crash', 'harness died on this history: ' + out[:300])
    if out.startswith('HARNESS-EXC') or out.startswith('BAD'):
        return ('harness-exception', out[:300])
    try:
        return oracle_(case, out)
    except Exception as e:      # malformed output is a failure of the implementation side, never silently accepted
        import traceback
        return ('unparsable-output', traceback.format_exc()[-600:] + ' :: ' + out[:300])


def oracle_(case, out):
    cfg, steps = parse_case(case)
    res = [r.strip() for r in out.split('|')][1:]
    if len(res) != len(steps):
        return ('bad-output', 'number of step results differs from number of steps')
    loc = cfg['loc']
    how_def = {'F': 0, 'R': 1, 'B': 2}[cfg['exp']]
    now = NOW0
    tokens = {}        # token -> dict(data=, deadline=, dead=bool, corrupt=bool)
    jars = {}          # b -> (sess (value, exp) or None, xs)
    hist = []          # distinct session cookie values emitted
    issued = set()     # '#n' ids seen so far
    planted = set()
    trust = {}         # b -> keys whose exposed-value cookie in jar b was set by the server for the session cookie jar b holds now
    soft = []          # failures of the registered known-finding classes: remembered, evaluation continues (they must not mask others)
    for st, rs in zip(steps, res):
        kind = st[0]
        if kind == 'T':
            now += int(st[1])
            continue
        b = int(st[1])
        sess, xs = jars.get(b, (None, {}))
        if kind == 'A':
            if st[2] == 'raw':
                s = unhex(st[3])
                v = 'raw:' + hexs(s) if s else None
            else:
                if not hist:
                    continue
                v = hist[int(st[3]) % len(hist)]
                if st[4] != 'id':
                    v = 'raw:mutated'
            jars[b] = ((v, None) if v else None, xs)
            trust[b] = set()
            continue
        if kind == 'X':
            xs = dict(xs)
            xs[unhex(st[2])] = (unhex(st[3]), None)
            jars[b] = (sess, xs)
            trust.setdefault(b, set()).discard(unhex(st[2]))
            continue
        if kind == 'P':
            tok = 'raw:' + hexs(b'I' + st[2].encode())
            if loc != 'C':
                d = py_load(unhex(st[4]))
                tokens[tok] = dict(data=d, deadline=int(st[3]), dead=False, corrupt=d is None, planted=True)
                planted.add('=' + hexs(st[2].encode()))
            jars[b] = ((tok, None), xs)
            trust[b] = set()
            continue
        # ---- a request ----
        tr = trust.setdefault(b, set())
        m = R_RE.match(rs)
        if not m:
            return ('bad-output', 'request result does not parse: ' + rs[:200])
        ld, dtxt, age, how, srv, exc, ops_txt, jar_txt, del_txt, alive_txt = m.groups()
        dels = set(unhex(x) for x in del_txt.split(',')) if del_txt else set()
        # the browser drops cookies whose max-age elapsed
        if sess and sess[1] is not None and now > sess[1]:
            sess = None
        xs_pre = xs
        xs = {k: v for k, v in xs.items() if v[1] is None or now <= v[1]}
        presented = sess[0] if sess else None
        tok = tokens.get(presented) if presented else None
        if tok is not None:
            # a token is only meaningful to the back-end that can read it
            if presented.startswith('C:') and loc == 'S':
                tok = None
            elif not presented.startswith('C:') and loc == 'C':
                tok = None
        alive_tok = tok is not None and not tok['dead'] and now <= tok['deadline']
        # storage accesses: only ids of the issued form, and only ids produced by the random source are ever stored
        ops_l = ops_txt.split(',') if ops_txt else []
        for o in ops_l:
            a = o.split(':')
            idr = a[1]
            if idr.startswith('='):
                if not SID_RE.match(unhex(idr[1:])):
                    return ('malformed-id-reaches-storage', 'storage was addressed with an id that is not 32 lower-case hex digits: ' + o[:120])
                if a[0] == 'S' and idr not in planted:
                    return ('client-chosen-id-stored', 'a record was saved under an id that did not come from the random source: ' + o[:120])
        alive = {}
        if alive_txt:
            for it in alive_txt.split(','):
                i, dl = it.split(':')
                alive[i] = int(dl)
        new_sess, new_xs = parse_jar(jar_txt)
        ops = st[2:]
        if alive_tok and tok.get('corrupt'):
            if exc != 'cppcms':
                return ('corrupt-record-accepted', 'a stored record that is not a well-formed entry list was not rejected')
            jars[b] = (new_sess, new_xs)
            continue
        if ld is None:
            if exc:
                return ('unexpected-exception', 'load failed with an exception on a session that is not corrupt: ' + rs[:200])
            return ('bad-output', rs[:200])
        got = parse_data(dtxt)
        exp_data = dict(tok['data']) if alive_tok else {}
        if got != {k: (v[0] if len(v[0]) <= 4096 else dig(v[0]), v[1]) for k, v in exp_data.items()}:
            if not exp_data:
                key = 'ended-session-readable' if tok is not None else 'foreign-or-phantom-data-read'
                return (key, 'request of browser %d read %r but its session is %s' % (b, got, 'cleared/expired/reset' if tok is not None else 'unknown to the server'))
            return ('read-differs-from-what-was-left', 'request of browser %d read %r, the previous request left %r' % (b, got, exp_data))
        if (ld == '1') != alive_tok:
            return ('load-flag-wrong', 'load() returned %s for a session that is %s' % (ld, 'alive' if alive_tok else 'not alive'))
        e_age = int_of(exp_data, b'_t', cfg['to'])
        e_how = int_of(exp_data, b'_h', how_def)
        e_srv = int_of(exp_data, b'_s', 0)
        from_data = (e_age, e_how, (e_srv or 0) & 1)
        left = tok.get('mem', from_data) if alive_tok else from_data
        if (int(age), int(how), int(srv)) != left:
            return ('age-mode-flag-not-carried', 'age/expiration/on_server read as %s/%s/%s, the previous request ended with %r' % (age, how, srv, left))
        # ---- what the request does ----
        data = dict(exp_data)
        stt = dict(age=e_age, how=e_how, srv=bool((e_srv or 0) & 1), reset=False, age_def=cfg['to'], how_def=how_def)
        apply_ops(data, ops, stt)
        toolong = any(len(k) >= 1024 or len(v[0]) >= 2 * 1024 * 1024 for k, v in data.items())
        copy_empty = not exp_data
        newsess = (copy_empty and bool(data)) or stt['reset']
        old_server_id = None
        if presented and presented.startswith('I#'):
            old_server_id = presented[1:]
        elif presented and presented.startswith('raw:'):
            raw = unhex(presented[4:]) if presented != 'raw:mutated' else b''
            if len(raw) == 33 and raw[:1] == b'I' and SID_RE.match(raw[1:]):
                old_server_id = '=' + hexs(raw[1:])
        if not data:
            # the session ended
            if exc:
                return ('unexpected-exception', rs[:200])
            if new_sess is not None:
                return ('cleared-session-keeps-cookie', 'session was emptied but the browser still holds a session cookie')
            if old_server_id is not None and loc != 'C' and not (presented.startswith('C')):
                if old_server_id in alive:
                    return ('cleared-id-still-usable', 'session was emptied but its identifier is still loadable from storage')
                if tok is not None:
                    tok['dead'] = True
            if new_xs:
                return ('exposed-cookie-outlives-session', 'session was emptied but exposed-value cookies remain: %r' % sorted(map(repr, new_xs)))
            for k in sorted(dels, key=repr):
                if not (k in xs or (k in exp_data and exp_data[k][1])):
                    return ('deletion-cookie-for-unexposed-key', 'session emptied: a deletion cookie was sent for %r, which was neither exposed nor '
                            'carried as a cookie by the request' % (k,))
            jars[b] = (new_sess, new_xs)
            tr.clear()
            continue
        unchanged = (data == exp_data) and not newsess
        h, tval = stt['how'], stt['age']
        tin = tok['deadline'] if alive_tok else None
        skip = False
        if unchanged:
            if h == 0:
                skip = True
            elif h in (1, 2) and (now + tval - tin) < tval * 0.1:
                skip = True
        # update_exposed(force, resend): force = an unchanged session that is renewed; resend = the session cookie gets a new lifetime
        # (renew and browser mode always, fixed mode for a new or reset session): every exposed value is sent again
        forced = unchanged
        force = unchanged or newsess or h != 0
        dropped = [k for k, v in exp_data.items() if v[1] and v[0] != b'' and k in tr and k not in xs and k in xs_pre and xs_pre[k][0] == v[0]]
        # (only when this jar is the one that saved the session last: a stolen cookie used from another jar renews the session
        # without this browser seeing any Set-Cookie)
        own = alive_tok and tok.get('jar') == b
        if dropped and sess is not None and own:
            return ('exposed-cookie-expired-before-session', 'exposed key %r is in the live session and the browser still holds the session cookie, '
                    'but the cookie of the exposed value (set by the server for this session) has already expired' % dropped[0])
        if skip:
            # nothing may change: same cookie, same deadline, same record
            if exc:
                return ('unexpected-exception', rs[:200])
            if new_sess != sess:
                return ('unchanged-session-cookie-changed', 'fixed/unrenewed unchanged session: cookie went from %r to %r' % (sess, new_sess))
            if old_server_id is not None and not presented.startswith('C') and alive.get(old_server_id) != tin:
                return ('unchanged-session-deadline-moved', 'deadline in storage %r, expected %r' % (alive.get(old_server_id), tin))
            if new_xs != xs:
                return ('unchanged-session-exposed-cookies-changed', '%r -> %r' % (xs, new_xs))
            if dels:
                return ('unchanged-session-exposed-cookies-changed', 'deletion cookies %r sent although nothing was saved' % sorted(map(repr, dels)))
            jars[b] = (new_sess, new_xs)
            continue
        if toolong:
            if exc != 'cppcms':
                return ('oversized-entry-accepted', 'a key >= 1024 bytes (2^10) or a value >= 2097152 bytes (2^21) was not refused by save(): the '
                        'bit-fields key_size : 10 / data_size : 21 cannot hold the length, the stored length wraps and the next load_data reads '
                        'the bytes of the entry as further entries (forged keys) or throws on every later request')
            # nothing may have been written; a removal / a cleared cookie can only come from load() dropping a dead or forged session
            if any(o.split(':')[0] == 'S' or (alive_tok and o.split(':')[0] == 'D') for o in ops_l):
                return ('refused-save-touched-storage', 'save() refused an oversized entry but storage was written / removed: ' + ops_txt[:160])
            if new_sess != sess and (alive_tok or new_sess is not None) and presented != 'raw:mutated':
                return ('refused-save-changed-cookie', 'save() refused an oversized entry but the session cookie changed from %r to %r' % (sess, new_sess))
            jars[b] = (new_sess, new_xs)
            continue
        if loc == 'C' and stt['srv']:
            if exc != 'cppcms':
                return ('on-server-ignored-by-client-backend', 'on_server(true) with client-only storage must be refused')
            jars[b] = (new_sess, new_xs)
            continue
        if exc:
            return ('unexpected-exception', rs[:200])
        deadline = tval + now if (h in (1, 2) or (h == 0 and newsess)) else tin
        blob_len = len(py_save(data))
        on_server = loc == 'S' or (loc == 'B' and (stt['srv'] or blob_len > cfg['lim']))
        c_age = 0 if h == 2 else (tval if (h == 1 or (h == 0 and newsess)) else tin - now)
        exp_exp = None if c_age == 0 else now + c_age
        if new_sess is None:
            return ('saved-session-without-cookie', 'a non-empty session was saved but the browser holds no session cookie')
        val, cexp = new_sess
        if cexp != exp_exp:
            return ('session-cookie-lifetime-wrong', 'cookie expiry %r, expected %r' % (cexp, exp_exp))
        if on_server:
            keep = (old_server_id is not None) and not newsess
            if keep:
                if val != presented:
                    return ('id-changed-without-reset', 'session cookie changed from %s to %s' % (presented, val))
                nid = old_server_id
            else:
                if not val.startswith('I#'):
                    return ('server-session-without-issued-id', 'session cookie is %s' % val[:80])
                nid = val[1:]
                if nid in issued:
                    return ('reset-id-not-fresh', 'new/reset session got identifier %s which was issued before' % nid)
                if old_server_id is not None:
                    if old_server_id in alive:
                        return ('old-id-usable-after-reset', 'identifier %s is still loadable after the session was reset' % old_server_id)
                    if tok is not None:
                        tok['dead'] = True
                issued.add(nid)
            if deadline >= now and alive.get(nid) != deadline:
                return ('stored-deadline-wrong', 'record %s has deadline %r, expected %r' % (nid, alive.get(nid), deadline))
            tokens[val] = dict(data=dict(data), deadline=deadline, dead=False, corrupt=False,
                               mem=(stt['age'], stt['how'], int(stt['srv'])), jar=b)
        else:
            if not val.startswith('C:'):
                return ('client-session-without-authentic-cookie', 'session cookie is %s' % val[:80])
            _, cdl, cblob = val.split(':')
            if int(cdl) != deadline:
                return ('client-cookie-deadline-wrong', 'cookie deadline %s, expected %d' % (cdl, deadline))
            if (cblob != dig(py_save(data))) if cblob.startswith('~') else (py_load(unhex(cblob)) != data):
                return ('client-cookie-content-wrong', 'cookie payload does not decode to the session data')
            # moving back to the cookie: no server record may be left behind
            if old_server_id is not None and not presented.startswith('C'):
                if old_server_id in alive:
                    return ('server-copy-left-behind', 'session moved to the cookie but record %s is still loadable' % old_server_id)
                if tok is not None:
                    tok['dead'] = True
            tokens[val] = dict(data=dict(data), deadline=deadline, dead=False, corrupt=False,
                               mem=(stt['age'], stt['how'], int(stt['srv'])), jar=b)
        if val not in hist:
            hist.append(val)
        # exposed values are in the cookies in step with the session
        want = {k: v[0] for k, v in data.items() if v[1] and v[0] != b''}
        gotx = {k: v[0] for k, v in new_xs.items()}
        for k in sorted(want):
            changed = force or exp_data.get(k) != data[k]
            if gotx.get(k) == want[k]:
                if changed:
                    if new_xs[k][1] != exp_exp:
                        return ('exposed-cookie-lifetime-wrong', 'cookie of %r expires %r, session cookie %r' % (k, new_xs[k][1], exp_exp))
                    tr.add(k)
                elif k in tr and not own:
                    tr.discard(k)
                elif k in tr:
                    # not re-sent: it must live as long as the session can be used with the cookie that was just (re)issued
                    # (a browser-session cookie is usable until the deadline kept by the server)
                    xe = new_xs[k][1]
                    if xe is not None and xe < (deadline if exp_exp is None else exp_exp):
                        return ('exposed-cookie-shorter-lived-than-session-cookie', 'cookie of exposed key %r expires at %r, the session cookie '
                                'at %r (deadline %r)' % (k, xe, exp_exp, deadline))
                continue
            if changed:
                return ('exposed-cookies-out-of-step', 'key %r was exposed/changed by this request but its cookie is %r' % (k, gotx.get(k)))
            tr.discard(k)
            if k in xs and xs[k][0] == want[k]:
                return ('exposed-cookies-out-of-step', 'cookie of exposed key %r disappeared or changed: %r' % (k, gotx.get(k)))
        for k in sorted(gotx, key=repr):
            if k not in want:
                if k in data and data[k][1] and not (force or exp_data.get(k) != data[k]):
                    continue      # exposed with an empty value, untouched: a planted cookie is not reconciled
                return ('exposed-cookies-out-of-step', 'cookie for %r present but the session does not expose it' % (k,))
        for k in list(tr):
            if k not in want:
                tr.discard(k)
        # deletion cookies: only for keys that need one - an exposed entry sent with an empty value, a key that was exposed and is
        # hidden / erased now, a prefix_key cookie the request carried for a key that is not exposed, or - on a FORCED update (the
        # renewal of an unchanged session) - any hidden key.  Not for every hidden key on every save.
        for k in sorted(dels, key=repr):
            ent = data.get(k)
            was = k in exp_data and exp_data[k][1]
            ok = (ent is not None and ent[1] and ent[0] == b'') or (was and not (ent is not None and ent[1])) \
                or (k in xs and not (ent is not None and ent[1])) or (forced and ent is not None and not ent[1])
            if not ok:
                return ('deletion-cookie-for-unexposed-key', 'a deletion cookie (Max-Age=0) was sent for key %r, which was not exposed before, '
                        'is not carried as a cookie by the request and the update is not forced' % (k,))
        jars[b] = (new_sess, new_xs)
    return soft[0] if soft else None


def nontrivial(case, out):
    # at least one request read back a non-empty session
    return ' ld=1 ' in out


def classify(case, out):
    cfg = case.split('|', 1)[0].split()
    k = ' '.join(cfg[1:4])
    if 'EXC:' in out:
        k += ' exc'
    return k


def run(ctx):
    e = packed_leafs()
    if e:
        os.makedirs(os.path.dirname(PACKED_TU), exist_ok=True)
        vlib.write_if_changed(PACKED_TU, '// ' + e.replace('\n', ' ') + '\n#error leaf extraction failed\n')
    errs = vlib.gen_coq(GEN)
    if e:
        errs.append(('Gen_C06packed', e))
    e = gen_sid_leaf(ctx)
    if e:
        errs.append(('Gen_sid', e))
    for n, e in errs:
        ctx.broke('translator cxx2v failed on %s (tie to source broken)' % n, e)
    res = vlib.coq_props('C06')
    ctx.proof(res)
    ctx.coverage['trusted_base'] = [
        'Coq 8.16.1 kernel, vm_compute',
        'extraction: ExtrOcamlBasic, OCaml 4.13.1',
        'hand model coq/C06/Defs.v of session_interface / session_sid / session_cookies / session_dual / abstract storage / jar / clock',
        'harness/C06_common.h, C06_sessions.cpp (jar adapter), C06_http.cpp (in-process HTTP service + client), logging storage decorator, interposed time(); ocaml/C06_driver.ml; checks/C06.py',
        'checks/C06.py:gen_sid_leaf re-wraps the cxx2v translation of the valid_sid loop body as a bool function',
        'symbolic MAC and browser model (see docs/C06.md)']
    ctx.assumptions = ['the random source yields pairwise distinct well-formed identifiers (stated as hypotheses of the theorems that need it)',
                       'an attacker string carries a valid MAC only if it is a verbatim replay of an emitted cookie',
                       'requests are sequential; a browser sends a cookie until its max-age elapsed']
    exe, err = vlib.build_harness('C06_sessions', ['C06_sessions.cpp'])
    if not exe:
        ctx.broke('harness build failed', err)
        return
    mexe, err = vlib.build_model('C06', 'C06_driver.ml', 'c06m')
    if not mexe:
        ctx.broke('model extraction/build failed', err)
    if ctx.replay_cases is not None:
        cases = ctx.replay_cases
    else:
        cases = vlib.corpus_cases('C06') + gen_cases(ctx)
    tmp = os.path.join(ctx.workdir, 'files-%d' % os.getpid())
    os.makedirs(tmp, exist_ok=True)
    ctx.coverage['rule'] = ('one case = one history: config (location client/server/both x storage memory/files/network x expire '
                            'fixed/renew/browser x timeout x client_size_limit) and a list of steps: clock advance, request of browser b '
                            '(load, observe, script of set/erase/clear/expose/hide/age/expiration/on_server/reset_session, save, observe jar + '
                            'deletion cookies + storage log + loadable ids), attacker cookie (literal malformed/path-like/unissued ids, verbatim or mutated replays '
                            'of emitted cookies), planted exposed cookie, planted (possibly corrupt) storage record. Directed cases cover the 10 % '
                            'window +-1 s, deadline = now +-1, limit +-1, reset after moving server-side, clear of a client-only session, replay '
                            'of an old id, the bounds of the entry codec (values of 2^21-1 / 2^21 / 2^21+1 bytes, keys of 1023 / 1024 / 1025 bytes, '
                            'pattern content that parses as entries, every storage and location), clear() after / before each setting, exposed values across saves / renewals / mode switches / reset. Exhaustive '
                            'small domain: every script of <= 2 operations out of 18 (343 scripts) as the second request on a session with '
                            'non-default settings and an exposed value, x 3 locations x 3 expiration modes. A case is non-trivial when at least one request read back a non-empty session; distinct = distinct lines.')
    ctx.coverage['exhaustive'] = False
    os.environ.setdefault('OCAMLRUNPARAM', 's=32M')      # the extracted model recurses 2^21 deep on the bound cases: few minor collections
    try:
        vlib.differential(ctx, cases, exe, mexe, oracle, nontrivial, classify, impl_env={'C06_TMP': tmp},
                          jobs=8)
        # the production path: session_interface(http::context&) behind a real HTTP front end
        hexe, err = vlib.build_harness('C06_http', ['C06_http.cpp'])
        if not hexe:
            ctx.broke('http harness build failed', err)
        else:
            hcases = gen_http_cases(ctx) if ctx.replay_cases is None else [c for c in cases if http_safe(c)]
            if hcases:
                vlib.differential(ctx, hcases, hexe, mexe, oracle, nontrivial, lambda c, o: 'http ' + classify(c, o),
                                  impl_env={'C06_TMP': tmp}, what='correspondence model vs implementation (http::context path)', jobs=6)
    finally:
        import shutil
        shutil.rmtree(tmp, ignore_errors=True)
