"""C03 -- the client receives exactly the bytes the application wrote, once and in order."""
import os, re, json, zlib, struct
import vlib
from fe_common import Req, enc_http, enc_scgi, enc_fcgi, split_http_response, split_cgi_response, unrecord_fcgi, hx, unhx

META = dict(
    property_id='C03',
    design_ref='DESIGN.md section 4, C03',
    technique=('Coq proof (invariants over the stream-buffer chain, pending_output_ bookkeeping under an adversarial accept schedule, '
               'HTTP chunked / FastCGI record framing with independent decoders) + extracted-model correspondence through a real '
               'in-process service with an interposed writev() that forces short writes and would-block'),
    level_text=('Theorems in coq/C03/Props.v about the executable model of basic_device/output_device/async_io_buf, copy_buf, '
                'connection::write/nonblocking_write/async_write(+handler) and format_output of the three protocols: for every accept '
                'schedule wire ++ pending = concatenation of the formatted writes and nothing stays pending at completion; the devices '
                'emit exactly the bytes written for every sequence of write/put/flush/setbuf(any size)/full_buffering operations; '
                'unchunk(chunked framing)=body, unrecord(FastCGI framing)=body for all lengths; the header block is emitted once; '
                'end to end (script -> copy_buf -> device -> connection -> socket) the wire is header block + correctly framed body = '
                'bytes written, unconditionally for asynchronous responses (any would-block/short-write schedule) and for synchronous '
                'responses on a socket that never reports would-block (with a declared Content-Length: as long as the body fits); every '
                'header/cookie set before the first output is a line of the block; the page-cache copy equals the body; gzip_buf (zlib '
                'abstract under its contract) finalises exactly once and what reaches the socket inflates to the bytes written. '
                'The model is tied to the code by running the extracted model and a real cppcms::service (HTTP/1.0, HTTP/1.1, keep-alive, '
                'SCGI, FastCGI; synchronous and asynchronous applications) on the same response scripts and accept schedules and comparing '
                'the exact wire bytes and the (offered, accepted) sizes of every writev call; an independent oracle de-frames the wire and '
                'compares it with the bytes the script wrote.'),
    level_note=('Trusted: Coq kernel; hand transcription of src/http_response.cpp, src/cgi_api.cpp and the format_output functions (tied by '
                'exact wire + writev-trace correspondence, constants by cxx2v where listed); ExtrOcamlBasic extraction; '
                'harness/C03_service.cpp (writev/accept interposition, response-script application); libstdc++ streambuf::xsputn '
                'behaviour as transcribed; gzip_buf is modelled by hand (coq/C03/GzipDefs.v) with zlib as universally quantified parameters '
                'under its contract, tied to the code by the oracle only (gzip bodies are decompressed and compared); raw io modes are oracle only.'),
)

GEN = {
    # async_io_buf::next_size (the second next_size of the TU; the first one is hash_map<>::next_size from private/hash_map.h)
    'Gen_C03': dict(src='src/http_response.cpp', functions=[('next_size', 'g_next_size', 'next_size', 1)]),
    # FastCGI record size limit (static const local of fastcgi::format_output)
    'Gen_C03_fcgi': dict(src='src/fastcgi_api.cpp', consts=[('max_packet_len', 'g_max_packet_len')]),
    # iovec limit of stream_socket::readv/writev (first definition in the file)
    'Gen_C03_sock': dict(src='booster/lib/aio/src/stream_socket.cpp', consts=[('max_vec_size', 'g_max_vec_size')],
                         incs=vlib.repo_incs() + [vlib.REPO + '/booster/lib/aio/src']),
}

PATTERN = bytes(((i * 131 + 7) % 251) for i in range(251 * 4))


def pattern(off, n):
    # (i*131+7)%251 has period 251
    if n == 0:
        return b''
    start = off % 251
    reps = (start + n) // 251 + 2
    return (PATTERN[:251] * reps)[start:start + n]


STATUS_TEXT = {200: b'OK', 404: b'Not Found', 500: b'Internal Server Error', 302: b'Found', 201: b'Created', 403: b'Forbidden'}


def pkg_version():
    for d in (vlib.BUILD,):
        p = os.path.join(d, 'cppcms', 'config.h')
        if os.path.exists(p):
            m = re.search(r'#define\s+CPPCMS_PACKAGE_VERSION\s+"([^"]*)"', open(p).read())
            if m:
                return m.group(1).encode()
    return b'unknown'


class G:
    """per-run constants"""
    version = None
    base = None
    server = None
    hdrlen = None


def init_consts():
    G.version = pkg_version()
    G.base = [(b'Content-Type', b'text/html'), (b'X-Powered-By', b'CppCMS/' + G.version)]
    G.server = b'Server: CppCMS-Embedded/' + G.version + b'\r\n'
    G.hdrlen = sum(len(k) + len(v) + 4 for k, v in G.base) + 2


DEFBUF = {'/resp': 16384, '/aresp': 1024}


class Rq:
    """one request of a case: app ('/resp' sync or '/aresp' async), ops (list of op strings), http11, ka, gzip (Accept-Encoding),
    raw (script uses a raw io mode)"""

    def __init__(self, app, ops, http11=True, ka=False, gzip=False):
        self.app, self.ops, self.http11, self.ka, self.gzip = app, list(ops), http11, ka, gzip

    def script(self):
        return ','.join(self.ops)

    def modelled(self):
        if self.gzip and self.app == '/resp' and not any(o in ('m1', 'm2') for o in self.ops):
            return False
        return not any(o in ('m2', 'm4') for o in self.ops)

    def model_script(self):
        out = []
        for o in self.ops:
            if o[0] == 's':
                n = int(o[1:])
                out.append('h' + hx(b'Status') + ':' + hx(str(n).encode() + b' ' + status_text(n)))
            elif o[0] == 'm':
                continue
            else:
                out.append(o)
        return ','.join(out)


def status_text(n):
    return STATUS_TEXT.get(n, b'Unknown')


def make_case(proto, reqs, sched, rid=1):
    """case line for harness + model + oracle"""
    toks = [proto, 'K:' + ','.join(str(k) for k in sched)]
    xs = []
    for i, r in enumerate(reqs):
        last = (i == len(reqs) - 1)
        hdrs = []
        if r.gzip:
            hdrs.append((b'Accept-Encoding', b'gzip, deflate'))
        q = Req(b'GET', r.app.encode(), b'', r.script().encode(), hdrs, b'', r.http11, None, r.ka)
        if proto == 'http':
            data, rd = enc_http(q), ('R' if r.ka else 'E')
        elif proto == 'scgi':
            data, rd = enc_scgi(q), 'E'
        else:
            data, rd = enc_fcgi(q, rid=rid, keep_conn=not last), 'R'
        if r.modelled():
            m = 'M=%s;%d;%d;%d;%d;%d;%s;%s;%s;%s' % (
                proto, 1 if r.http11 else 0, 1 if (r.ka and proto == 'http') else 0, 1 if r.app == '/aresp' else 0, DEFBUF[r.app], rid,
                hx(b'1.1' if r.http11 else b'1.0'), hx(G.server), '|'.join(hx(k) + ':' + hx(v) for k, v in G.base), r.model_script())
        else:
            m = 'M=skip'
        toks += [m, 'S:' + hx(data), rd]
        xs.append(dict(app=r.app, ops=r.ops, http11=r.http11, ka=r.ka, gzip=r.gzip, rid=rid))
    toks.append('X:' + hx(json.dumps(xs).encode()))
    return ' '.join(toks)


# ---------------------------------------------------------------------------- what the script means (independent of the model)
def expected_of(x, cache):
    """(body the application wrote, dict of lower-case header name -> value set by the script, cookie lines, status or None,
    erased default headers) ; cache: dict key -> body for page-cache hits inside this case"""
    body = bytearray()
    off = 0
    hdrs = {}
    cookies = []
    status = None
    out = False
    store = None
    hit = False
    mode_seen = False
    erased = set()
    raw = any(o in ('m2', 'm4') for o in x['ops'])
    for o in x['ops']:
        if not o:
            continue
        k, a = o[0], o[1:]
        if k in 'wp':
            n = int(a)
            body += pattern(off, n)
            off += n
            out = True
        elif k == 'r':
            body += unhx(a)
            out = True
        elif k == 'f':
            out = True
        elif k == 'h':
            kk, vv = a.split(':')
            if not out:
                if unhx(vv):
                    hdrs[unhx(kk).lower()] = unhx(vv)
                else:
                    hdrs.pop(unhx(kk).lower(), None)
                    erased.add(unhx(kk).lower())
        elif k == 'l':
            if not out:
                hdrs[b'content-length'] = a.encode()
        elif k == 's':
            if not out:
                status = int(a)
        elif k == 'k':
            kk, vv = a.split(':')
            if not out:
                cookies.append(unhx(kk) + b'=' + unhx(vv))
        elif k == 'c':
            # cache_interface::fetch_page keys the page by need_gzip() at this moment ("_Z:" / "_U:" + key): Accept-Encoding,
            # synchronous normal io mode, Content-Type text/* as set so far
            ct = hdrs.get(b'content-type', b'' if b'content-type' in erased else b'text/html')
            zkey = (bool(x.get('gzip')) and x['app'] == '/resp' and not mode_seen and ct.startswith(b'text/'), a)
            if zkey in cache:
                body += cache[zkey]
                hit = True
                break
            store = zkey
        elif k == 'm':
            mode_seen = True
    if store is not None and not hit:
        cache[store] = bytes(body)
    if raw:
        # raw io modes: the application writes the CGI header block itself
        he = bytes(body).find(b'\r\n\r\n')
        head, body = (bytes(body[:he]), body[he + 4:]) if he >= 0 else (bytes(body), b'')
        hdrs = {}
        for l in head.split(b'\r\n'):
            n, _, v = l.partition(b':')
            if n:
                hdrs[n.strip().lower()] = v.strip()
        erased = {k.lower() for k, _ in G.base}
    return bytes(body), hdrs, cookies, status, erased


def deframe(proto, x, raw):
    """wire bytes of one response -> (problem or None, status(bytes or None), headers list, body)"""
    if proto == 'http':
        r = split_http_response(raw)
        if r is None:
            return 'no-header-block', None, [], b''
        st, hdrs, body, framing, rest = r
        m = re.match(rb'HTTP/1\.[01] (\d+ .*)$', st)
        if not m:
            return 'bad-status-line', None, hdrs, body
        d = {}
        for n, v in hdrs:
            d.setdefault(n.lower(), []).append(v)
        if framing.startswith('chunked-'):
            return 'http-' + framing, m.group(1), hdrs, body
        if rest:
            return 'http-bytes-after-framed-body', m.group(1), hdrs, body
        if framing == 'content-length' and len(body) != int(d[b'content-length'][0]):
            return 'http-content-length-mismatch', m.group(1), hdrs, body
        if framing == 'close' and x['ka'] and x['http11']:
            return 'http-unframed-keep-alive', m.group(1), hdrs, body
        conn = d.get(b'connection', [b''])[0].lower()
        if framing == 'close' and conn == b'keep-alive':
            return 'http-keep-alive-without-framing', m.group(1), hdrs, body
        return None, m.group(1), hdrs, body
    if proto == 'fcgi':
        out, recs, end, rest, ok = unrecord_fcgi(raw)
        if not ok or end is None:
            return 'fcgi-no-end-request', None, [], b''
        if rest:
            return 'fcgi-bytes-after-end-request', None, [], b''
        if any(rid != x['rid'] for _, rid, _, _ in recs):
            return 'fcgi-wrong-request-id', None, [], b''
        if [t for t, _, _, _ in recs].count(3) != 1 or end != b'\0' * 8:
            return 'fcgi-bad-end-request', None, [], b''
        so = [(cl, pl) for t, _, cl, pl in recs if t == 6]
        if not so or so[-1][0] != 0 or any(cl == 0 for cl, _ in so[:-1]):
            return 'fcgi-stdout-not-closed-once', None, [], b''
        if any(t not in (3, 6) for t, _, _, _ in recs):
            return 'fcgi-unexpected-record-type', None, [], b''
        raw = out
    r = split_cgi_response(raw)
    if r is None:
        return 'no-header-block', None, [], b''
    hdrs, body = r
    st = None
    for n, v in hdrs:
        if n.lower() == b'status':
            st = v
    return None, st, hdrs, body


def check_response(proto, x, raw, cache):
    body_exp, hdrs_exp, cookies_exp, status_exp, erased = expected_of(x, cache)
    prob, st, hdrs, body = deframe(proto, x, raw)
    if prob:
        return (prob, 'response is not correctly framed: ' + prob)
    d = {}
    for n, v in hdrs:
        d.setdefault(n.lower(), []).append(v)
    if d.get(b'content-encoding') == [b'gzip']:
        try:
            body = zlib.decompress(body, 31)
        except zlib.error as e:
            return ('gzip-stream-corrupt', 'gzip body does not decompress: %s' % e)
    if body != body_exp:
        i = next((j for j in range(min(len(body), len(body_exp))) if body[j] != body_exp[j]), min(len(body), len(body_exp)))
        desc = 'body differs from what the application wrote: %d bytes received, %d written, first difference at offset %d' % (
            len(body), len(body_exp), i)
        return ('body-not-faithful-' + proto, desc)
    # headers: exactly one block (a second one would be part of the body), every header of the script present once
    names = [n.lower() for n, _ in hdrs if n.lower() != b'set-cookie']
    dup = [n for n in set(names) if names.count(n) > 1]
    if dup:
        return ('duplicate-header', 'header emitted twice: %r' % dup)
    for k, v in hdrs_exp.items():
        if d.get(k) != [v]:
            return ('header-lost', 'header %r set by the application is %r on the wire' % (k, d.get(k)))
    for k, v in G.base:
        if k.lower() not in hdrs_exp and k.lower() not in erased and d.get(k.lower()) != [v]:
            return ('header-lost', 'default header %r is %r on the wire' % (k, d.get(k.lower())))
    got_cookies = [v.split(b';')[0].strip() for n, v in hdrs if n.lower() == b'set-cookie']
    if got_cookies != cookies_exp:
        return ('cookie-lost', 'cookies on the wire %r, set by the application %r' % (got_cookies, cookies_exp))
    if status_exp is not None:
        if st is None or not st.startswith(str(status_exp).encode() + b' '):
            return ('status-lost', 'status %d set by the application, %r on the wire' % (status_exp, st))
    elif proto == 'http' and st is not None and not st.startswith(b'200 '):
        return ('status-lost', 'default status expected, %r on the wire' % st)
    return None


def parse_x(case):
    for t in case.split():
        if t.startswith('X:'):
            return json.loads(unhx(t[2:]).decode())
    return None


def oracle(case, out):
    if out.startswith('<crash'):
        return ('service-crash', 'harness/service died: ' + out[:300])
    xs = parse_x(case)
    if xs is None:
        return None
    proto = case.split()[0]
    toks = out.split()
    resp = [t for t in toks if not t.startswith('log=') and not t.startswith('wv=')]
    if len(resp) != len(xs) or any(t in ('CONNECT-FAILED', 'BAD-STEP') for t in resp):
        return ('response-count', '%d responses for %d requests' % (len(resp), len(xs)))
    cache = {}
    closed = False
    for i, (x, t) in enumerate(zip(xs, resp)):
        if closed:
            # the previous response announced that the connection would be closed: nothing more may arrive
            if t != '-':
                return ('bytes-after-connection-close', 'response %d: %d bytes arrived after a response that announced Connection: close' % (i + 1, len(unhx(t))))
            expected_of(x, {})
            continue
        if proto == 'http' and not re.search(rb'\r\nconnection: keep-alive\r\n', unhx(t.replace('!T', '')).split(b'\r\n\r\n')[0].lower() + b'\r\n'):
            closed = True
        if proto == 'scgi':
            closed = True
        if t.endswith('!T'):
            return ('response-incomplete-' + proto, 'response %d was not completed (client timed out waiting for the end of the framed response)' % (i + 1))
        r = check_response(proto, x, unhx(t), cache)
        if r:
            return (r[0], 'response %d of the connection: %s' % (i + 1, r[1]))
    return None


def canon_impl(case, out):
    if 'M=skip' in case:
        return 'SKIP'
    toks = out.split()
    return ' '.join(t for t in toks if not t.startswith('log='))


def nontrivial(case, out):
    m = re.search(r'wv=(\S+)', out)
    if not m or m.group(1) == '-':
        return False
    calls = [c.split(':') for c in m.group(1).split(',') if c]
    return len(calls) >= 2


def classify(case, out):
    t = case.split()
    xs = parse_x(case) or [{}]
    m = re.search(r'wv=(\S+)', out)
    partial = False
    if m and m.group(1) != '-':
        partial = any(c and c.split(':')[0] != c.split(':')[1] for c in m.group(1).split(','))
    return '%s:%s:%s:%s' % (t[0], 'async' if xs[0].get('app') == '/aresp' else 'sync', 'short-writes' if partial else 'full-writes',
                            'skip-model' if 'M=skip' in case else 'modelled')


# ---------------------------------------------------------------------------- generator
TOK = b'abcdefghijklmnopqrstuvwxyzABCDEFGHIJKLMNOPQRSTUVWXYZ0123456789-_'
HNAMES = [b'X-Test', b'x-lower', b'Cache-Control', b'ETag', b'Vary', b'Content-Language', b'A-First', b'Z-Last', b'X-Powered-By',
          b'Content-Type', b'CONTENT-LANGUAGE', b'Pragma']


def rnd_tok(rng, lo=1, hi=10):
    return bytes(rng.choice(TOK) for _ in range(rng.randint(lo, hi)))


def rnd_header_ops(rng):
    ops = []
    for _ in range(rng.choice([0, 0, 1, 2, 4])):
        k = rng.random()
        if k < 0.6:
            n = rng.choice(HNAMES)
            v = rnd_tok(rng) if n.lower() != b'content-type' else rng.choice([b'text/plain', b'application/octet-stream', b'text/html; charset=utf-8'])
            if rng.random() < 0.08:
                v = b''
            ops.append('h%s:%s' % (hx(n), hx(v) if v else ''))
        elif k < 0.85:
            ops.append('k%s:%s' % (hx(rnd_tok(rng, 1, 5)), hx(rnd_tok(rng, 1, 8))))
        else:
            ops.append('s%d' % rng.choice(list(STATUS_TEXT)))
    return ops


def rnd_sizes(rng, cap):
    base = [0, 1, 2, 3, 7, 8, 9, 63, 64, 65, 127, 128, 129, 255, 256, 257, 383, 384, 511, 512, 513, 1000, 1023, 1024, 1025, 2047, 2048, 2049]
    near = [max(0, cap + d) for d in (-2, -1, 0, 1, 2)] + [2 * cap, 2 * cap + 1]
    return base, near


def rnd_body_ops(rng, is_async, cap0, big=False):
    """ops after the header ops. cap0 = initial buffer size.  setbuf sizes below the amount currently buffered in fully
    buffered asynchronous mode (0 included) are part of the regular stream: that class was a defect until /repo 00eb9d4"""
    ops = []
    cap = cap0
    full = True
    buffered = 0
    out = False
    n_ops = rng.randint(1, 9)
    for _ in range(n_ops):
        k = rng.random()
        if k < 0.55:
            base, near = rnd_sizes(rng, cap)
            if big and rng.random() < 0.5:
                n = rng.choice([65535, 65536, 65535 - G.hdrlen, 65536 - G.hdrlen, 65534 - G.hdrlen, 131070, 131071, 131070 - G.hdrlen, 70000, 16384, 16385, 32768,
                                rng.randint(60000, 140000)])
            else:
                n = rng.choice(near) if rng.random() < 0.45 else (rng.choice(base) if rng.random() < 0.7 else rng.randint(0, 3000))
            if rng.random() < 0.12 and n <= 300:
                ops.append('p%d' % n)
            elif rng.random() < 0.1 and n <= 40:
                ops.append('r' + (hx(bytes(rng.getrandbits(8) for _ in range(n))) if n else ''))
            else:
                ops.append('w%d' % n)
            out = True
            buffered += n
        elif k < 0.7:
            ops.append('f')
            out = True
            if not (is_async and full):
                buffered = 0
        elif k < 0.85:
            n = rng.choice([0, 1, 2, 7, 8, 16, 64, 100, 127, 128, 129, 1024, 4096, -1])
            if buffered > 0 and rng.random() < 0.35:
                # aimed at the repaired class: at / just below / just above the buffered amount
                n = max(0, rng.choice([buffered - 1, buffered, buffered + 1, buffered // 2, 0, 1]))
            eff = cap0 if n < 0 else n
            ops.append('b%d' % n)
            cap = eff
        elif k < 0.93:
            if is_async:
                b = rng.random() < 0.5
                ops.append('u%d' % (1 if b else 0))
                if full and not b:
                    buffered = 0 if buffered > cap else buffered
                full = b
        else:
            if is_async:
                ops.append('a')
                buffered = 0
    return ops


def rnd_sched(rng, is_async, around):
    ks = [1, 2, 3, 5, 7, 8, 15, 16, 17, 24, 100, 1000, 4096, 65535, 65536, 65543, 65544, 10 ** 9]
    ks += [max(1, a + d) for a in around for d in (-1, 0, 1)]
    n = rng.choice([0, 1, 2, 3, 5, 8, 12])
    out = []
    for _ in range(n):
        if is_async and rng.random() < 0.25:
            out.append(0)
        else:
            out.append(rng.choice(ks))
    return out


def gen_cases(ctx):
    rng = ctx.rng
    init_consts()
    cases = []
    protos = [('http', True, False), ('http', True, True), ('http', False, False), ('http', False, True), ('scgi', True, False), ('fcgi', True, False)]
    uid = [rng.getrandbits(40)]

    def key():
        uid[0] += 1
        return 'k%x' % uid[0]

    # 1. small exhaustive-ish grid: one write of size n around the buffer cap, every protocol, sync and async, three schedules
    for proto, h11, ka in protos:
        for app in ('/resp', '/aresp'):
            for cap in (0, 1, 8):
                for n in (0, 1, cap - 1, cap, cap + 1, 2 * cap + 1):
                    if n < 0:
                        continue
                    for sched in ([], [1, 1, 1], [0, 3, 0, 5] if app == '/aresp' else [2, 3]):
                        ops = ['b%d' % cap, 'w%d' % n, 'f', 'w%d' % (n + 1)]
                        if app == '/aresp':
                            ops = ['u0'] + ops
                        cases.append(make_case(proto, [Rq(app, ops, h11, ka)], sched, rid=rng.choice([1, 2, 255, 65535])))
    # 2. random scripts
    for i in range(ctx.scale(1500, 14000)):
        proto, h11, ka = rng.choice(protos)
        app = rng.choice(['/resp', '/aresp'])
        is_async = app == '/aresp'
        big = rng.random() < ctx.scale(0.02, 0.04)
        pre = rnd_header_ops(rng)
        cap0 = DEFBUF[app]
        if rng.random() < 0.5:
            n = rng.choice([0, 1, 2, 8, 64, 128, 1024])
            pre.append('b%d' % n)
            cap0 = n
        if is_async and rng.random() < 0.5:
            pre.append('u0')
        if not is_async and rng.random() < 0.1:
            pre.append('m1')
        body = rnd_body_ops(rng, is_async, cap0, big)
        reqs = [Rq(app, pre + body, h11, ka)]
        if (proto == 'http' and ka) or proto == 'fcgi':
            if rng.random() < 0.5:
                app2 = rng.choice(['/resp', '/aresp'])
                reqs.append(Rq(app2, rnd_header_ops(rng) + rnd_body_ops(rng, app2 == '/aresp', DEFBUF[app2]), h11, ka))
        tot = sum(int(o[1:]) for o in body if o[0] in 'wp')
        sched = rnd_sched(rng, all(r.app == '/aresp' for r in reqs), [G.hdrlen, tot, tot + G.hdrlen])
        # Content-Length declared by the application (exact)
        if len(reqs) == 1 and rng.random() < 0.1 and not any(o[0] == 'r' for o in body):
            reqs[0].ops = ['l%d' % tot] + reqs[0].ops
        cases.append(make_case(proto, reqs, sched, rid=rng.choice([1, 1, 3, 65535])))
    # 3. page cache: miss (copy_buf tee) then hit on a second connection-level request
    for i in range(ctx.scale(150, 1500)):
        proto, h11, ka = rng.choice([p for p in protos if p[0] != 'http' or p[2]] if rng.random() < 0.7 else protos)
        app = rng.choice(['/resp', '/aresp'])
        k = key()
        pre = rnd_header_ops(rng)
        if rng.random() < 0.5:
            pre.append('b%d' % rng.choice([0, 1, 8, 64, 128, 129]))
        ops = pre + ['c' + k]
        cap0 = DEFBUF[app]
        for _ in range(rng.randint(1, 6)):
            r = rng.random()
            if r < 0.7:
                ops.append('w%d' % rng.choice([0, 1, 5, 127, 128, 129, 255, 256, 257, 300, 384, 511, 512, 513, 1000, 1024, 1025, 3000]))
            elif r < 0.8:
                ops.append('p%d' % rng.choice([1, 2, 127, 128, 129, 200]))
            elif r < 0.95:
                ops.append('f')
            elif app == '/aresp':
                ops.append('a')
        r1 = Rq(app, ops, h11, ka)
        app2 = rng.choice(['/resp', '/aresp'])
        r2 = Rq(app2, rnd_header_ops(rng) + ['c' + k, 'w5'], h11, ka)
        sched = rnd_sched(rng, app == '/aresp' and app2 == '/aresp', [128, 256, G.hdrlen])
        if (proto == 'http' and ka) or proto == 'fcgi':
            cases.append(make_case(proto, [r1, r2], sched))
        else:
            # two connections: two cases would not share the key -> put both on one case only for kept-alive protocols; otherwise miss only
            cases.append(make_case(proto, [r1], sched))
    # 3b. page cache with gzip: compressed pages are cached under their own key ("_Z:"): miss + hit with gzip (the hit sends the
    #     cached compressed stream with Content-Encoding: gzip), and the same key requested with and without gzip (two entries)
    for i in range(ctx.scale(60, 600)):
        proto, h11, ka = rng.choice([('http', True, True), ('http', False, True), ('fcgi', True, False)])
        k = key()
        g1, g2 = rng.choice([(True, True), (True, True), (True, False), (False, True)])
        pre = [o for o in rnd_header_ops(rng) if not o.startswith('h' + hx(b'Content-Type')) and not o.startswith('h' + hx(b'CONTENT-TYPE'))]
        ops = pre + ['c' + k]
        for _ in range(rng.randint(1, 5)):
            r = rng.random()
            if r < 0.75:
                ops.append('w%d' % rng.choice([0, 1, 5, 127, 128, 129, 255, 256, 257, 1000, 3000, 20000]))
            elif r < 0.85:
                ops.append('p%d' % rng.choice([1, 2, 130]))
            else:
                ops.append('f')
        r1 = Rq('/resp', ops, h11, ka, gzip=g1)
        app2 = '/resp' if rng.random() < 0.8 else '/aresp'
        r2 = Rq(app2, ['c' + k, 'w5'], h11, ka, gzip=g2)
        reqs = [r1, r2]
        if rng.random() < 0.4:
            reqs.append(Rq('/resp', ['c' + k, 'w7'], h11, ka, gzip=rng.random() < 0.5))
        cases.append(make_case(proto, reqs, rnd_sched(rng, False, [100, G.hdrlen])))
    # 4. FastCGI record boundaries, multi-entry gather buffers split across records, big bodies on all protocols
    sizes = [65535 - G.hdrlen - 1, 65535 - G.hdrlen, 65535 - G.hdrlen + 1, 65535, 65536, 131070 - G.hdrlen, 131070 - G.hdrlen + 1, 131070, 131071, 200 * 1024]
    for n in sizes if not ctx.quick() else rng.sample(sizes, 6):
        for app in ('/resp', '/aresp'):
            for proto, h11, ka in (('fcgi', True, False), ('http', True, True), ('scgi', True, False)):
                pre = rng.choice([[], ['b0'], ['b100'], ['b70000']])
                split = rng.choice([0, 1, 100, n // 2])
                ops = pre + (['w%d' % split] if split else []) + ['w%d' % (n - split)] + rng.choice([[], ['f'], ['w1'], ['f', 'w65536']])
                if app == '/aresp' and rng.random() < 0.5:
                    ops = ['u0'] + ops
                sched = rnd_sched(rng, app == '/aresp', [65535, 65536, 65543, 65544, n])
                cases.append(make_case(proto, [Rq(app, ops, h11, ka)], sched))
    # exact FastCGI record boundaries inside ONE format_output call (reminder == max_packet_len and neighbours), with and
    # without the header block in front: synchronous device writes an oversized xsputn straight through, the fully
    # buffered asynchronous device hands everything over at close (completing write)
    for total in (65534, 65535, 65536, 131070, 131071):
        cases.append(make_case('fcgi', [Rq('/resp', ['w%d' % (total - G.hdrlen)])], []))
        cases.append(make_case('fcgi', [Rq('/resp', ['w1', 'f', 'w%d' % total, 'w3'])], [65543, 8]))
        cases.append(make_case('fcgi', [Rq('/aresp', ['w%d' % (total - G.hdrlen)])], [0, 65535]))
        cases.append(make_case('fcgi', [Rq('/aresp', ['u0', 'b0', 'w1', 'w%d' % total, 'w2'])], []))
    # more than 16 gather entries in one write: stream_socket::writev truncates the iovec (natural short write)
    for app in ('/resp', '/aresp'):
        cases.append(make_case('fcgi', [Rq(app, ['b0', 'w10', 'w%d' % (5 * 65535 + 7)])], [] if app == '/resp' else [0, 100000]))
    if not ctx.quick():
        for n in (300 * 1024, 400 * 1024 + 3):
            for app in ('/resp', '/aresp'):
                cases.append(make_case('fcgi', [Rq(app, ['b0', 'w10', 'w%d' % n])], []))      # more than 16 gather entries
    # 5. oracle-only stream: gzip (sync, normal io mode) and raw io modes
    for i in range(ctx.scale(120, 1200)):
        proto, h11, ka = rng.choice(protos)
        if rng.random() < 0.7:
            pre = rnd_header_ops(rng)
            ops = pre + rnd_body_ops(rng, False, DEFBUF['/resp'], big=rng.random() < 0.03)
            if rng.random() < 0.3:
                ops = pre + ['c' + key()] + [o for o in ops[len(pre):] if o[0] in 'wpf']
            cases.append(make_case(proto, [Rq('/resp', ops, h11, ka, gzip=True)], rnd_sched(rng, False, [100])))
        else:
            app = rng.choice(['/resp', '/aresp'])
            hdr = b'Content-Type: text/plain\r\nX-Raw: ' + rnd_tok(rng) + b'\r\n\r\n'
            cut = rng.randint(0, len(hdr))
            mode = 'm2' if app == '/resp' else 'm4'
            ops = [mode, 'r' + hx(hdr[:cut]) if cut else 'f', 'r' + hx(hdr[cut:]) if cut < len(hdr) else 'f'] + \
                [o for o in rnd_body_ops(rng, app == '/aresp', DEFBUF[app]) if o[0] in 'wpfa']
            cases.append(make_case(proto, [Rq(app, ops, h11, ka)], rnd_sched(rng, app == '/aresp', [100])))
    # 6. regression of the repaired defect (/repo 00eb9d4): setbuf below the buffered amount in fully buffered asynchronous
    #    mode, followed by output that grows the vector (write / put), by an asynchronous flush, by switching full
    #    buffering off (which applies the remembered size: flush when the content exceeds it) and on again
    for c in shrink_cases(rng, ctx.scale(150, 1500)):
        cases.append(c)
    return cases


def shrink_witnesses():
    """fixed witnesses (also stored in corpus/C03/shrink.case)"""
    init_consts()
    cases = []
    for proto, h11, ka in (('http', True, True), ('scgi', True, False), ('fcgi', True, False)):
        cases.append(make_case(proto, [Rq('/aresp', ['w100', 'b10', 'w100'], h11, ka)], []))
        cases.append(make_case(proto, [Rq('/aresp', ['w300', 'b1', 'w1', 'a', 'w5'], h11, ka)], [3, 0, 7]))
        cases.append(make_case(proto, [Rq('/aresp', ['w5', 'b0', 'p3', 'f', 'w70', 'b0', 'a', 'b0', 'w1'], h11, ka)], [1, 0, 2]))
        cases.append(make_case(proto, [Rq('/aresp', ['b8', 'w64', 'b3', 'u0', 'w2', 'w2', 'u1', 'w9', 'b2', 'p70'], h11, ka)], [5, 0, 0, 9]))
    return cases


def shrink_cases(rng, count):
    protos = [('http', True, False), ('http', True, True), ('http', False, False), ('http', False, True), ('scgi', True, False), ('fcgi', True, False)]
    cases = shrink_witnesses()
    for _ in range(count):
        proto, h11, ka = rng.choice(protos)
        ops = []
        if rng.random() < 0.4:
            ops.append('b%d' % rng.choice([0, 1, 8, 63, 64, 65, 128]))
        if rng.random() < 0.15:
            ops.append('c' + 'k%x' % rng.getrandbits(48))
        buffered = 0
        full = True
        for _ in range(rng.randint(2, 8)):
            r = rng.random()
            if r < 0.4:
                n = rng.choice([1, 2, 3, 5, 63, 64, 65, 100, 127, 128, 129, 255, 256, 257, 1023, 1024, 1025, 2049, rng.randint(1, 5000)])
                ops.append(('p%d' % n) if (n <= 300 and rng.random() < 0.3) else ('w%d' % n))
                buffered += n
            elif r < 0.75:
                n = max(0, rng.choice([0, 1, buffered - 1, buffered, buffered + 1, buffered // 2, buffered // 2 + 1, 63, 64, 65]))
                ops.append('b%d' % n)
            elif r < 0.83:
                ops.append('f')
                if not full:
                    buffered = 0
            elif r < 0.91:
                ops.append('a')
                buffered = 0
            else:
                full = not full
                ops.append('u%d' % (1 if full else 0))
        ops.append(rng.choice(['w1', 'p2', 'w64', 'w1025', 'f']))
        sched = rnd_sched(rng, True, [G.hdrlen, buffered])
        cases.append(make_case(proto, [Rq('/aresp', ops, h11, ka)], sched, rid=rng.choice([1, 2, 65535])))
    return cases


def asan_eligible(case):
    """cases for the sanitizer pass: no zero-size put area and no zero-length write (see run())"""
    xs = parse_x(case) or []
    for x in xs:
        for o in x['ops']:
            if o in ('b0', 'w0', 'p0', 'r', ''):
                return False
    return True


def run(ctx):
    init_consts()
    errs = vlib.gen_coq(GEN)
    for n, e in errs:
        ctx.broke('translator cxx2v failed on %s (tie to source broken)' % n, e)
    res = vlib.coq_props('C03')
    ctx.proof(res)
    ctx.coverage['trusted_base'] = [
        'Coq 8.16.1 kernel, vm_compute',
        'extraction: ExtrOcamlBasic only, OCaml 4.13.1',
        'harness/C03_service.cpp (in-process cppcms::service, accept()/writev() interposition) + harness/C03_resp_app.h (response-script application)',
        'checks/fe_common.py request encoders and response de-framers (independent of the model)',
        'hand model coq/C03/Defs.v of src/http_response.cpp (basic_device, async_io_buf, copy_buf), src/cgi_api.cpp (write, nonblocking_write, '
        'append_pending, async_write, async_write_handler, async_write_response), format_output of src/http_api.cpp, src/scgi_api.cpp, '
        'src/fastcgi_api.cpp, private/response_headers.h',
        'libstdc++ basic_streambuf::xsputn / sputc semantics as transcribed in cpy_xsputn']
    ctx.assumptions = ['kernel delivers socket bytes in order and writev on the connection is the only write path (stream_socket::writev)',
                       'header names and values in generated scripts are ASCII tokens (char comparison is signed in http::protocol::compare)',
                       'zlib is trusted: gzip responses are checked by decompressing with Python zlib (oracle); in Coq zlib is a parameter of the '
                       'gzip theorems under its contract (NO_FLUSH/SYNC_FLUSH calls ended by one FINISH call inflate to the concatenated input)',
                       'sync_*_live theorems: the blocking socket never reports would-block (every accept-schedule entry is positive)',
                       'the application respects the API contract: no output while an asynchronous flush is in flight, cache().fetch_page before the first output']
    exe, err = vlib.build_harness('C03_service', ['C03_service.cpp'], extra=['-ldl'])
    if not exe:
        ctx.broke('harness build failed', err)
        return
    mexe, err = vlib.build_model('C03', 'C03_driver.ml', 'c03m')
    if not mexe:
        ctx.broke('model extraction/build failed', err)
    cases = ctx.replay_cases if ctx.replay_cases is not None else vlib.corpus_cases('C03') + gen_cases(ctx)
    ctx.coverage['rule'] = (
        'case = protocol + accept schedule for the interposed writev (k>0: accept min(k, offered) bytes, 0: EAGAIN, exhausted: everything) + 1..2 '
        'requests on one connection, each running a response script (setbuf / full_asynchronous_buffering / write / put / flush / headers / '
        'cookies / content_length / status / page cache / async_flush_output) in the synchronous or asynchronous application. Generated: grid of '
        'single writes around the buffer cap x 6 protocol variants x sync/async x 3 schedules; random scripts with sizes aimed at buffer caps, '
        'copy_buf doubling points (128*2^k), 65535/65536 and header-adjusted FastCGI record boundaries, bodies to 200 KiB; page-cache miss+hit; '
        'asynchronous scripts with setbuf below / at / above the buffered amount in full buffering mode (repaired class); gzip and raw io modes (oracle only). Non-trivial = the response needed at least two writev calls; distinct = distinct case lines.')
    os.makedirs(ctx.workdir, exist_ok=True)
    model_cmd = ['bash', '-c', 'ulimit -s unlimited 2>/dev/null || ulimit -s 1000000; exec "$0"', mexe] if mexe else None
    vlib.differential(ctx, cases, exe, model_cmd, oracle, nontrivial, classify,
                      impl_env={'FE_WORKDIR': ctx.workdir, 'LC_ALL': 'C', 'LANG': 'C'},
                      canon_case=canon_impl, jobs=8)
    # thorough tier (and replays): the same cases once more through an AddressSanitizer/UBSan build of the library, oracle only.
    # A memory error in the anchored code aborts the service: reported as service-crash with the case as replay.
    if not ctx.quick() or ctx.replay_cases is not None:
        ok, err = vlib.build_repo(asan=True)
        if not ok:
            ctx.broke('sanitizer build of /repo working tree failed', err)
            return
        aexe, err = vlib.build_harness('C03_service', ['C03_service.cpp'], asan=True, extra=['-ldl'])
        if not aexe:
            ctx.broke('sanitizer harness build failed', err)
            return
        acases = [c for c in cases if asan_eligible(c)]
        ctx.coverage['sanitizer_pass'] = ('%d of the cases re-run under -fsanitize=address,undefined (oracle only); excluded: scripts with setbuf(0) or '
                                          'zero-length writes (memcpy(NULL, s, 0) in basic_device::xsputn / async_io_buf::xsputn is reported by UBSan as '
                                          'nonnull-attribute: benign, not a property violation)' % len(acases))
        if acases:
            vlib.differential(ctx, acases, aexe, None, oracle, nontrivial, lambda c, o: 'asan:' + classify(c, o),
                              impl_env={'FE_WORKDIR': ctx.workdir, 'LC_ALL': 'C', 'LANG': 'C', 'ASAN_OPTIONS': 'detect_leaks=0'},
                              what='sanitizer pass', canon_case=canon_impl, jobs=8)
