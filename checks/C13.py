"""C13 -- the built-in file server never serves anything outside its document roots."""
import os, re, shutil, socket, itertools, json, html, urllib.parse, stat, threading, time
import vlib
from vlib import hexs, unhex

META = dict(
    property_id='C13',
    design_ref='DESIGN.md section 4, C13',
    technique=('Coq proof (induction over the component list; invariant of the output cursor) about an executable model of '
               'file_server::normalize_path / is_file_prefix / check_in_document_root / main / list_dir + extracted-model '
               'correspondence against normalize_path called directly and against real cppcms::service instances with the file '
               'server enabled over an on-disk sandbox, + a reference-resolution oracle on the HTTP replies'),
    level_text=('Theorems in coq/C13/Props.v, for all byte strings: normalize_path output is slash-rooted, has no empty, dot or '
                'dot-dot component and is a fixed point; it equals the textbook stack resolution of the request path; the '
                'buffer/iterator-level model equals the functional one; an alias is selected only on a whole-component prefix; with '
                'check_symlink off the opened path is root ++ safe path; with check_symlink on (realpath contract as hypothesis) the '
                'opened path has the canonical root as a component-wise prefix; every path handed to open/opendir by main comes from '
                'check_in_document_root; listings only when enabled, no dot names, names escaped/urlencoded; the markup skeleton of the '
                'listing page (bytes < > quotes, in order) is fixed by the page grammar whatever the names and the request path; href and '
                'text of a row tokenize back and decode to the entry name; for every request target the redirect Location is the '
                'percent-encoded normal form of the request path: only unreserved bytes, percent signs and slashes (one header line), '
                'on this site, leading back to the same directory; percent-encoding is transparent and undone exactly once before normalisation; in the name-space '
                'model (every finite symlink graph, 40-link limit) realpath is idempotent and every served file is its own real path '
                'under the real path of the root in force; for every kind of object (regular, directory, FIFO, devices, socket, link, failed stat) '
                'main streams only what passes the S_IFREG bit test and never reaches open() for a FIFO, a device or a directory, and in the '
                'name-space model only regular-file nodes are streamed. The model is tied to the '
                'source by running normalize_path exhaustively on all strings of length <= 8 over {a . /} and by replaying generated '
                'request targets against real services (10 configurations, two of them with the asynchronous file handler mounted directly) over a sandbox with symlinks, aliases and marker files.'),
    level_note=('Trusted: Coq kernel + vm_compute; extraction; the hand model of the C++ (tied by correspondence, not by translation, '
                'except is_directory_separator which is regenerated from source); the POSIX name-space model used by the model driver; '
                'the kernel path resolution itself (TOCTOU between realpath/stat and open is out of scope); Windows branches not modelled.'),
)

GEN = {
    'Gen_fileserver': dict(src='src/internal_file_server.cpp',
                           functions=[('is_directory_separator', 'g_is_directory_separator')]),
    # the platform values of the st_mode bits tested by main / list_dir (sys/stat.h through a two-line translation unit)
    'Gen_C13_mode': dict(src=os.path.join(vlib.VERIF, 'harness', 'C13_mode_tu.cpp'), incs=[],
                         consts=[('c13_' + n, 'g_c13_' + n) for n in ('S_IFMT', 'S_IFDIR', 'S_IFREG', 'S_IFIFO', 'S_IFCHR', 'S_IFBLK', 'S_IFLNK', 'S_IFSOCK')]),
}

# rigid statement tie: file_server::main and file_server::file_mode, comments and white space removed, must be the text fs_main /
# serve / the mode tests of coq/C13/Defs.v were written from (cxx2v cannot translate them: std::string, streams, member calls).
# Any rewrite of the decision tree - an early return, a dropped or changed mode test, a reordered branch - has to be looked at.
MAIN_TEXT = ('void file_server::main(std::string file_name) { std::string path; if(!check_in_document_root(file_name,path)) { show404(); return; } '
             'int s=file_mode(path); if((s & S_IFDIR)) { std::string path2; int mode_2=0; bool have_index = check_in_document_root(file_name+"/" + '
             'index_file_ ,path2); if(have_index) { mode_2 = file_mode(path2); have_index = (mode_2 & S_IFREG) != 0; } if( !file_name.empty() && '
             "file_name[file_name.size()-1]!='/' && (have_index || list_directories_) ) { std::string normal = file_name; normalize_path(normal); "
             "std::string location; for(size_t i=0;i<normal.size();i++) { if(normal[i]=='/') location += '/'; else location += "
             'util::urlencode(normal.substr(i,1)); } if(location != "/") location += \'/\'; response().set_redirect_header(location); '
             'response().out()<<std::flush; return; } if(have_index) { path = path2; s=mode_2; } else { if(list_directories_) '
             'list_dir(file_name,path); else show404(); return; } } if(!(s & S_IFREG)) { show404(); return; } std::string ext; size_t pos = '
             "path.rfind('.'); if(pos != std::string::npos) ext=path.substr(pos); mime_type::const_iterator p=mime_.find(ext); if(p!=mime_.end()) "
             'response().content_type(p->second); else response().content_type("application/octet-stream"); if(!allow_deflate_ && !async_) { '
             'response().io_mode(http::response::nogzip); } if(async_) { file_server_detail::async_file_handler::pointer_type p=new '
             'file_server_detail::async_file_handler(path,release_context()); p->go(); } else { booster::nowide::ifstream '
             'file(path.c_str(),std::ios_base::binary); if(!file) { show404(); return; } response().out()<<file.rdbuf(); } }')
FILE_MODE_TEXT = ('int file_server::file_mode(std::string const &file_name) { port_stat st; if(get_stat(file_name.c_str(),&st) < 0) return 0; '
                  'return st.st_mode; }')


def function_text(txt, head):
    i = txt.find(head)
    if i < 0:
        return None
    j = txt.index('{', i)
    d, k = 0, j
    while k < len(txt):
        if txt[k] == '{':
            d += 1
        elif txt[k] == '}':
            d -= 1
            if d == 0:
                return ' '.join(txt[i:k + 1].split())
        k += 1
    return None


def main_text_tie():
    try:
        txt = open(os.path.join(vlib.REPO, 'src', 'internal_file_server.cpp')).read()
    except Exception as e:
        return 'cannot read src/internal_file_server.cpp: %s' % e
    txt = re.sub(r'/\*.*?\*/', ' ', txt, flags=re.S)
    txt = re.sub(r'//[^\n]*', ' ', txt)
    for head, want in (('void file_server::main(std::string file_name)', MAIN_TEXT), ('int file_server::file_mode(std::string const &file_name)', FILE_MODE_TEXT)):
        got = function_text(txt, head)
        if got is None:
            return 'function not found: ' + head
        if got != want:
            n = next((i for i in range(min(len(got), len(want))) if got[i] != want[i]), min(len(got), len(want)))
            return 'the text of %s changed at: ...%s  (the model was written from: ...%s)' % (head, got[max(0, n - 60):n + 120], want[max(0, n - 60):n + 120])
    return None

MARK = b'C13MARK{%d}'
MARK_RE = re.compile(rb'C13MARK\{(\d+)\}')

# ------------------------------------------------------------------------------------------------
# the sandbox: fixed (independent of the seed) so that replay files are portable
# kinds: d dir, f file, l symlink (target), p fifo, s unix socket
TREE = [
    ('d', b'root'), ('f', b'root/f.txt'), ('f', b'root/noext'), ('f', b'root/index.html'),
    ('d', b'root/a'), ('f', b'root/a/index.html'), ('d', b'root/a/b'), ('f', b'root/a/b/c.txt'), ('f', b'root/a/b/.hid'),
    ('f', b'root/a/.hidden'), ('f', b'root/a/x<y&\'q".txt'),
    ('d', b'root/d'), ('f', b'root/d/e.txt'), ('f', b'root/d/.dot.txt'), ('d', b'root/d/sub'), ('f', b'root/d/sub/deep.txt'),
    ('f', b'root/d/sp ace+plus.txt'), ('f', b'root/d/\xff\xfe.bin'), ('d', b'root/d/.dotdir'), ('f', b'root/d/.dotdir/in.txt'),
    ('d', b'root/.secret'), ('f', b'root/.secret/s.txt'),
    ('d', b'root/al'), ('f', b'root/al/shadow.txt'), ('d', b'root/al/sub'), ('f', b'root/al/sub/shadow2.txt'),
    ('d', b'root/alx'), ('f', b'root/alx/in.txt'),
    ('d', b'root/al.d'), ('f', b'root/al.d/in2.txt'),
    ('d', b'root/al..'), ('f', b'root/al../in3.txt'),
    ('d', b'root/v1.2'), ('f', b'root/v1.2/noext'),
    ('l', b'root/lout', b'../out'), ('l', b'root/lfile', b'../out/OUTSIDE_secret.txt'), ('l', b'root/labs', b'@B@/out'),
    ('l', b'root/lsib', b'../rootx'), ('l', b'root/lin', b'a/b'), ('l', b'root/linf', b'a/b/c.txt'), ('l', b'root/lup', b'..'),
    ('l', b'root/lali', b'../ali1'), ('l', b'root/loop', b'.'), ('l', b'root/dangling', b'nonexistent'),
    ('l', b'root/cyc1', b'cyc2'), ('l', b'root/cyc2', b'cyc1'), ('l', b'root/d/lback', b'../../root/a'),
    ('p', b'root/fifo'), ('s', b'root/sock'),
    ('d', b'root/idxdir'), ('l', b'root/idxdir/index.html', b'../../out/index.html'),
    ('d', b'root/e'), ('f', b'root/e/e.txt'), ('d', b'root/e/index.html'),
    ('d', b'rootx'), ('f', b'rootx/OUTSIDE_sibling.txt'), ('f', b'rootx/index.html'),
    ('d', b'out'), ('f', b'out/OUTSIDE_secret.txt'), ('f', b'out/index.html'), ('d', b'out/OUTSIDE_d2'), ('f', b'out/OUTSIDE_d2/x.txt'),
    ('d', b'ali1'), ('f', b'ali1/a.txt'), ('d', b'ali1/sub'), ('f', b'ali1/sub/b.txt'), ('f', b'ali1/.adot'),
    ('l', b'ali1/lback', b'../root'), ('l', b'ali1/lout', b'../out'), ('d', b'ali1/noidx'), ('f', b'ali1/noidx/n.txt'),
    ('d', b'ali2'), ('f', b'ali2/z.txt'), ('f', b'ali2/index.html'), ('d', b'ali2/sub2'), ('f', b'ali2/sub2/y.txt'),
    ('l', b'lnk_ali2', b'ali2'), ('l', b'lroot', b'root'),
    # names that are markup, URL syntax, escapes of themselves, control bytes, ill-formed UTF-8 (listing rows, hrefs, redirects)
    ('d', b'root/m'), ('f', b'root/m/100%.txt'), ('f', b'root/m/%2e%2e'), ('f', b'root/m/a%2fb'), ('f', b'root/m/nl\nx.txt'),
    ('f', b'root/m/cr\rlf\n.txt'), ('f', b"root/m/q'uote"), ('f', b'root/m/dq"uote'), ('f', b'root/m/<script>alert(1)<'),
    ('f', b'root/m/&amp;'), ('f', b'root/m/&lt;b&gt;'), ('f', b'root/m/tab\there'), ('f', b'root/m/+plus sp'), ('f', b'root/m/\xc3\x28'),
    ('f', b'root/m/\xe2\x82\xac.txt'), ('f', b'root/m/~t-_.'), ('f', b'root/m/#h?q=1'), ('f', b'root/m/\x01\x7f'),
    ('f', b"root/m/'><a href='y"), ('f', b'root/m/back\\slash'), ('f', b'root/m/.<dot>'), ('f', b'root/m/<tr><td>'),
    ('d', b"root/m/<d>'&"), ('f', b"root/m/<d>'&/in<.txt"), ('d', b'root/m/...'), ('f', b'root/m/.../x.txt'), ('l', b'root/m/l<nk', b'100%.txt'),
    ('d', b'root/m/%2f'), ('f', b'root/m/%2f/x.txt'), ('d', b'root/m/?d'), ('f', b'root/m/?d/index.html'), ('d', b'root/m/\r\nX-I: 1'),
    ('d', b'root/m/ sp'), ('l', b'root/m/.l>', b'100%.txt'), ('l', b'root/m/ld"', b'../d'),
    # symbolic-link chains: k/c00 -> c01 -> ... -> c41 -> ../f.txt (42 links; Linux and glibc follow at most 40 per resolution),
    # kd/c00 -> ... -> c41 -> ../d (to a directory), a link to a directory written with a trailing slash, a link through an
    # alias target, a dangling chain, a chain that leaves the root at its very end
    ('d', b'root/k'), ('d', b'root/kd'), ('d', b'root/ko'),
] + [('l', b'root/k/c%02d' % i, b'c%02d' % (i + 1) if i < 41 else b'../f.txt') for i in range(42)] + [
    ('l', b'root/kd/c%02d' % i, b'c%02d' % (i + 1) if i < 41 else b'../d') for i in range(42)] + [
    ('l', b'root/ko/c%02d' % i, b'c%02d' % (i + 1) if i < 5 else b'../../out/OUTSIDE_secret.txt') for i in range(6)] + [
    ('l', b'root/ldslash', b'a/b/'), ('l', b'root/lfslash', b'f.txt/'), ('l', b'root/k/dang0', b'dang1'), ('l', b'root/k/dang1', b'nowhere'),
    ('l', b'ali1/lchain', b'../root/k/c30'), ('l', b'ali1/lin2', b'sub/'), ('l', b'root/k/abs', b'@B@/root/k/c10'),
    ('l', b'root/k/updown', b'../k/../kd/c35/sub'),
    # entries that exist and are neither directories nor regular files, inside the root and inside an alias target: they must never
    # be opened for streaming.  p = FIFO nobody writes to (open() for reading would block for ever), w = FIFO fed by a writer thread
    # of this check with its own marker, s = unix socket, c = character device node (1,3 = null, 1,5 = zero), links to /dev/null and
    # /dev/zero, a directory and a link named like files, an index.html that is a FIFO / a device
    ('d', b'root/nr'), ('p', b'root/nr/fifo.txt'), ('w', b'root/nr/fed.txt'), ('s', b'root/nr/sock.html'),
    ('c', b'root/nr/cnull.txt', 1, 3), ('c', b'root/nr/czero', 1, 5), ('l', b'root/nr/lnull.txt', b'/dev/null'), ('l', b'root/nr/lzero', b'/dev/zero'),
    ('d', b'root/nr/dir.txt'), ('f', b'root/nr/dir.txt/in.txt'), ('l', b'root/nr/lfifo', b'fifo.txt'), ('l', b'root/nr/lfed.html', b'fed.txt'),
    ('f', b'root/nr/plain.txt'),
    ('d', b'root/nr/ifi'), ('p', b'root/nr/ifi/index.html'), ('d', b'root/nr/ifw'), ('w', b'root/nr/ifw/index.html'),
    ('d', b'root/nr/idev'), ('c', b'root/nr/idev/index.html', 1, 3), ('d', b'root/nr/isock'), ('s', b'root/nr/isock/index.html'),
    ('p', b'ali1/afifo'), ('w', b'ali1/afed.txt'), ('s', b'ali1/asock'), ('c', b'ali1/acnull', 1, 3), ('l', b'ali1/alnull', b'/dev/null'),
    ('l', b'ali1/alzero.txt', b'/dev/zero'), ('p', b'ali2/afifo2'), ('w', b'ali2/sub2/afed2'),
]

A0 = []
A1 = [(b'/al', b'ali1')]
A2 = [(b'/al/sub', b'lnk_ali2/.'), (b'/al/', b'ali1')]
A3 = [(b'/al', b'ali1/'), (b'/al/sub', b'ali2')]
A4 = [(b'/al', b'ali1'), (b'/sub', b'ali2')]     # the remainder of the first alias starts with the URL of the second: only the first may apply
# (docroot as configured relative to B, listing, check_symlink, index, aliases, async)
CONFIGS = [
    (b'root', True, True, b'index.html', A1, False),
    (b'root', False, True, b'index.html', A0, False),
    (b'root/../root/', True, False, b'index.html', A1, False),
    (b'root', False, False, b'index.html', A2, True),
    (b'lroot', True, True, b'index.html', A2, True),
    (b'root', False, True, b'e.txt', A3, False),
    (b'root', True, False, b'e.txt', A0, True),
    (b'root/a/..', True, True, b'index.html', A4, True),
    # 'handler': the harness mounts file_server(srv, async=true) itself - the only way to reach file_server_detail::async_file_handler
    # (cppcms::service always constructs file_server(srv): file_server.async merely mounts the synchronous code in the event loop)
    (b'root', True, True, b'index.html', A1, 'handler'),
    (b'root', False, False, b'index.html', A3, 'handler'),
]

MIME = {b'.txt': b'text/plain', b'.html': b'text/html'}

S = None   # the live sandbox (set by run)


class Sandbox:
    def __init__(self, workdir):
        self.base = os.path.realpath(workdir).encode() + b'/sbx-%d' % os.getpid()
        if os.path.exists(self.base):
            shutil.rmtree(self.base)
        os.makedirs(self.base)
        self.ids = {}        # abs path -> id
        self.fed = {}        # abs path of a FIFO with a writer -> the marker id the writer feeds
        self.writers = []
        self.stopping = False
        self.nodes = []      # (abspath, kind, extra)
        n = 0
        for ent in TREE:
            kind, rel = ent[0], ent[1]
            p = self.base + b'/' + rel
            if kind == 'd':
                os.mkdir(p)
                self.nodes.append((p, 'd', None))
            elif kind == 'f':
                n += 1
                with open(p, 'wb') as f:
                    f.write(MARK % n + b'\n')
                self.ids[p] = n
                self.nodes.append((p, 'f', n))
            elif kind == 'l':
                t = ent[2].replace(b'@B@', self.base)
                os.symlink(t, p)
                self.nodes.append((p, 'l', t))
            elif kind in ('p', 'w'):
                os.mkfifo(p)
                self.nodes.append((p, 'o', os.lstat(p).st_mode))
                if kind == 'w':
                    n += 1
                    self.fed[p] = n
            elif kind == 'c':
                try:
                    os.mknod(p, 0o666 | stat.S_IFCHR, os.makedev(ent[2], ent[3]))
                    self.nodes.append((p, 'o', os.lstat(p).st_mode))
                except OSError:
                    pass          # no privilege to create device nodes: the links to /dev/null and /dev/zero remain
            elif kind == 's':
                try:
                    dfd = os.open(os.path.dirname(p), os.O_RDONLY)
                    try:
                        s = socket.socket(socket.AF_UNIX, socket.SOCK_STREAM)
                        s.bind('/proc/self/fd/%d/%s' % (dfd, os.path.basename(p).decode()))
                        s.close()
                    finally:
                        os.close(dfd)
                    self.nodes.append((p, 'o', os.lstat(p).st_mode))
                except OSError:
                    pass
        self.idpath = {v: k for k, v in self.ids.items()}
        self.cfg = []
        for root, listing, check, index, aliases, asyn in CONFIGS:
            self.cfg.append(dict(root=self.base + b'/' + root, listing=listing, check=check, index=index,
                                 aliases=[(u, self.base + b'/' + t) for u, t in aliases], asyn=asyn))

    def write_files(self):
        # description for the model driver
        lines = []
        anc = self.base
        ancs = []
        while anc != b'/' and anc:
            anc = os.path.dirname(anc)
            if anc != b'/':
                ancs.append(anc)
        for a in reversed(ancs):
            lines.append('n %s d' % hexs(a))
        lines.append('n %s d' % hexs(self.base))
        lines.append('n %s d' % hexs(b'/dev'))
        for dv in (b'/dev/null', b'/dev/zero'):
            lines.append('n %s o %d' % (hexs(dv), os.stat(dv).st_mode))
        for p, k, x in self.nodes:
            if k == 'd':
                lines.append('n %s d' % hexs(p))
            elif k == 'f':
                lines.append('n %s f %d' % (hexs(p), x))
            elif k == 'l':
                lines.append('n %s l %s' % (hexs(p), hexs(x)))
            else:
                lines.append('n %s o %d' % (hexs(p), x))
        for i, c in enumerate(self.cfg):
            lines.append('c %d %s %d %d %s %s' % (i, hexs(c['root']), c['listing'], c['check'], hexs(c['index']),
                                                  ' '.join('%s=%s' % (hexs(u), hexs(t)) for u, t in c['aliases'])))
        self.treefile = self.base.decode() + '.tree'
        with open(self.treefile, 'w') as f:
            f.write('\n'.join(lines) + '\n')
        # configuration for the harness (paths are ASCII)
        sv = []
        for c in self.cfg:
            fsrv = {'enable': True, 'document_root': c['root'].decode(), 'listing': c['listing'], 'check_symlink': c['check'],
                    'index': c['index'].decode(), 'async': bool(c['asyn'])}
            if c['aliases']:
                fsrv['alias'] = [{'url': u.decode(), 'path': t.decode()} for u, t in c['aliases']]
            sv.append({'file_server': fsrv, 'service': {'worker_threads': 2}, 'http': {'timeout': 30}, 'c13_async_handler': c['asyn'] == 'handler'})
        self.cfgfile = self.base.decode() + '.json'
        with open(self.cfgfile, 'w') as f:
            json.dump({'services': sv}, f)

    def start_writers(self):
        """one thread per fed FIFO: open for writing (blocks until somebody opens the FIFO for reading - on a correct server nobody
        ever does), write the marker, close, again"""
        def feed(path, n):
            while not self.stopping:
                try:
                    fd = os.open(path, os.O_WRONLY)
                except OSError:
                    return
                try:
                    if not self.stopping:
                        os.write(fd, MARK % n + b'\n')
                except OSError:
                    pass
                finally:
                    os.close(fd)
                time.sleep(0.02)     # let the reader see end-of-file before the FIFO gets a writer again
        for path, n in self.fed.items():
            t = threading.Thread(target=feed, args=(path, n), daemon=True)
            t.start()
            self.writers.append((t, path))

    def stop_writers(self):
        self.stopping = True
        for t, path in self.writers:
            for _ in range(50):
                if not t.is_alive():
                    break
                try:          # release a writer parked in open(): become its reader for a moment
                    fd = os.open(path, os.O_RDONLY | os.O_NONBLOCK)
                    time.sleep(0.01)
                    os.close(fd)
                except OSError:
                    pass
                t.join(0.05)
        self.writers = []

    def cleanup(self):
        self.stop_writers()
        shutil.rmtree(self.base, ignore_errors=True)
        for p in (getattr(self, 'treefile', None), getattr(self, 'cfgfile', None)):
            if p and os.path.exists(p):
                os.unlink(p)


# ------------------------------------------------------------------------------------------------
# generators
def pct(b, rng=None, always=False):
    out = b''
    for ch in b:
        if always or (rng is not None and rng.random() < 0.4):
            h = '%%%02x' % ch
            out += (h.upper() if (rng is not None and rng.random() < 0.5) else h).encode()
        else:
            out += bytes([ch])
    return out


# raw double quote and open parenthesis make the embedded HTTP parser wait for the closing one (front-end matter, not C13)
SAFE_RAW = set(range(0x21, 0x7f)) - set(b'?%+"(')


def enc_seg(seg, rng, mode):
    """segment bytes -> raw request bytes"""
    if mode == 0:   # minimal: encode only what must be encoded
        return b''.join(bytes([c]) if c in SAFE_RAW else b'%%%02X' % c for c in seg)
    if mode == 1:   # everything encoded
        return pct(seg, rng, always=True)
    out = b''
    for c in seg:   # random mixture; space sometimes as '+'
        if c == 0x20 and rng.random() < 0.5:
            out += b'+'
        elif c in SAFE_RAW and rng.random() < 0.6:
            out += bytes([c])
        else:
            out += (b'%%%02x' if rng.random() < 0.5 else b'%%%02X') % c
    return out


CORE_SEGS = [b'a', b'b', b'c.txt', b'd', b'f.txt', b'.', b'..', b'', b'al', b'alx', b'al..', b'sub', b'lout', b'lin', b'lfile',
             b'OUTSIDE_secret.txt', b'index.html', b'.hidden', b'zz']


def all_segs():
    names = set()
    for ent in TREE:
        for comp in ent[1].split(b'/'):
            names.add(comp)
    names |= {b'.', b'..', b'', b'...', b'zz', b'al.', b'a.', b'..a', b'.a', b'roo', b'rootxx', b'AL', b'sbx', b'%', b'%2', b'%zz', b'a%2fb',
              b'\x80', b'a\xffb', b'index.htm', b'e.tx', b'nonexistent', b'%61', b'%2e%2e', b'%2e', b'd%2fe.txt', b'%2561', b'\\', b'f.txt\\', b'al\\a.txt', b'..\\', b'a\\b'}
    return sorted(names)


def gen_cases(ctx):
    rng = ctx.rng
    cases = []
    # (a) normalize_path directly: exhaustive over {a . /} up to length 8 (9841 strings), three views of the same call
    alpha = [b'a', b'.', b'/']
    for ln in range(0, 9):
        for t in itertools.product(alpha, repeat=ln):
            s = b''.join(t)
            h = hexs(s)
            cases.append('np ' + h)
            cases.append('rs ' + h)
            if ln <= 7:
                cases.append('npi ' + h)
    # exhaustive over {a . / NUL b} up to length 5
    for ln in range(1, 6):
        for t in itertools.product([b'a', b'.', b'/', b'\0', b'b'], repeat=ln):
            cases.append('np ' + hexs(b''.join(t)))
    segs = [b'a', b'b', b'.', b'..', b'', b'...', b'.a', b'a.', b'..a', b'a..', b'abc', b'\0', b'.\0', b'..\0', b'\xff', b'a b', b'%2e']
    for _ in range(ctx.scale(6000, 200000)):
        n = rng.choice([0, 1, 2, 3, 4, 5, 6, 8, 12, 20])
        s = b'/'.join(rng.choice(segs) for _ in range(n))
        if rng.random() < 0.7:
            s = b'/' + s
        if rng.random() < 0.3:
            s += b'/'
        cases.append(rng.choice(['np ', 'rs ', 'npi ']) + hexs(s))
    for _ in range(ctx.scale(300, 3000)):
        n = rng.choice([63, 64, 255, 256, 1000, 4095, 4096, 8191])
        s = bytes(rng.choice(b'a./..//ab') for _ in range(n))
        cases.append(rng.choice(['np ', 'rs ']) + hexs(s))
    # (b) requests to the live services
    ncfg = len(CONFIGS)
    asegs = all_segs()
    # exhaustive: every segment list of length <= 2 over all names, and of length 3 over the core set, plain encoding
    lists = [[]] + [[x] for x in asegs] + [[x, y] for x in asegs for y in asegs if len(x) + len(y) < 40]
    core3 = [[x, y, z] for x in CORE_SEGS for y in CORE_SEGS for z in CORE_SEGS]
    if ctx.quick():
        lists = [l for l in lists if len(l) < 2 or rng.random() < 0.15]
        core3 = [l for l in core3 if rng.random() < 0.08]
    for k in range(ncfg):
        for l in lists + core3:
            raw = b'/' + b'/'.join(enc_seg(s, rng, 0) for s in l)
            cases.append('rq %d %s' % (k, hexs(raw)))
            if l and l[-1] != b'' and rng.random() < 0.3:
                cases.append('rq %d %s' % (k, hexs(raw + b'/')))
    # mostly valid: start from an existing node (inside or outside), then decorate
    targets = []
    for ent in TREE:
        rel = ent[1].split(b'/')
        targets.append(rel)
    fillers = [[b'.'], [b''], [b'zz', b'..'], [b'a', b'..'], [b'..'], [b'lin', b'..'], [b'lout', b'..'], [b'al', b'..'], [b'..', b'root'],
               [b'..', b'out'], [b'lup'], [b'loop'], [b'd', b'lback', b'..'], [b'.secret', b'..']]
    for _ in range(ctx.scale(7000, 80000)):
        k = rng.randrange(ncfg)
        rel = list(rng.choice(targets))
        r = rng.random()
        if rel[0] == b'root':
            l = rel[1:]
        elif rel[0] == b'ali1' and r < 0.8:
            l = [b'al'] + rel[1:]
        elif rel[0] == b'ali2' and r < 0.8:
            l = ([b'al', b'sub'] if r < 0.55 else [b'sub']) + rel[1:]
        else:   # outside: try to climb or to go through a symlink
            l = rng.choice([[b'..'], [b'..', b'..'], [b'lup'], [b'lout', b'..'], [b'al', b'..', b'..'], [b'al', b'lback', b'..'], [b'%2e%2e']]) + rel
        for _ in range(rng.choice([0, 0, 1, 1, 2, 3])):
            i = rng.randrange(len(l) + 1)
            l[i:i] = rng.choice(fillers)
        if rng.random() < 0.15:
            l.append(rng.choice([b'', b'.', b'..', b'index.html', b'zz']))
        mode = rng.choice([0, 0, 1, 2, 2])
        sep = rng.choice([b'/', b'/', b'/', b'%2f', b'%2F', b'//', b'/./'])
        raw = b'/' + sep.join(enc_seg(s, rng, mode) for s in l)
        r = rng.random()
        if r < 0.08:
            raw += b'?' + rng.choice([b'', b'x=1', b'/../../out', b'%00'])
        elif r < 0.14:
            i = rng.randrange(1, len(raw) + 1)
            raw = raw[:i] + b'%00' + raw[i:]
        elif r < 0.18:
            raw += rng.choice([b'%', b'%2', b'%zz', b'%2e', b'%2e%2e', b'/%2e%2e/%2e%2e/out/OUTSIDE_secret.txt'])
        elif r < 0.22:
            raw += rng.choice([b'%5c', b'\\', b'%5C%5c', b'/%5c', b'%5c/'])      # a foreign separator must stay an ordinary byte
        cases.append('rq %d %s' % (k, hexs(raw)))
    # random segment soup
    for _ in range(ctx.scale(2500, 60000)):
        k = rng.randrange(ncfg)
        n = rng.choice([1, 2, 3, 4, 5, 6, 8, 12])
        l = [rng.choice(asegs if rng.random() < 0.5 else CORE_SEGS) for _ in range(n)]
        mode = rng.choice([0, 1, 2])
        raw = b'/' + b'/'.join(enc_seg(s, rng, mode) for s in l)
        cases.append('rq %d %s' % (k, hexs(raw)))
    # --- listing pages and names made of markup / URL syntax / control bytes / ill-formed UTF-8
    dirs, mnodes = [], []
    for ent in TREE:
        rel = ent[1].split(b'/')
        if rel[0] == b'root' and ent[0] == 'd':
            dirs.append(rel[1:])
        elif rel[0] == b'ali1' and ent[0] == 'd':
            dirs.append([b'al'] + rel[1:])
        elif rel[0] == b'ali2' and ent[0] == 'd':
            dirs.append([b'al', b'sub'] + rel[1:])
        if rel[:2] == [b'root', b'm'] and len(rel) > 2:
            mnodes.append(rel[1:])
    for k in range(ncfg):
        for d in dirs:
            for mode in (0, 1, 2):
                if ctx.quick() and mode == 2 and rng.random() < 0.5:
                    continue
                raw = b'/' + b'/'.join(enc_seg(x, rng, mode) for x in d)
                cases.append('rq %d %s' % (k, hexs(raw + (b'/' if d else b''))))
                if d and (mode == 0 or rng.random() < 0.4):
                    cases.append('rq %d %s' % (k, hexs(raw)))
        for nd in mnodes:
            for mode in (0, 1, 2):
                cases.append('rq %d %s' % (k, hexs(b'/' + b'/'.join(enc_seg(x, rng, mode) for x in nd))))
    # --- the directory redirect: decoded paths that differ from their normal form, separators and line ends inside them
    inj = [b'\r\nSet-Cookie: x=1', b'\r\n\r\n<html>', b'\n', b'\r', b'"\'<b>', b'?q', b'#f', b'%', b'%2e%2e', b'+', b' ', b'\x80\xff', b'\\', b'zz']
    for _ in range(ctx.scale(700, 8000)):
        k = rng.randrange(ncfg)
        d = list(rng.choice(dirs))
        r = rng.random()
        if r < 0.3:      # <dir>/<junk>/..
            l = d + [rng.choice(inj), b'..']
            raw = b'/' + b'/'.join(enc_seg(x, rng, rng.choice([0, 1, 2])) for x in l)
        elif r < 0.55:   # network-path shapes: //host/.., /%2fhost/.., /\host/..
            host = rng.choice([b'evil.example', b'host', b'a', b'[::1]', b'@h'])
            pre = rng.choice([b'//', b'/%2f', b'/%2F', b'/%5c', b'/\\', b'///', b'/.//', b'/%2f%2f'])
            tail = b''.join(b'/' + enc_seg(x, rng, 0) for x in d)
            raw = pre + host + rng.choice([b'/..', b'/%2e%2e', b'%2f..', b'%2f%2e%2e']) + tail
        elif r < 0.8:    # un-normalised but harmless
            l = []
            for x in d:
                l += rng.choice([[x], [x], [b'.', x], [x, b'zz', b'..'], [b'', x]])
            raw = b'/' + b'/'.join(enc_seg(x, rng, rng.choice([0, 2])) for x in l)
            raw += rng.choice([b'', b'', b'/.', b'/zz/..', b'//', b'/./'])
        else:            # the junk as the last component of an existing directory name? (m holds such directories)
            l = [b'm', rng.choice([b'?d', b'%2f', b'\r\nX-I: 1', b' sp', b"<d>'&", b'ld"'])]
            raw = b'/' + b'/'.join(enc_seg(x, rng, rng.choice([0, 1, 2])) for x in l)
        cases.append('rq %d %s' % (k, hexs(raw)))
    # --- percent-decoding x normalisation order: exhaustive token strings (the decoded dot / slash / NUL / percent sign, their
    #     double encodings and the bare hex digits) between a real directory prefix and a real file name
    toks = [b'/', b'.', b'%2e', b'%2f', b'%25', b'%00', b'a', b'2e', b'2f', b'%252e', b'%5c']
    for k in (0, 2):                                   # check_symlink on / off (both with the alias /al)
        for pre in (b'/', b'/a/b/'):
            for ln in range(1, 5):
                for t in itertools.product(toks, repeat=ln):
                    if ln == 4 and ctx.quick() and rng.random() > 0.04:
                        continue
                    if ln == 3 and ctx.quick() and rng.random() > 0.5:
                        continue
                    mid = b''.join(t)
                    cases.append('rq %d %s' % (k, hexs(pre + mid + rng.choice([b'', b'/f.txt', b'/a/index.html', b'/out/OUTSIDE_secret.txt']))))
    # --- symbolic-link chains around the MAXSYMLINKS boundary (40 followed, the 41st is ELOOP), links inside alias targets
    chain = []
    for i in (0, 1, 2, 3, 20, 40, 41):
        chain += [[b'k', b'c%02d' % i], [b'kd', b'c%02d' % i], [b'kd', b'c%02d' % i, b'e.txt'], [b'kd', b'c%02d' % i, b'sub', b'deep.txt'],
                  [b'kd', b'c%02d' % i, b'']]
    chain += [[b'ko', b'c%02d' % i] for i in range(6)]
    chain += [[b'ldslash'], [b'ldslash', b'c.txt'], [b'lfslash'], [b'k', b'dang0'], [b'al', b'lchain'], [b'al', b'lin2'], [b'al', b'lin2', b'b.txt'],
              [b'k', b'abs'], [b'k', b'updown'], [b'k', b'updown', b'deep.txt'], [b'loop'] * 39 + [b'linf'], [b'loop'] * 40 + [b'linf'],
              [b'loop'] * 40 + [b'f.txt'], [b'loop'] * 41 + [b'f.txt'], [b'lin', b'..', b'..', b'lin', b'c.txt']]
    for k in range(ncfg):
        for l in chain:
            cases.append('rq %d %s' % (k, hexs(b'/' + b'/'.join(enc_seg(x, rng, 0) for x in l))))
    # --- entries that are neither directories nor regular files (FIFO with / without writer, socket, device node, links to /dev/null
    #     and /dev/zero, FIFO / socket / device named index.html), inside the root and inside alias targets: named directly, through
    #     dot-dot, percent-encoded, with a trailing slash, in every configuration (sync and async)
    nonreg = []
    for ent in TREE:
        rel = ent[1].split(b'/')
        special = ent[0] in ('p', 'w', 's', 'c') or (ent[0] == 'l' and (ent[2].startswith(b'/dev/') or ent[2] in (b'fifo.txt', b'fed.txt')))
        if not special:
            continue
        if rel[0] == b'root':
            urls = [rel[1:]]
        elif rel[0] == b'ali1':
            urls = [[b'al'] + rel[1:]]
        else:
            urls = [[b'al', b'sub'] + rel[1:], [b'sub'] + rel[1:]]
        for u in urls:
            nonreg.append((u, ent[0] == 'p' or (ent[0] == 'l' and ent[2] == b'fifo.txt')))
            if u[-1] == b'index.html':
                nonreg.append((u[:-1] + [b''], False))
                nonreg.append((u[:-1], False))
    for k in range(ncfg):
        for u, may_park in nonreg:
            variants = [(u, 0), (u[:-1] + [b'zz', b'..', u[-1]], 2)]
            if not (may_park and ctx.quick()):        # a regression that parks the server costs ~0.5 s per such request
                variants += [(u, 1), ([b'a', b'..'] + u, 0), (u + [b''], 0), (u + [b'.'], 2), (u[:-1] + [b'.', u[-1]], 1)]
            for l, mode in variants:
                cases.append('rq %d %s' % (k, hexs(b'/' + b'/'.join(enc_seg(x, rng, mode) for x in l))))
    # long targets (normalisation must bring them back to something short)
    for _ in range(ctx.scale(40, 600)):
        k = rng.randrange(ncfg)
        unit = rng.choice([b'/.', b'//', b'/a/..', b'/%2e', b'/zz/%2e%2e', b'/d/sub/../..'])
        reps = rng.choice([10, 100, 400, 1000] if ctx.quick() else [10, 100, 400, 1000, 2500])   # up to ~30 KB; the HTTP header limit is below 64 KB
        tail = rng.choice([b'/f.txt', b'/d/e.txt', b'/../out/OUTSIDE_secret.txt', b'/al/a.txt', b'/', b'/d'])
        cases.append('rq %d %s' % (k, hexs(unit * reps + tail)))
    return cases


# ------------------------------------------------------------------------------------------------
# reply parsing (shared by oracle and canonicalisation)
# the page grammar, literal by literal from file_server::list_dir; data holes: TITLE, HREF, TEXT, DATE, SIZE, VERSION
PG_HEAD = (b'<!DOCTYPE HTML PUBLIC "-//W3C//DTD HTML 4.01 Transitional//EN"\n     "http://www.w3.org/TR/html4/loose.dtd">\n'
           b'<html><head><title>Directory Listing</title></head>\n<body><h1>Index of ')
PG_MID = (b"</h1>\n<table>\n<thead><tr><td width='60%'>File</td><td width='20%' >Date</td><td width='5%'>&nbsp;</td>"
          b"<td width='15%'>Size</td></tr></thead>\n<tbody>\n")
PG_PARENT = b"<tr><td><code><a href='../' >..</a></code></td><td>&nbsp;</td><td>&nbsp;</td><td>&nbsp;</td></tr>\n"
PG_ROW0 = b"<tr><td><code><a href='"
PG_ROW1 = b"'>"
PG_ROW2 = b"</a></code></td><td>"
PG_ROW3 = b"</td><td>&nbsp;</td><td>"
PG_DIRSZ = b" <strong>-</strong> "
PG_ROW4 = b"</td></tr>\n"
PG_FOOT0 = b"</tbody>\n</table>\n<p>CppCMS-Embedded/"
PG_FOOT1 = b"</p>\n</body>\n"
ENTITIES = {b'&lt;': b'<', b'&gt;': b'>', b'&amp;': b'&', b'&quot;': b'"', b'&#39;': b"'"}
HREF_OK = set(b'abcdefghijklmnopqrstuvwxyzABCDEFGHIJKLMNOPQRSTUVWXYZ0123456789-_.~')
HEXD = set(b'0123456789abcdefABCDEF')


def read_text(b, i):
    """character data starting at b[i] up to the next '<': -> (decoded bytes, end index) or None when a raw > " ' occurs or an
    ampersand does not start one of the five entities util::escape writes (independent of the model: plain scanner)"""
    out = bytearray()
    n = len(b)
    while i < n and b[i] != 0x3c:
        c = b[i]
        if c in (0x3e, 0x22, 0x27):
            return None
        if c == 0x26:
            for e, v in ENTITIES.items():
                if b.startswith(e, i):
                    out += v
                    i += len(e)
                    break
            else:
                return None
            continue
        out.append(c)
        i += 1
    return bytes(out), i


def read_href(b, i):
    """attribute value starting at b[i] up to the closing single quote: only unreserved bytes, slash and well-formed %XX"""
    out = bytearray()
    n = len(b)
    while i < n and b[i] != 0x27:
        c = b[i]
        if c == 0x25:
            if i + 2 < n and b[i + 1] in HEXD and b[i + 2] in HEXD:
                out.append(int(b[i + 1:i + 3], 16))
                i += 3
                continue
            return None
        if c not in HREF_OK and c != 0x2f:
            return None
        out.append(c)
        i += 1
    return bytes(out), i


def parse_page(body):
    """strict recursive-descent reading of a listing page.
    -> None (not a listing page at all) | ('bad', where) | ('ok', title_raw, title, parent, rows[(href_raw, href, text_raw, text, isdir)], version)"""
    if not body.startswith(PG_HEAD):
        return None
    i = len(PG_HEAD)
    t = read_text(body, i)
    if t is None:
        return ('bad', 'title')
    title, j = t
    title_raw = body[i:j]
    i = j
    if not body.startswith(PG_MID, i):
        return ('bad', 'after-title')
    i += len(PG_MID)
    parent = False
    if body.startswith(PG_PARENT, i):
        parent = True
        i += len(PG_PARENT)
    rows = []
    while body.startswith(PG_ROW0, i):
        i += len(PG_ROW0)
        h = read_href(body, i)
        if h is None:
            return ('bad', 'href of row %d' % len(rows))
        href, j = h
        href_raw = body[i:j]
        i = j
        if not body.startswith(PG_ROW1, i):
            return ('bad', 'href end of row %d' % len(rows))
        i += len(PG_ROW1)
        t = read_text(body, i)
        if t is None:
            return ('bad', 'text of row %d' % len(rows))
        text, j = t
        text_raw = body[i:j]
        i = j
        if not body.startswith(PG_ROW2, i):
            return ('bad', 'after text of row %d' % len(rows))
        i += len(PG_ROW2)
        m = re.compile(rb'\d{4}-\d\d-\d\d \d\d:\d\d:\d\d').match(body, i)
        if not m:
            return ('bad', 'date of row %d' % len(rows))
        i = m.end()
        if not body.startswith(PG_ROW3, i):
            return ('bad', 'after date of row %d' % len(rows))
        i += len(PG_ROW3)
        if body.startswith(PG_DIRSZ, i):
            isdir = True
            i += len(PG_DIRSZ)
        else:
            m = re.compile(rb'[0-9][0-9,. ]*').match(body, i)
            if not m:
                return ('bad', 'size of row %d' % len(rows))
            isdir = False
            i = m.end()
        if not body.startswith(PG_ROW4, i):
            return ('bad', 'end of row %d' % len(rows))
        i += len(PG_ROW4)
        rows.append((href_raw, href, text_raw, text, isdir))
    if not body.startswith(PG_FOOT0, i):
        return ('bad', 'after row %d' % len(rows))
    i += len(PG_FOOT0)
    j = body.find(b'<', i)
    if j < 0 or body[j:] != PG_FOOT1 or not re.fullmatch(rb'[0-9A-Za-z.\-]+', body[i:j]):
        return ('bad', 'footer')
    return ('ok', title_raw, title, parent, rows, body[i:j])


def page_shape(body):
    """the page with the data that the model does not compute (date, size, version) replaced by fixed tokens and the rows put
    in byte order (readdir order is not specified) -- used on the implementation's page and on the model's page alike"""
    i = body.find(PG_MID)
    if i < 0:
        return body
    i += len(PG_MID)
    j = body.rfind(PG_FOOT0)
    if j < i:
        return body
    mid = body[i:j]
    par = b''
    if mid.startswith(PG_PARENT):
        par = PG_PARENT
        mid = mid[len(PG_PARENT):]
    parts = mid.split(PG_ROW4)
    if parts[-1] != b'':
        return body
    rows = []
    for r in parts[:-1]:
        r = re.sub(rb'</a></code></td><td>\d{4}-\d\d-\d\d \d\d:\d\d:\d\d</td><td>&nbsp;</td><td>(?: <strong>-</strong> |[0-9][0-9,. ]*)$',
                   lambda m: b'</a></code></td><td>D</td><td>&nbsp;</td><td>' + (PG_DIRSZ if b'strong' in m.group(0) else b'N'), r)
        # a socket has S_IFDIR and S_IFREG bits: shown as name/ with a size (harmless quirk); the model page keys the cell on the slash
        r = re.sub(rb'/</a></code></td><td>D</td><td>&nbsp;</td><td>N$', b'/</a></code></td><td>D</td><td>&nbsp;</td><td>' + PG_DIRSZ, r)
        rows.append(r + PG_ROW4)
    foot = re.sub(rb'CppCMS-Embedded/[0-9A-Za-z.\-]+', b'CppCMS-Embedded/V', body[j:])
    return body[:i] + par + b''.join(sorted(rows)) + foot


def raw_location(b):
    """the bytes the server put after 'Location: ' -- up to the header the HTTP back end always writes next, so that a value that
    itself contains CR LF is seen whole"""
    i = b.find(b'\r\nLocation: ')
    if i < 0:
        return None
    i += len(b'\r\nLocation: ')
    j = b.find(b'\r\nX-Powered-By: CppCMS/', i)
    if j < 0:
        j = b.find(b'\r\n', i)
    return b[i:j] if j >= 0 else b[i:]


def reply_bytes(out):
    o = out.split()
    if len(o) != 2 or o[0] != 'rq':
        return None
    h = o[1][:-2] if o[1].endswith('!T') else o[1]
    try:
        return unhex(h)
    except ValueError:
        return None


def parse_reply(out):
    """-> dict(status=int, headers={lower: value}, body=bytes, timeout=bool, raw=bytes) or None"""
    o = out.split()
    if len(o) == 3 and o[0] == 'rq' and o[1] == 'HANG':
        return dict(status=0, headers={}, body=b'', timeout=True, hang=o[2], bounded=False, raw=b'', location=None)
    if len(o) != 2 or o[0] != 'rq':
        return None
    h = o[1]
    to = False
    bounded = h.endswith('!B')
    if bounded:
        h = h[:-2]
    try:
        b = unhex(h)
    except ValueError:
        return None
    m = re.match(rb'HTTP/1\.[01] (\d{3})', b)
    st = int(m.group(1)) if m else 0
    loc = raw_location(b) if st == 302 else None
    if loc is not None:
        # the header block ends after the headers the back end appends to the (possibly multi-line) Location value
        k = b.find(b'\r\nX-Powered-By: CppCMS/')
        he = b.find(b'\r\n\r\n', k if k >= 0 else 0)
    else:
        he = b.find(b'\r\n\r\n')
    if he < 0:
        return dict(status=0, headers={}, body=b, timeout=to, hang=None, bounded=bounded, raw=b, location=loc)
    head = b[:he].split(b'\r\n')
    hd = {}
    for l in head[1:]:
        n, _, v = l.partition(b':')
        hd[n.strip().lower()] = v.strip()
    return dict(status=st, headers=hd, body=b[he + 4:], timeout=to, hang=None, bounded=bounded, raw=b, location=loc)


def canon_case(case, out):
    """implementation answer -> the model driver's vocabulary"""
    c = case.split()
    if c[0] != 'rq':
        return out
    r = parse_reply(out)
    if r is None:
        return out
    if r['timeout']:
        return 'rq hang ' + str(r['hang'])
    if r['bounded']:
        return 'rq unbounded-reply status-%d' % r['status']
    st = r['status']
    if st == 404:
        return 'rq 404'
    if st == 302:
        return 'rq 302 ' + hexs(r['location'] if r['location'] is not None else b'')
    if st == 200:
        if r['body'].startswith(PG_HEAD):
            return 'rq list ' + hexs(page_shape(r['body']))
        m = MARK_RE.fullmatch(r['body'].rstrip(b'\n'))
        if m:
            return 'rq file %s %s' % (m.group(1).decode(), hexs(r['headers'].get(b'content-type', b'')))
        return 'rq 200-unrecognised ' + hexs(r['body'][:64])
    return 'rq status-%d' % st


def canon_model(line):
    o = line.split()
    if len(o) == 4 and o[0] == 'rq' and o[1] == 'file':
        ext = unhex(o[3])
        return 'rq file %s %s' % (o[2], hexs(MIME.get(ext, b'application/octet-stream')))
    if len(o) == 3 and o[0] == 'rq' and o[1] == 'list':
        return 'rq list ' + hexs(page_shape(unhex(o[2])))
    return line


# ------------------------------------------------------------------------------------------------
# the property, evaluated on the implementation's reply with an independent reference resolution
def py_urldecode(b):
    out = bytearray()
    i = 0
    while i < len(b):
        c = b[i]
        if c == 0x2b:
            out.append(0x20)
        elif c == 0x25 and len(b) - i >= 3 and re.match(rb'[0-9a-fA-F]{2}', b[i + 1:i + 3]):
            out.append(int(b[i + 1:i + 3], 16))
            i += 2
        elif c == 0x25:
            pass    # malformed escape: what util::urldecode does with it is C15's business; the oracle does not depend on it
        else:
            out.append(c)
        i += 1
    return bytes(out)


UNRESERVED = set(b'abcdefghijklmnopqrstuvwxyzABCDEFGHIJKLMNOPQRSTUVWXYZ0123456789-_.~')


def py_urlencode(b):
    return b''.join(bytes([c]) if c in UNRESERVED else b'%%%02x' % c for c in b)


def ref_resolve(path):
    st = []
    for comp in path.split(b'/'):
        if comp in (b'', b'.'):
            continue
        if comp == b'..':
            if st:
                st.pop()
        else:
            st.append(comp)
    return st


def dirlike(p):
    """what file_server::main takes for a directory: st_mode & S_IFDIR (true for directories, and - mode bit quirk, harmless: the
    listing then fails with 404 - for sockets and block devices)"""
    try:
        return (os.stat(p).st_mode & 0o040000) != 0
    except OSError:
        return False


def node_kind(p):
    """kind of the object a path leads to (links followed, as stat does)"""
    try:
        m = os.stat(p).st_mode
    except OSError:
        return 'missing'
    for test, name in ((stat.S_ISREG, 'regular file'), (stat.S_ISDIR, 'directory'), (stat.S_ISFIFO, 'FIFO'), (stat.S_ISSOCK, 'unix socket'),
                       (stat.S_ISCHR, 'character device'), (stat.S_ISBLK, 'block device')):
        if test(m):
            return name
    return 'other'


def inside(real, root):
    return real == root or real.startswith(root.rstrip(b'/') + b'/')


def reference(cfg, raw):
    """what the request denotes: dict(root=canonical root in force, lex=path below it (components), full=path on disk,
    malformed=bool) -- textbook resolution, alias on whole components"""
    p = raw.split(b'?')[0]
    malformed = re.search(rb'%(?![0-9a-fA-F]{2})', p) is not None
    p = py_urldecode(p).split(b'\0')[0]
    comps = ref_resolve(p)
    root = os.path.realpath(cfg['root'])
    for url, target in cfg['aliases']:
        u = [x for x in url.split(b'/') if x]
        if comps[:len(u)] == u:
            root = os.path.realpath(target)
            comps = comps[len(u):]
            break
    full = root + b''.join(b'/' + c for c in comps)
    return dict(root=root, comps=comps, full=full, malformed=malformed, decoded=p)


def oracle_np(case, out):
    c, o = case.split(), out.split()
    if len(o) != 2 or o[0] != c[0]:
        return ('bad-output-np', 'unexpected harness answer ' + out[:200])
    s, r = unhex(c[1]), unhex(o[1])
    if not r.startswith(b'/'):
        return ('normalize-not-rooted', 'normalize_path result does not start with a slash')
    comps = r[1:].split(b'/') if r != b'/' else []
    if any(x in (b'', b'.', b'..') for x in comps):
        return ('normalize-leaves-dot-component', 'normalize_path result has an empty, dot or dot-dot component')
    want = b'/' + b'/'.join(ref_resolve(s))
    if r != want:
        return ('normalize-wrong-resolution', 'normalize_path result differs from the textbook resolution ' + repr(want))
    return None


def oracle(case, out):
    c = case.split()
    if out.startswith('<crash'):
        return ('crash-' + c[0], 'harness died on this input: ' + out)
    if c[0] in ('np', 'npi', 'rs'):
        return oracle_np(case, out)
    if c[0] != 'rq' or S is None:
        return ('bad-case', 'not a C13 case: ' + case[:100])
    k = int(c[1])
    cfg = S.cfg[k]
    raw = unhex(c[2])
    r = parse_reply(out)
    if r is None:
        return ('bad-output-rq', 'unexpected harness answer ' + out[:200])
    ref = reference(cfg, raw)
    st = r['status']
    body = r['body']
    full, root = ref['full'], ref['root']
    real = os.path.realpath(full)
    # what may legitimately be served for this request: the denoted file, or the index file of the denoted directory
    allowed = set()
    cand = [full]
    if os.path.isdir(full):
        cand.append(full.rstrip(b'/') + b'/' + cfg['index'])
    # "the contents of a REGULAR file": an existing entry that is neither a directory nor a regular file (FIFO, socket, device -
    # directly or through symbolic links) must never be opened, let alone streamed
    nonreg = [(p_, node_kind(p_)) for p_ in cand if node_kind(p_) not in ('regular file', 'directory', 'missing')]
    if r['timeout']:
        if nonreg:
            return ('opens-non-regular-file', 'the request names %r, a %s: the server never answered (HANG %s) - a worker thread or the event '
                    'loop is parked, e.g. inside open() of a FIFO without a writer' % (nonreg[0][0], nonreg[0][1], r['hang']))
        return ('request-hangs', 'the service never answered this request (HANG %s)' % r['hang'])
    if r['bounded']:
        if nonreg:
            return ('streams-non-regular-file', 'the request names %r, a %s: the server streams from it without end (reply cut after 256 KiB)' % nonreg[0])
        return ('unbounded-reply', 'reply longer than 256 KiB: nothing in the sandbox is that long')
    for p in cand:
        rp = os.path.realpath(p)
        if os.path.isfile(p) and rp in S.ids and (not cfg['check'] or inside(rp, root)):
            allowed.add(S.ids[rp])
    marks = set(int(x) for x in MARK_RE.findall(body)) | set(int(x) for x in MARK_RE.findall(b' '.join(r['headers'].values())))
    fed = set(S.fed.values()) & marks
    if fed:
        pth = [k for k, v in S.fed.items() if v in fed][0]
        return ('streams-non-regular-file', 'the reply carries the marker that only the writer of the FIFO %r produces: the server opened a FIFO and streamed from it' % pth)
    bad = marks - allowed
    if bad and not ref['malformed']:
        pth = S.idpath[min(bad)] if min(bad) in S.idpath else b'?'
        if cfg['check'] and not inside(pth, root):
            return ('serves-file-outside-root', 'reply carries the marker of %r which is outside the root in force %r' % (pth, root))
        return ('serves-wrong-file', 'reply carries the marker of %r; the request denotes %r' % (pth, full))
    if cfg['check'] and b'OUTSIDE' in body and not inside(real, root):
        return ('leaks-outside-names', 'reply shows names from outside the root in force')
    if st not in (200, 302, 404):
        return ('unexpected-status', 'status %d' % st)
    if st == 200:
        pl = parse_page(body)
        if pl is not None:
            if not cfg['listing']:
                return ('listing-when-disabled', 'a directory listing was produced although file_server.listing is off')
            if pl[0] == 'bad':
                where = pl[1]
                if where.startswith('href'):
                    return ('listing-href-unencoded', 'an href attribute value of the listing carries a byte that is not unreserved / slash / %XX (' + where + '): a file name reaches the page raw')
                if where.startswith('text') or where == 'title':
                    return ('listing-unescaped', 'character data of the listing carries a raw < > quote or a stray ampersand (' + where + '): a name reaches the page unescaped')
                return ('listing-malformed', 'listing page does not follow the page grammar of list_dir at: ' + where)
            _, title_raw, title, parent, rows, _ver = pl
            if not os.path.isdir(full) or (cfg['check'] and not inside(real, root)):
                return ('lists-wrong-directory', 'listing for a request that does not denote a directory inside the root in force')
            if not ref['malformed'] and title != ref['decoded']:
                return ('listing-wrong-title', 'the title %r is not the (escaped) request path %r' % (title, ref['decoded']))
            names = set()
            # the server stats <path it opened>/<name>: with check_symlink off that is the lexical path (its links count towards
            # the 40-links-per-resolution limit of the kernel), with check_symlink on the real path
            lp = real if cfg['check'] else full.rstrip(b'/')
            for href_raw, href, text_raw, text, isdir in rows:
                if href != text:
                    return ('listing-href-text-differ', 'href %r and text %r of a row name different entries' % (href_raw, text_raw))
                nm = text[:-1] if text.endswith(b'/') else text
                if nm.startswith(b'.'):
                    return ('listing-shows-dot-file', 'listing shows %r' % nm)
                if b'/' in nm or nm == b'':
                    return ('listing-wrong-entries', 'row %r is not an entry name' % text_raw)
                obj = lp + b'/' + nm
                if (os.path.isdir(obj) and not (isdir and text.endswith(b'/'))) or (os.path.isfile(obj) and (isdir or text.endswith(b'/'))):
                    return ('listing-wrong-kind', 'row %r: directory rows and only they end with a slash and have no size' % text_raw)
                names.add(nm)
            if len(names) != len(rows):
                return ('listing-wrong-entries', 'an entry is listed twice')
            want = set()
            for nm in os.listdir(real):
                if nm.startswith(b'.'):
                    continue
                if os.path.isdir(lp + b'/' + nm) or os.path.isfile(lp + b'/' + nm):
                    want.add(nm)
            # sockets show up as directories (mode bit quirk, harmless): tolerate
            extra = set(n for n in names - want if not os.path.exists(lp + b'/' + n) or os.path.isdir(lp + b'/' + n) or os.path.isfile(lp + b'/' + n))
            if extra or (want - names):
                return ('listing-wrong-entries', 'listing rows %r, directory has %r' % (sorted(names), sorted(want)))
            if parent != (ref['decoded'] not in (b'/', b'')) and not ref['malformed']:
                return ('listing-parent-link', 'the parent row is present exactly when the request path is not the site root')
        elif nonreg and not ref['malformed'] and not any(node_kind(p_) == 'regular file' for p_ in cand):
            return ('streams-non-regular-file', '200 reply with a body of %d bytes for %r, a %s: only S_IFREG files may be streamed' % (len(body), nonreg[0][0], nonreg[0][1]))
        elif not marks and not ref['malformed']:
            return ('serves-unknown-content', '200 reply that is neither a listing nor a marker file')
        elif not ref['malformed'] and len(marks) == 1:
            # Content-Type by the extension of the file name that was opened (the link name when check_symlink is off, the real name
            # when it is on); the table of the sandbox: .txt, .html, everything else application/octet-stream
            opened = full.rstrip(b'/') if os.path.isfile(full) else full.rstrip(b'/') + b'/' + cfg['index']
            if cfg['check']:
                opened = os.path.realpath(opened)
            base = opened.rsplit(b'/', 1)[-1]
            ext = base[base.rfind(b'.'):] if b'.' in base else b''
            want = MIME.get(ext, b'application/octet-stream')
            got = r['headers'].get(b'content-type', b'')
            if got != want:
                return ('wrong-content-type', 'file %r served as %r, its extension %r selects %r' % (opened, got, ext, want))
    if st == 302 and not ref['malformed']:
        loc = r['location']
        if loc is None:
            return ('redirect-without-location', '302 reply without a Location header')
        if not dirlike(full) or (cfg['check'] and not inside(real, root)):
            return ('redirect-for-non-directory', 'redirect for a request that does not denote a directory inside the root in force')
        ip = full.rstrip(b'/') + b'/' + cfg['index']
        # (a socket named like the index file passes the S_IFREG bit test - 0140000 - and is then refused by open(): harmless quirk)
        have_index = (os.path.isfile(ip) or node_kind(ip) == 'unix socket') and (not cfg['check'] or inside(os.path.realpath(ip), root))
        if not (have_index or cfg['listing']):
            return ('redirect-unexpected', 'redirect although the directory has no index file and listing is off')
        if ref['decoded'].endswith(b'/'):
            return ('redirect-unexpected', 'redirect although the request path already ends with a slash')
        # what the Location says (the property names "a redirect" as one of the four replies): one well-formed header line that
        # keeps the client on this site and leads it to the same directory - no tolerance (the echo of the decoded request path
        # was repaired by a6ff7cd; each of the three old failure classes is a violation again)
        if re.search(rb'[\x00-\x1f\x7f]', loc):
            return ('redirect-splits-response', 'the Location value contains CR/LF or another control byte: what follows is read by the '
                    'client as further header lines / body chosen by the requester (%r)' % loc[:120])
        if not loc.startswith(b'/') or loc.startswith(b'//') or loc.startswith(b'/\\'):
            return ('redirect-off-site', 'the Location value %r is not a path of this site (network-path reference or relative): the client leaves the site' % loc[:120])
        # independent expectation: textbook resolution of the decoded path, every component percent-encoded (RFC 3986 unreserved
        # bytes stay), a slash after each component
        want = b'/' + b''.join(py_urlencode(x) + b'/' for x in ref_resolve(ref['decoded']))
        back = reference(cfg, loc)
        if loc != want or back['full'] != full or back['root'] != root:
            return ('redirect-location-not-encoded', 'the Location value %r is not the percent-encoded normal form %r of the request path '
                    '(followed by a client it must denote the directory %r)' % (loc[:160], want[:160], full))
    if st == 404 and allowed and not ref['malformed'] and os.path.isfile(full):
        return ('misses-existing-file', 'the request denotes the servable file %r but the reply is 404' % full)
    return None


def nontrivial(case, out):
    c = case.split()
    s = unhex(c[-1])
    if c[0] in ('np', 'npi', 'rs'):
        return (b'/.' in s or b'//' in s or b'..' in s) and len(s) > 2
    return not out.startswith('rq 404')


def classify(case, out):
    c = case.split()
    if c[0] != 'rq':
        n = 0 if c[-1] == '-' else len(c[-1]) // 2
        return c[0] + (':len<=8' if n <= 8 else ':len<=64' if n <= 64 else ':long')
    o = out.split()
    k = int(c[1])
    cf = CONFIGS[k]
    return 'rq:%s:%s:%s' % ('chk' if cf[2] else 'nochk', 'list' if cf[1] else 'nolist', o[1] if len(o) > 1 else '?')


def run(ctx):
    global S
    errs = vlib.gen_coq(GEN)
    for n, e in errs:
        ctx.broke('translator cxx2v failed on %s (tie to source broken)' % n, e)
    tie = main_text_tie()
    if tie:
        ctx.broke('statement tie: file_server::main / file_mode no longer have the text the model was written from', tie)
    res = vlib.coq_props('C13')
    ctx.proof(res)
    ctx.coverage['trusted_base'] = [
        'Coq 8.16.1 kernel, vm_compute',
        'tools/cxx2v.py + clang JSON AST (is_directory_separator regenerated from src/internal_file_server.cpp)',
        'extraction: ExtrOcamlBasic only, OCaml 4.13.1',
        'hand model of normalize_path / is_file_prefix / check_in_document_root / main / list_dir and of the http_api.cpp path pipeline (coq/C13/Defs.v), tied by correspondence',
        'POSIX name-space model fs_realpath/fs_mode/fs_dir_entries in coq/C13/Defs.v incl. the 40-link limit (model driver, and the subject of realpath_model_idempotent / model_served_file_under_real_root; the containment theorems quantify over the OS functions)',
        'coq/C13/PageDefs.v: the string literals of list_dir copied as byte lists (tied by whole-page correspondence); date/size/version are parameters',
        'rigid statement tie of file_server::main / file_mode (checks/C13.py: main_text_tie); S_IF* values regenerated from sys/stat.h by cxx2v',
        'harness/C13_fileserver.cpp (dispatcher + one service process per configuration, /proc-based open() watchdog), ocaml/C13_driver.ml, checks/C13.py (sandbox builder, generators, reply parser, reference resolution using os.path.realpath)']
    ctx.assumptions = [
        'realpath contract (hypothesis of contained_real): a successful canonicalize_file_name/realpath returns a slash-rooted path without empty, dot, dot-dot components that names the same object with every symbolic link resolved',
        'PATH_INFO reaches file_server::main as a C string (no NUL): true for the http, scgi and fastcgi front ends; theorems about main take nonul file_name as a premise, path_info_nonul discharges it for the HTTP pipeline',
        'document root and alias targets are outputs of canonical() (constructor), alias URLs passed the constructor checks',
        'no concurrent modification of the served tree between realpath/stat and open (TOCTOU out of scope)',
        'OS facts behind only-regular-files-are-streamed: stat follows symbolic links (never reports S_IFLNK) and open() refuses a unix socket (ENXIO); both exercised by the harness',
        'listing page theorem: directory entry names are byte strings (< 256); the formatted date, size and package version carry no < > quote byte',
        'model_served_file_under_real_root: roots in force are outputs of the model realpath (what the constructor stores)']
    exe, err = vlib.build_harness('C13_fileserver', ['C13_fileserver.cpp'])
    if not exe:
        ctx.broke('harness build failed', err)
        return
    mexe, err = vlib.build_model('C13', 'C13_driver.ml', 'c13m')
    if not mexe:
        ctx.broke('model extraction/build failed', err)
    S = Sandbox(ctx.workdir)
    try:
        S.write_files()
        S.start_writers()
        if ctx.replay_cases is not None:
            cases = ctx.replay_cases
        else:
            cases = vlib.corpus_cases('C13') + gen_cases(ctx)
        ctx.coverage['rule'] = (
            'cases: np/npi/rs <hex> = file_server::normalize_path called directly (compared with the functional model, the buffer/iterator '
            'model and the textbook resolution); rq <k> <hex> = raw request target sent as GET over loopback HTTP to live service k '
            '(10 configurations: check_symlink x listing x 0..2 aliases in 5 arrangements x synchronous / mounted asynchronously / async_file_handler) over the sandbox tree. Exhaustive: all strings of '
            'length <= 8 over {a . /} and length <= 5 over {a . / NUL b} through normalize_path; thorough tier: all segment lists of length '
            '<= 2 over every name of the sandbox and length 3 over a 19-name core set, for each configuration (quick tier: a seeded 15 % / '
            '8 % of them). Random (seeded): decorated paths to every node inside and outside, segment soup, percent-encoded separators '
            'and dots, %00 truncation, query strings, malformed escapes, non-UTF-8 bytes, long targets. Listing pages are compared as whole '
            'pages (date, size, version replaced by tokens, rows sorted) and read by a strict page-grammar parser in the oracle; a directory of '
            'names made of markup, entities, URL syntax, control bytes, line ends and ill-formed UTF-8 is listed and every node of it requested '
            'in 3 encodings per configuration; redirect probes (CR LF, quotes, ?, #, %, +, //host/.., /%2fhost/.., /\\host/..); all token '
            'strings of length <= 2 (thorough: <= 4) over {/ . %2e %2f %25 %00 a 2e 2f %252e %5c} between real prefixes and tails, check_symlink '
            'on and off; symlink chains of 40/41/42 links, links with trailing slash, dangling chains, links through alias targets; FIFOs with and '
            'without a writer, sockets, device nodes, links to /dev/null and /dev/zero, inside the root and alias targets, named directly / through dot-dot / '
            'percent-encoded in every configuration (an unanswered request is the outcome HANG, an endless reply is cut at 256 KiB). Non-trivial: normalize cases that '
            'contain a dot component or a double slash; requests whose reply is not 404. distinct = distinct case lines.')
        ctx.coverage['exhaustive'] = False
        ctx.coverage['exhaustive_parts'] = ['normalize_path: all strings of length 0..8 over {a . /} (9841)', 'length 1..5 over {a . / NUL b} (3905)']
        ctx.coverage['sandbox_nodes'] = len(S.nodes)
        ctx.coverage['configurations'] = len(CONFIGS)
        vlib.differential(ctx, cases, [exe, S.cfgfile], [mexe, S.treefile] if mexe else None, oracle, nontrivial, classify,
                          canon_case=canon_case, canon_model=canon_model, jobs=4)
    finally:
        S.cleanup()
