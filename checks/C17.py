"""C17 -- every scheduled handler runs exactly once: posts, timers, I/O waits, pool jobs."""
import os, re
import vlib

META = dict(
    property_id='C17',
    design_ref='DESIGN.md section 4, C17',
    technique=('Coq proof (invariants over all interleavings of lock-granularity steps of the event-loop bookkeeping, of the composite '
               'async_read_some/async_write_some layer and of the thread-pool queue) + guard/constant leafs regenerated from the source by '
               'cxx2v with Link lemmas + extracted-model correspondence against the real io_service / stream_socket / thread_pool driven by scripts'),
    level_text=('Theorems in coq/C17/Props.v over an executable model of booster::aio::event_loop_impl at lock granularity (one step = one '
                'critical section; any list of steps = any interleaving of any number of threads): token conservation (each submitted '
                'handler is in exactly one of descriptor table / timer table / deferred setter / dispatch queue / being executed / log / '
                'dropped-by-API, once), hence at most once; exactly once at quiescence; completion codes (cancel => canceled, timer success '
                'only when clock >= deadline, bad descriptor => EBADF); no lost wake-up for queue, stop and timers (the poll never extends '
                'beyond the deadline of an armed timer unless the self-pipe was written); a loop thread left alone invokes every queued '
                'handler in the next run_one, queues a due timer in the next run_one and invokes it in the one after; under arbitrary interference '
                'by other threads (everything except stop/reset) a queued handler, a due timer, an in-place cancel and a queued pool job still '
                'complete once the loop thread / worker has taken the entries in front of them; cancel_io_events '
                'completes both armed directions with canceled; composite operations (async_read_some/async_write_some through '
                'reader_some/writer_some): the user handler is called at most once, exactly once at quiescence, with the error of a failed '
                'wait; thread pool: a job runs at most once, cancel returns true iff it removed a queued job which then never runs, an '
                'exception leaves the worker alive and the job is not re-run, a lone worker runs every queued job FIFO whatever throws, '
                'nothing is dequeued after stop(), jobs queued at / posted after stop() never run, stop() can return only when no worker '
                'holds a job; reactor layer (epoll/poll/select tables over an OS model with descriptor-number reuse and close() dropping epoll '
                'registrations): the table equals the kernel-side interest for every open descriptor, nothing is cached for closed numbers, arming a '
                'reused number registers it; deadline_timer object: cancel() after a re-arm from the handler cancels the new wait. Tie: every guard condition of post/stop/set_event/set_timer_event/cancel_timer_event/run_one, the event-mask '
                'arithmetic of the readiness dispatch, the worker-loop and cancel tests of thread_pool, the would-block tests of '
                'async_read_some/async_write_some/reader_some/writer_some and the constants io_events::in/out/err, reactor::use_*, '
                'invalid_socket are lifted from the current source into a tiny TU, translated by cxx2v (coq/gen/Gen_C17_loop.v) and proved '
                'equal to the model guards in coq/C17/Link.v (the statements around them are matched as rigid templates); the model is run '
                'against the real io_service (epoll, poll, select; deadline_timer, stream_socket objects; virtual clock and interposed poll so '
                'that operations are issued before the loop runs, from handlers, and while the loop is polling) and the real thread_pool '
                '(including stop() while a job is running) on the same generated scripts; the oracle checks exactly-once, the allowed codes, '
                'no sleep past a timer deadline and the stop() guarantees on the implementation output alone.'),
    level_note=('Trusted: Coq kernel; extraction; tools/cxx2v.py + clang AST for the lifted leafs, the textual lifting and rigid templates in '
                'checks/C17.py (gen_leaf_tu); the hand model of the control flow around the guards (tied by correspondence); that '
                'booster::recursive_mutex / booster::mutex make the critical sections atomic; the kernel interfaces of the reactors; '
                'select_interrupter (exercised, not modelled beyond a woken bit). Real thread interleavings are only sampled (stress cases), '
                'the proof covers them at model level. The composite layer of the proofs (CompDefs.v) and the composite operations of the '
                'script interpreter (Defs.v comp_start/after_exec) implement the same rule but are not formally linked.'),
)

# ----------------------------------------------------------------------------------------------------
# T-tie: guard conditions, bit arithmetic and constants of event_loop_impl lifted from the CURRENT source into a tiny TU
# ----------------------------------------------------------------------------------------------------
LEAF_TU = os.path.join(vlib.WORK, 'C17', 'C17_leafs.cpp')
LEAF_PROBLEMS = []

# non-identifier atoms of the guard expressions -> parameter names (longest first); identifiers (polling_, stop_, counter,
# point, now) are parameters under their own name
ATOMS = [
    ('timer_events_index_.at(event_id)==timer_events_.end()', 'slot_free'),
    ('f.cancelation_is_needed_with_data_mutex_locked()', 'needed'),
    ('self_->dispatch_queue_.empty()', 'qempty'),
    ('self_->map_[fd].current_event', 'cur'),
    ('timer_events_.begin()->first', 'head'),
    ('poll_error.value()!=EINTR', 'not_eintr'),
    ('dispatch_queue_.empty()', 'qempty'),
    ('timer_events_.empty()', 'tempty'),
    ('cont.current_event', 'cur'),
    ('cont.readable', 'hasrd'),
    ('cont.writeable', 'haswr'),
    ('reactor_.get()', 'reactor_get'),
    ('evs[i].events', 'events'),
    ('ptime::hours(1)', '3600000LL'),
    ('ptime::zero', '0LL'),
]
LEAF_NAMES = []


def _strip(src):
    src = re.sub(r'/\*.*?\*/', '', src, flags=re.S)
    src = re.sub(r'//[^\n]*', '', src)
    return re.sub(r'\s+', '', src)


def _body(txt, head):
    """ws-free text of the brace-balanced block that follows the (regex) head; '' if absent"""
    m = re.search(head, txt)
    if not m:
        return ''
    i = m.end()
    if txt[i - 1] != '{':
        return ''
    d, j = 1, i
    while j < len(txt) and d:
        d += {'{': 1, '}': -1}.get(txt[j], 0)
        j += 1
    return txt[i:j - 1] if d == 0 else ''


def _tmpl(s):
    """template -> regex: literal ws-free text with <name> holes (a hole matches a brace/semicolon-free expression)"""
    out, i = '', 0
    for m in re.finditer(r'<([a-z][a-z0-9]{0,7})>', s):
        out += re.escape(s[i:m.start()]) + '(?P<%s>[^;{}]+?)' % m.group(1)
        i = m.end()
    return out + re.escape(s[i:])


def _lift(expr, consts):
    for a, p in ATOMS:
        expr = expr.replace(a, p)
    for a, v in consts.items():
        expr = expr.replace(a, '(%s)' % v)
    return expr


def gen_leaf_tu():
    """booster/lib/aio/src/io_service.cpp is callback/container/mutex code, outside the subset of tools/cxx2v.py.  What IS integer
    code - every guard condition of post / stop / set_event (both overloads) / cancelation_is_needed / set_timer_event /
    cancel_timer_event / run_one (drain loop, timers loop, stop test, wait time, poll-error throw, final wake), the event-mask
    arithmetic of the readiness dispatch and of io_event_setter, socket_map::is_valid, and the constants io_events::in/out/err,
    reactor::use_select/poll/epoll, invalid_socket - is lifted textually from the CURRENT source into a tiny TU (regenerated on every
    run; atoms that are not identifiers become int parameters, see ATOMS) and translated by cxx2v; coq/C17/Link.v proves every leaf
    equal to the guard / arithmetic the model uses at that place.  The statements AROUND the lifted expressions are matched as rigid
    white-space-free templates (a hole per lifted expression): a function that no longer has the statement structure the model was
    written for is left out of the TU, so the translator reports a broken tie."""
    os.makedirs(os.path.dirname(LEAF_TU), exist_ok=True)
    del LEAF_PROBLEMS[:]
    del LEAF_NAMES[:]

    def rd(rel):
        try:
            return open(os.path.join(vlib.REPO, rel)).read()
        except OSError as e:
            LEAF_PROBLEMS.append(str(e))
            return ''
    src = _strip(rd('booster/lib/aio/src/io_service.cpp'))
    types_h = _strip(rd('booster/booster/aio/types.h'))
    reactor_h = _strip(rd('booster/booster/aio/reactor.h'))
    funcs = []

    def emit(name, params, body):
        funcs.append('long long %s(%s) { %s }' % (name, ', '.join('long long ' + p for p in params), body))
        LEAF_NAMES.append(name)

    # ---- constants
    consts = {}
    for hdr, cls, names in ((types_h, 'io_events', ('in', 'out', 'err')), (reactor_h, 'reactor', ('use_select', 'use_poll', 'use_epoll'))):
        for n in names:
            m = re.search(r'staticconstint%s=([0-9<]+);' % n, hdr)
            if not m:
                LEAF_PROBLEMS.append('constant %s::%s not found' % (cls, n))
                continue
            if cls == 'io_events':
                consts['reactor::' + n] = m.group(1)
                consts['io_events::' + n] = m.group(1)
            emit('c17_%s' % (('ev_' + n) if cls == 'io_events' else n), [], 'return %s;' % m.group(1))
    m = re.search(r'staticconstintinvalid_socket=(-?[0-9]+);', types_h)
    if m:
        emit('c17_invalid_socket', [], 'return %s;' % m.group(1))
    else:
        LEAF_PROBLEMS.append('invalid_socket not found')
    # reactor and io_events use the same masks (reactor : public io_events)
    if not re.search(r'classBOOSTER_APIreactor:publicio_events', reactor_h):
        LEAF_PROBLEMS.append('reactor no longer derives its event masks from io_events')

    def match(what, body, template, leafs):
        """leafs: list of (leaf name, hole, params)"""
        m = re.fullmatch(_tmpl(template), body) if body else None
        if not m:
            LEAF_PROBLEMS.append('%s does not have the modelled statement structure' % what)
            return None
        for name, hole, params in leafs:
            emit(name, params, 'return %s;' % _lift(m.group(hole), consts))
        return m

    # ---- post (three overloads), stop
    for suffix, sig, arg in (('h', r'voidpost\(handlerconst&h\)\{', 'h'),
                             ('eh', r'voidpost\(event_handlerconst&h,booster::system::error_codeconst&e\)\{', 'h,e'),
                             ('ioh', r'voidpost\(io_handlerconst&h,booster::system::error_codeconst&e,size_tn\)\{', 'h,e,n')):
        match('event_loop_impl::post(%s)' % arg, _body(src, sig),
              'lock_guardl(data_mutex_);dispatch_queue_.push_back(completion_handler(%s));if(<g>)wake();' % arg,
              [('c17_post_wake_' + suffix, 'g', ['polling_'])])
    match('event_loop_impl::stop', _body(src, r'voidstop\(\)\{'), 'lock_guardl(data_mutex_);stop_=true;if(<g>)wake();',
          [('c17_stop_wake', 'g', ['polling_'])])
    # ---- set_event: generic (io_event_setter) and the io_event_canceler overload
    defer = 'if(<d>){dispatch_queue_.push_back(completion_handler(f));if(<w>)wake();}else{f();}'
    match('event_loop_impl::set_event<Functor>', _body(src, r'template<typenameFunctor>voidset_event\(Functor&f\)\{'),
          'lock_guardl(data_mutex_);' + defer,
          [('c17_set_defer', 'd', ['polling_', 'reactor_get']), ('c17_set_wake', 'w', ['reactor_get'])])
    match('event_loop_impl::set_event(io_event_canceler&)', _body(src, r'voidset_event\(io_event_canceler&f\)\{'),
          'lock_guardl(data_mutex_);if(<s>)return;' + defer,
          [('c17_cancel_skip', 's', ['needed']), ('c17_cancel_defer', 'd', ['polling_', 'reactor_get']), ('c17_cancel_wake', 'w', ['reactor_get'])])
    match('io_event_canceler::cancelation_is_needed_with_data_mutex_locked', _body(src, r'boolcancelation_is_needed_with_data_mutex_locked\(\)\{'),
          'if(<q>)returntrue;io_data&cont=self_->map_[fd];if(<i>){self_->map_.erase(fd);returnfalse;}returntrue;',
          [('c17_needed_queue', 'q', ['qempty']), ('c17_needed_idle', 'i', ['cur', 'hasrd', 'haswr'])])
    # io_event_canceler::operator() and io_event_setter::operator(): rigid, with the lifted integer parts
    match('io_event_canceler::operator()', _body(src, r'voidoperator\(\)\(\)const\{'),
          'lock_guardl(self_->data_mutex_);io_data&cont=self_->map_[fd];cont.current_event=0;system::error_codee;self_->reactor_->remove(fd,e);'
          'e=system::error_code(aio_error::canceled,aio_error_cat);if(cont.readable)self_->dispatch_queue_.push_back(completion_handler(cont.readable,e));'
          'if(cont.writeable)self_->dispatch_queue_.push_back(completion_handler(cont.writeable,e));self_->map_.erase(fd);', [])
    sb = _body(src, r'event_loop_impl\*self_;voidoperator\(\)\(\)\{')
    sb = sb.replace('#ifdefBOOSTER_WIN32system::error_codee(WSAEBADF,syscat);#elsesystem::error_codee(EBADF,syscat);#endif', 'system::error_codee(EBADF,syscat);')
    match('io_event_setter::operator()', sb,
          'lock_guardl(self_->data_mutex_);if(!self_->map_.is_valid(fd)){system::error_codee(EBADF,syscat);self_->dispatch_queue_.push_back(completion_handler(h,e));return;}'
          'intnew_event=<n>;system::error_codee;self_->reactor_->select(fd,new_event,e);if(!e){self_->map_[fd].current_event=new_event;'
          'if(<r>)self_->map_[fd].readable=h;elseself_->map_[fd].writeable=h;}else{self_->dispatch_queue_.push_back(completion_handler(h,e));}',
          [('c17_setter_new_event', 'n', ['cur', 'event']), ('c17_setter_is_read', 'r', ['event'])])
    match('socket_map::is_valid', _body(src, r'boolis_valid\(native_typefd\)\{'), 'return<v>;', [('c17_is_valid', 'v', ['fd'])])
    match('event_loop_impl::set_io_event', _body(src, r'voidset_io_event\(native_typefd,intevent,event_handlerconst&h\)\{'),
          'if(<b>)throwbooster::invalid_argument("Invalidargumenttoset_io_event");io_event_settersetter={fd,event,h,this};set_event(setter);',
          [('c17_set_io_bad_event', 'b', ['event'])])
    match('event_loop_impl::cancel_io_events', _body(src, r'voidcancel_io_events\(native_typefd\)\{'),
          'if(<b>)return;io_event_cancelercanceler={fd,this};set_event(canceler);', [('c17_cancel_io_skip', 'b', ['fd', 'invalid_socket'])])
    # ---- timers
    tb = _body(src, r'intset_timer_event\(ptimepoint,event_handlerconst&h\)\{')
    m = re.search(_tmpl('timer_events_index_[pos]=timer_events_.insert(ev);break;}if(<g>)wake();returnev.second.event_id;') + '$', tb)
    if m:
        emit('c17_timer_wake', ['polling_', 'head', 'point'], 'return %s;' % _lift(m.group('g'), consts))
    else:
        LEAF_PROBLEMS.append('event_loop_impl::set_timer_event does not end with the modelled insert / wake / return')
    match('event_loop_impl::cancel_timer_event', _body(src, r'voidcancel_timer_event\(intevent_id\)\{'),
          'lock_guardl(data_mutex_);if(<a>)return;timer_events_type::iteratorevptr=timer_events_index_[event_id];'
          'completion_handlerevdisp(evptr->second.h,system::error_code(aio_error::canceled,aio_error_cat));dispatch_queue_.push_back(evdisp);'
          'timer_events_.erase(evptr);timer_events_index_[event_id]=timer_events_.end();if(<g>)wake();',
          [('c17_cancel_timer_absent', 'a', ['slot_free']), ('c17_cancel_timer_wake', 'g', ['polling_'])])
    # ---- run_one
    ro = _body(src, r'boolrun_one\(reactor::event\*evs,size_tevs_size\)\{')
    m = match('event_loop_impl::run_one', ro,
              'lock_guardl(data_mutex_);if(!reactor_.get()){reactor_.reset(newreactor(reactor_type_));}'
              'if(interrupter_.open()){reactor_->select(interrupter_.get_fd(),reactor::in);}'
              'intcounter=dispatch_queue_.size();while(<drain>){completion_handlerexec;exec.swap(dispatch_queue_.front());dispatch_queue_.pop_front();'
              'data_mutex_.unlock();try{exec();}catch(...){data_mutex_.lock();throw;}data_mutex_.lock();counter--;}'
              'ptimenow=ptime::now();while(<tloop>){timer_events_type::iteratorevptr=timer_events_.begin();'
              'timer_events_index_[evptr->second.event_id]=timer_events_.end();completion_handlerdisp(evptr->second.h,system::error_code());'
              'dispatch_queue_.push_back(disp);timer_events_.erase(evptr);}'
              'if(<stopret>)returnfalse;ptimewait_time=<w0>;if(<havet>){ptimediff=<diff>;if(<lt>)wait_time=diff;assert(wait_time>=ptime::zero);}'
              'intn=0;{system::error_codepoll_error;polling_=true;try{data_mutex_.unlock();'
              'n=reactor_->poll(evs,evs_size,int(ptime::milliseconds(wait_time)),poll_error);}catch(...){data_mutex_.lock();polling_=false;throw;}'
              'data_mutex_.lock();polling_=false;if(<pthrow>){throwsystem::system_error(poll_error);}}'
              'if(n>int(evs_size))n=evs_size;randomize_events(evs,n);for(inti=0;i<n&&i<int(evs_size);i++){'
              'if(evs[i].fd==interrupter_.get_fd()){interrupter_.clean();continue;}usingbooster::system::error_code;io_data&cont=map_[evs[i].fd];'
              'intnew_events=cont.current_event;error_codedispatch_error;'
              'if(<eerr>){dispatch_error=error_code(aio_error::select_failed,aio_error_cat);new_events=0;}'
              'if(<ein>)new_events&=<min>;if(<eout>)new_events&=<mout>;'
              'error_codeselect_error;reactor_->select(evs[i].fd,new_events,select_error);'
              'if(select_error){new_events=0;if(!dispatch_error)dispatch_error=select_error;}cont.current_event=new_events;'
              'if(<firer>){dispatch_queue_.push_back(completion_handler(cont.readable,dispatch_error));}'
              'if(<firew>){dispatch_queue_.push_back(completion_handler(cont.writeable,dispatch_error));}'
              'if(<erase>)map_.erase(evs[i].fd);}if(<fwake>){wake();}returntrue;',
              [('c17_drain', 'drain', ['stop_', 'qempty', 'counter']), ('c17_timers_loop', 'tloop', ['stop_', 'tempty', 'head', 'now']),
               ('c17_stop_return', 'stopret', ['stop_']), ('c17_poll_throw', 'pthrow', ['poll_error', 'not_eintr', 'qempty']),
               ('c17_fire_read', 'firer', ['hasrd', 'new_events']), ('c17_fire_write', 'firew', ['haswr', 'new_events']),
               ('c17_erase', 'erase', ['new_events']), ('c17_final_wake', 'fwake', ['stop_'])])
    if m:
        L = lambda h: _lift(m.group(h), consts)
        emit('c17_wait_time', ['qempty', 'tempty', 'head', 'now'],
             'long long wait_time = %s; if(%s) { long long diff = %s; if(%s) wait_time = diff; } return wait_time;' % (L('w0'), L('havet'), L('diff'), L('lt')))
        emit('c17_new_events', ['cur', 'events', 'select_error'],
             'long long new_events = cur; if(%s) { new_events = 0; } if(%s) new_events &= %s; if(%s) new_events &= %s; if(select_error) { new_events = 0; } return new_events;'
             % (L('eerr'), L('ein'), L('min'), L('eout'), L('mout')))
        # 1 = select_failed (reported err), 2 = the reactor's select error, 0 = success
        emit('c17_dispatch_error', ['events', 'select_error'],
             'long long dispatch_error = 0; if(%s) { dispatch_error = 1; } if(select_error) { if(!dispatch_error) dispatch_error = 2; } return dispatch_error;' % L('eerr'))
    # ---- the move: the non-const completion_handler overloads release the stored callback (mechanism named in the property)
    for ty, rest, tp in (('handler', '', 'op_handler'), ('event_handler', ',booster::system::error_codeconst&ine', 'op_event_handler'),
                         ('io_handler', ',booster::system::error_codeconst&ine,size_tinn', 'op_io_handler')):
        if ('completion_handler(%s&inh%s):h(inh.get_pointer().release(),false),' % (ty, rest)) not in src:
            LEAF_PROBLEMS.append('completion_handler(%s &...) no longer takes ownership of (moves out) the callback' % ty)
    if _body(src, r'voidreset\(\)\{') != 'dispatch_queue_.clear();map_.clear();stop_=false;reactor_.reset();interrupter_.close();':
        LEAF_PROBLEMS.append('event_loop_impl::reset does not have the modelled statement list')
    # ---- src/thread_pool.cpp: worker loop, post, cancel, stop
    tp = _strip(rd('src/thread_pool.cpp'))
    ATOMS.insert(0, ('queue_.empty()', 'qempty'))
    ATOMS.insert(0, ('p->first', 'first'))
    match('thread_pool::worker', _body(tp, r'voidworker\(\)\{'),
          'for(;;){booster::function<void()>job;{booster::unique_lock<booster::mutex>lock(mutex_);if(<ex>)return;'
          'if(<take>){queue_.front().second.swap(job);queue_.pop_front();}else{cond_.wait(lock);}}'
          'if(job){try{job();}catch(std::exceptionconst&e){BOOSTER_ERROR("cppcms")<<"Catchedexceptioninthreadpool"<<e.what()<<\'\\n\'<<booster::trace(e);}'
          'catch(...){BOOSTER_ERROR("cppcms")<<"Catchedunknownexceptioninthreadpool";}}}',
          [('c17_worker_exit', 'ex', ['shut_down_']), ('c17_worker_take', 'take', ['qempty'])])
    match('thread_pool::cancel', _body(tp, r'boolcancel\(intid\)\{'),
          'booster::unique_lock<booster::mutex>lock(mutex_);queue_type::iteratorp;for(p=queue_.begin();p!=queue_.end();++p){'
          'if(<eq>){queue_.erase(p);returntrue;}}returnfalse;', [('c17_cancel_match', 'eq', ['first', 'id'])])
    match('thread_pool::post', _body(tp, r'intpost\(booster::function<void\(\)>const&job\)\{'),
          'booster::unique_lock<booster::mutex>lock(mutex_);intid=job_id_++;queue_.push_back(std::make_pair(id,job));cond_.notify_one();returnid;', [])
    match('thread_pool::stop', _body(tp, r'voidstop\(\)\{'),
          '{booster::unique_lock<booster::mutex>lock(mutex_);shut_down_=true;cond_.notify_all();}'
          'for(unsignedi=0;i<workers_.size();i++){booster::shared_ptr<booster::thread>thread=workers_[i];workers_[i].reset();if(thread)thread->join();}', [])
    del ATOMS[0:2]
    # ---- booster/lib/aio/src/stream_socket.cpp: async_read_some / async_write_some and their internal handlers
    ss = _strip(rd('booster/lib/aio/src/stream_socket.cpp'))
    ATOMS.insert(0, ('basic_io_device::would_block(err)', 'wb'))
    ATOMS.insert(1, ('would_block(e)', 'wb'))
    for nm, rw, arm, bt in (('reader', 'read', 'on_readable', 'mutable_buffer'), ('writer', 'write', 'on_writeable', 'const_buffer')):
        st_body = _body(ss, r'struct%s_some:publicbooster::callable<void\(system::error_codeconst&e\)>\{' % nm)
        match('%s_some::operator()' % nm, _body(st_body, r'voidoperator\(\)\(system::error_codeconst&e\)\{'),
              'if(<f>){h(e,0);}else{system::error_codeerr;size_tn=sock->%s_some(buf,err);if(<a>)sock->%s(pointer(this));elseh(err,n);}' % (rw, arm),
              [('c17_%s_failed' % nm, 'f', ['e']), ('c17_%s_again' % nm, 'a', ['n', 'err', 'wb'])])
        match('stream_socket::async_%s_some' % rw, _body(ss, r'voidstream_socket::async_%s_some\(%sconst&buffer,io_handlerconst&h\)\{' % (rw, bt)),
              'if(!dont_block(h))return;#ifdefBOOSTER_AIO_FORCE_POLL%s_some::pointer%s(new%s_some(h,buffer,this));%s(%s);#else'
              'system::error_codee;size_tn=%s_some(buffer,e);if(<w>){%s_some::pointer%s(new%s_some(h,buffer,this));%s(%s);}'
              'else{get_io_service().post(h,e,n);}#endif' % (nm, nm, nm, arm, nm, rw, nm, nm, nm, arm, nm),
              [('c17_%s_start_wait' % rw, 'w', ['e', 'wb'])])
    ATOMS.insert(0, ('basic_io_device::would_block(e)', 'wb'))
    ATOMS.insert(0, ('buffer.bytes_count()', 'total'))
    ATOMS.insert(0, ('buf.empty()', 'bufempty'))
    for nm, rw, arm in (('reader', 'read', 'on_readable'), ('writer', 'write', 'on_writeable')):
        st_body = _body(ss, r'struct%s_all:publiccallable<void\(system::error_codeconst&e\)>\{' % nm)
        match('%s_all::run' % nm, _body(st_body, r'voidrun\(\)\{'),
              '#ifdefBOOSTER_AIO_FORCE_POLLself->%s(intrusive_ptr<%s_all>(this));#elsesystem::error_codee;size_tn=self->%s_some(buf,e);count+=n;buf+=n;'
              'if(<d>){self->get_io_service().post(h,e,count);}else{self->%s(intrusive_ptr<%s_all>(this));}#endif' % (arm, nm, rw, arm, nm),
              [('c17_%s_all_start_done' % nm, 'd', ['bufempty', 'e', 'wb'])])
        match('%s_all::operator()' % nm, _body(st_body, r'voidoperator\(\)\(system::error_codeconst&e\)\{'),
              'if(<f>){h(e,count);}else{system::error_codeerr;size_tn=self->%s_some(buf,err);count+=n;buf+=n;'
              'if(<d>){h(err,count);}else{self->%s(intrusive_ptr<%s_all>(this));}}' % (rw, arm, nm),
              [('c17_%s_all_failed' % nm, 'f', ['e']), ('c17_%s_all_done' % nm, 'd', ['bufempty', 'err', 'wb'])])
    match('stream_socket::async_read', _body(ss, r'voidstream_socket::async_read\(mutable_bufferconst&buffer,io_handlerconst&h\)\{'),
          'if(!dont_block(h))return;reader_all::pointerr(newreader_all(this,buffer,h));r->run();', [])
    match('stream_socket::async_write', _body(ss, r'voidstream_socket::async_write\(const_bufferconst&buffer,io_handlerconst&h\)\{'),
          'if(!dont_block(h))return;#ifdefBOOSTER_AIO_FORCE_POLLwriter_all::pointerr(newwriter_all(this,buffer,0,h));r->run();#else'
          'system::error_codee;size_tn=write_some(buffer,e);if(<w>){writer_all::pointerr(newwriter_all(this,buffer,n,h));r->run();}'
          'else{get_io_service().post(h,e,n);}#endif', [('c17_write_all_continue', 'w', ['e', 'n', 'total', 'wb'])])
    del ATOMS[0:5]
    # basic_io_device: close() cancels the outstanding waits before the descriptor is closed; on_readable/on_writeable/cancel forward to the loop
    bd = _strip(rd('booster/lib/aio/src/basic_io_device.cpp'))
    if _body(bd, r'voidbasic_io_device::close\(system::error_code&e\)\{') != \
            'if(fd_==invalid_socket)return;if(has_io_service())cancel();if(!owner_)return;if(close_file_descriptor(fd_))e=geterror();fd_=invalid_socket;nonblocking_was_set_=false;':
        LEAF_PROBLEMS.append('basic_io_device::close(error_code&) does not have the modelled statement list (cancel the waits, then close)')
    for fn, body in (('on_readable\(event_handlerconst&h\)', 'get_io_service().set_io_event(fd_,io_service::in,h);'),
                     ('on_writeable\(event_handlerconst&h\)', 'get_io_service().set_io_event(fd_,io_service::out,h);'),
                     ('cancel\(\)', 'get_io_service().cancel_io_events(fd_);')):
        if _body(bd, r'voidbasic_io_device::%s\{' % fn) != body:
            LEAF_PROBLEMS.append('basic_io_device::%s does not forward to the event loop as modelled' % fn.split('\\')[0])
    # ---- booster/lib/aio/src/reactor.cpp: the tables of the three back-ends (coq/C17/ReactorDefs.v r_select)
    rc = _strip(rd('booster/lib/aio/src/reactor.cpp'))
    ATOMS.insert(0, ('events_[fd]', 'cur'))
    ATOMS.insert(0, ('int(map_.size())', 'mapsize'))
    ATOMS.insert(0, ('map_[fd]', 'slot'))
    ep = _body(rc, r'classepoll_reactor:publicbase_poll_reactor,publicbase_fast_reactor\{')
    match('epoll_reactor::select', _body(ep, r'virtualvoidselect\(native_typefd,intflags,int&error\)\{'),
          'if(!check(fd,error))return;if(<del>)write_flag(fd,EPOLL_CTL_DEL,0,error);elseif(<add>)write_flag(fd,EPOLL_CTL_ADD,to_poll_events(flags),error);'
          'elseif(<mod>)write_flag(fd,EPOLL_CTL_MOD,to_poll_events(flags),error);events_[fd]=flags;',
          [('c17_epoll_del', 'del', ['cur', 'flags']), ('c17_epoll_add', 'add', ['cur', 'flags']), ('c17_epoll_mod', 'mod', ['cur', 'flags'])])
    if _body(ep, r'voidwrite_flag\(intfd,intop,intflags,int&error\)\{') != \
            'structepoll_eventefd=epoll_event();efd.events=flags;efd.data.fd=fd;if(::epoll_ctl(pollfd_,op,fd,&efd)<0){error=errno;return;}':
        LEAF_PROBLEMS.append('epoll_reactor::write_flag does not have the modelled statement list')
    fr = _body(rc, r'classbase_fast_reactor\{')
    match('base_fast_reactor::check', _body(fr, r'boolcheck\(intfd,int&error\)\{'),
          'if(<neg>){error=EINVAL;returnfalse;}if(fd>=int(events_.size())){events_.resize(fd+1,0);}returntrue;', [('c17_fast_check_bad', 'neg', ['fd'])])
    for cls, head, setexpr in (('poll_reactor', r'classpoll_reactor:publicbase_poll_reactor\{', 'entry(fd).events=to_poll_events(flags);'),
                               ('select_reactor', r'classselect_reactor:publicreactor_impl\{', 'entry(fd).events=flags;')):
        cb = _body(rc, head)
        match('%s::select' % cls, _body(cb, r'virtualvoidselect\(native_typefd,intflags,int&error\)\{'),
              'if(!check(fd,error))return;if(<rm>){remove(fd);return;}' + setexpr, [('c17_%s_is_remove' % cls, 'rm', ['flags'])])
        match('%s::remove' % cls, _body(cb, r'voidremove\(native_typefd\)\{'),
              'if(<absent>)return;intindex=map_[fd];std::swap(pollfds_[index],pollfds_.back());map_[pollfds_[index].fd]=index;'
              'pollfds_.resize(pollfds_.size()-1);map_[fd]=-1;', [('c17_%s_absent' % cls, 'absent', ['fd', 'mapsize', 'slot'])])
    del ATOMS[0:3]
    # deadline_timer: async_wait arms the loop timer with an internal handler that clears the id and calls the user handler once;
    # cancel() cancels that id once
    dt = _strip(rd('booster/lib/aio/src/deadline_timer.cpp'))
    for what, head, body in (
            ('deadline_timer::waiter::operator()', r'structdeadline_timer::waiter:publicbooster::callable<void\(system::error_codeconst&e\)>\{event_handlerh;deadline_timer\*self;voidoperator\(\)\(system::error_codeconst&e\)\{',
             'self->event_id_=-1;h(e);'),
            ('deadline_timer::async_wait', r'voiddeadline_timer::async_wait\(event_handlerconst&h\)\{',
             'std::unique_ptr<waiter>wt(newwaiter);wt->h=h;wt->self=this;event_id_=get_io_service().set_timer_event(deadline_,std::move(wt));'),
            ('deadline_timer::cancel', r'voiddeadline_timer::cancel\(\)\{',
             'if(event_id_!=-1){inttmp_id=event_id_;event_id_=-1;get_io_service().cancel_timer_event(tmp_id);}')):
        if _body(dt, head) != body:
            LEAF_PROBLEMS.append('%s does not have the modelled statement list' % what)
    # select_interrupter: notify() writes one byte to the self-pipe (retrying on EINTR), clean() reads from it (level-triggered: what is
    # left keeps the pipe readable, so it can only cause additional wake-ups) - the model abstracts the pipe to the `woken` bit
    si = _strip(rd('booster/lib/aio/src/select_iterrupter.cpp'))
    for what, head, body in (
            ('select_interrupter::notify', r'voidselect_interrupter::notify\(\)\{',
             "#ifdefBOOSTER_WIN32charc='A';::send(write_,&c,1,0);#elsefor(;;){charc='A';if(::write(write_,&c,1)<0&&errno==EINTR)continue;break;}#endif"),
            ('select_interrupter::clean', r'voidselect_interrupter::clean\(\)\{',
             'intn;staticcharbuffer[64];#ifdefBOOSTER_WIN32n=::recv(read_,buffer,sizeof(buffer),0);#elsen=::read(read_,buffer,sizeof(buffer));#endif(void)(n);')):
        if _body(si, head) != body:
            LEAF_PROBLEMS.append('%s does not have the modelled statement list' % what)
    txt = '// generated by checks/C17.py (gen_leaf_tu) from booster/lib/aio/src/io_service.cpp, booster/aio/types.h, reactor.h -- do not edit\n'
    txt += '\n'.join(funcs) + '\n'
    vlib.write_if_changed(LEAF_TU, txt)
    return LEAF_TU


LEAF_ALL = ['c17_ev_in', 'c17_ev_out', 'c17_ev_err', 'c17_use_select', 'c17_use_poll', 'c17_use_epoll', 'c17_invalid_socket',
            'c17_post_wake_h', 'c17_post_wake_eh', 'c17_post_wake_ioh', 'c17_stop_wake', 'c17_set_defer', 'c17_set_wake',
            'c17_cancel_skip', 'c17_cancel_defer', 'c17_cancel_wake', 'c17_needed_queue', 'c17_needed_idle',
            'c17_setter_new_event', 'c17_setter_is_read', 'c17_is_valid', 'c17_set_io_bad_event', 'c17_cancel_io_skip',
            'c17_timer_wake', 'c17_cancel_timer_absent', 'c17_cancel_timer_wake',
            'c17_drain', 'c17_timers_loop', 'c17_stop_return', 'c17_poll_throw', 'c17_fire_read', 'c17_fire_write', 'c17_erase',
            'c17_final_wake', 'c17_wait_time', 'c17_new_events', 'c17_dispatch_error',
            'c17_worker_exit', 'c17_worker_take', 'c17_cancel_match',
            'c17_reader_failed', 'c17_reader_again', 'c17_read_start_wait', 'c17_writer_failed', 'c17_writer_again', 'c17_write_start_wait',
            'c17_reader_all_start_done', 'c17_reader_all_failed', 'c17_reader_all_done', 'c17_writer_all_start_done', 'c17_writer_all_failed',
            'c17_writer_all_done', 'c17_write_all_continue',
            'c17_epoll_del', 'c17_epoll_add', 'c17_epoll_mod', 'c17_fast_check_bad', 'c17_poll_reactor_is_remove', 'c17_poll_reactor_absent',
            'c17_select_reactor_is_remove', 'c17_select_reactor_absent']

GEN = {
    # guards, event-mask arithmetic and constants of event_loop_impl, see gen_leaf_tu()
    'Gen_C17_loop': dict(src=gen_leaf_tu(), incs=[], functions=[(n, 'g_' + n) for n in LEAF_ALL]),
}
F1 = 'lost-wakeup-interrupter-fd-number-reused'
F2 = 'inplace-cancel-overtakes-queued-arm'
F3 = 'deadline-timer-restart-before-cancelled-handler-ran'

FDOPS1 = ('CF', 'CL', 'W', 'R', 'F', 'D', 'K')


# ----------------------------------------------------------------------------------------------------
# script generator
# ----------------------------------------------------------------------------------------------------
class LoopGen:
    def __init__(self, rng, mode, allow_stop=False, allow_close=True, size=1.0, free=False, batch=False):
        self.rng, self.mode = rng, mode
        self.nfd = rng.choice([1, 2, 2, 3, 3, 4])
        # descriptor discipline (keeps generated scripts out of the input class of finding 2, docs/C17.md): a descriptor of
        # class A may be armed from a phase (deferred setter) and is cancelled/closed only from phases; a descriptor of
        # class B is armed only from handler bodies and may be cancelled/closed anywhere
        self.cls = [rng.choice('AB') for _ in range(self.nfd)]
        # one timer API per script: slot ids of set_timer_event are recycled (and pseudo-random), so a stale raw id could hit a
        # deadline_timer whose id the harness cannot see
        self.tmode = rng.choice('TU')
        self.batch = batch        # batch=True: handlers of descriptor waits have no bodies (their relative order is not fixed)
        self.free = free          # free=True: no discipline (finding-2 class allowed)
        self.k = 0
        self.bodies = []          # (k, ops)
        self.used = set()         # (f, dir) armed somewhere (chain-safe mode)
        self.timers = []
        self.allow_stop = allow_stop
        self.allow_close = allow_close and mode == 's'
        self.size = size

    def new(self):
        self.k += 1
        return self.k

    def maybe_body(self, k, depth, chain=None):
        if depth < 3 and self.rng.random() < (0.45 if depth == 0 else 0.3):
            ops = self.ops(self.rng.randrange(1, 4), depth + 1, chain)
            self.bodies.append((k, ops))
        elif chain is not None and depth < 4 and self.rng.random() < 0.5:
            # re-arm chain: the handler waits again on the same descriptor and direction
            self.bodies.append((k, self.arm(chain[0], chain[1], depth + 1, force=True)))

    def arm(self, f, d, depth, force=False):
        if not self.free and depth == 0 and self.cls[f] != 'A':
            return []
        if self.mode == 's' and not force:
            if (f, d) in self.used:
                return []
            self.used.add((f, d))
        k = self.new()
        # a plain wait (on_readable / on_writeable) or the composite operation built on it (async_read_some / async_write_some)
        r = self.rng.random()
        if r < 0.3:
            out = ['RS' if d == 'i' else 'WS', str(k), str(f)]
        elif r < 0.45:
            # async_read / async_write of n bytes (reader_all / writer_all): the peer writes one byte per W
            out = ['RA' if d == 'i' else 'WA', str(k), str(f), str(self.rng.choice([1, 2, 2, 3]))]
        else:
            out = ['I' if d == 'i' else 'O', str(k), str(f)]
        if not self.batch:
            self.maybe_body(k, depth, chain=(f, d))
        return out

    def ops(self, n, depth, chain=None):
        rng = self.rng
        out = []
        rearmed = False
        for _ in range(n):
            r = rng.random()
            f = rng.randrange(self.nfd)
            if r < 0.16:
                k = self.new(); out += [rng.choice(['P', 'P', 'P', 'PE', 'PI']), str(k)]; self.maybe_body(k, depth)
            elif r < 0.32:
                k = self.new()
                d = rng.choice([-5, 0, 0, 0, 1, 2, 5, 10, 10, 10, 37, 50])
                out += [self.tmode, str(k), str(d)]
                self.timers.append(k)
                self.maybe_body(k, depth)
            elif r < 0.40:
                if self.timers:
                    out += ['CT', str(rng.choice(self.timers))]
            elif r < 0.58:
                d = rng.choice('io')
                if chain is not None and not rearmed and self.mode == 's' and rng.random() < 0.5:
                    out += self.arm(chain[0], chain[1], depth, force=True); rearmed = True
                else:
                    out += self.arm(f, d, depth)
            elif r < 0.64:
                if self.free or depth == 0 or self.cls[f] == 'B':
                    # cancel(), or the operations of a non-owning device that cancel: attach / assign of its own descriptor; release() anywhere
                    out += [rng.choice(['CF', 'CF', 'CF', 'AT', 'AS']), str(f)]
                else:
                    out += ['RL', str(f)]
            elif r < 0.67:
                if self.allow_close and (self.free or depth == 0 or self.cls[f] == 'B'):
                    out += ['CL', str(f)]
            elif r < 0.77:
                out += ['W', str(f)]
            elif r < 0.81:
                out += ['R', str(f)]
            elif r < 0.85:
                out += ['F', str(f)]
            elif r < 0.89:
                out += ['D', str(f)]
            elif r < 0.91:
                out += ['K', str(f)]
            elif r < 0.97:
                out += ['A', str(rng.choice([1, 2, 5, 10, 10, 50]))]
            elif self.allow_stop:
                out += ['X']
        return out

    def script(self):
        rng = self.rng
        nph = rng.randrange(1, int(7 * self.size) + 1)
        phases = [self.ops(rng.randrange(0, int(5 * self.size) + 1), 0) for _ in range(nph)]
        toks = []
        for i, p in enumerate(phases):
            if i:
                toks.append('/')
            toks += p
        for k, ops in self.bodies:
            toks += ['[', str(k)] + ops + [']']
        return toks


def gen_loop_case(rng, reactor=None, mode=None, stop=None):
    mode = mode or ('s' if rng.random() < 0.75 else 'd')
    stop = (rng.random() < 0.15) if stop is None else stop
    batch = rng.random() < 0.25
    g = LoopGen(rng, mode, allow_stop=stop, size=rng.choice([0.5, 1.0, 1.0, 1.5]), batch=batch)
    if batch:
        g.nfd = rng.choice([2, 3, 4, 4, 6, 8])
        g.cls = [rng.choice('AB') for _ in range(g.nfd)]
    toks = g.script()
    reactor = reactor or rng.choice('eps')
    pick = 'a' if batch else rng.choice('lh')
    return 'loop %s %s%s %d %s' % (reactor, pick, mode, g.nfd, ' '.join(toks))


def gen_timer_case(rng):
    """aimed at the case split of no_sleep_past_a_deadline / set_timer_event: a timer armed while the loop polls that is earlier than,
    equal to, or later than the earliest armed one (only the first two must wake the loop), a cancel of the earliest while polling,
    a timer already due when armed, the clock advanced by the other thread, equal deadlines"""
    tm = rng.choice('TU')
    k = [0]

    def new():
        k[0] += 1
        return k[0]
    d1 = rng.choice([3, 20, 20, 50])
    ph0 = [tm, str(new()), str(d1)]
    first = k[0]
    if rng.random() < 0.3:
        ph0 += [tm, str(new()), str(d1 + rng.choice([0, 1, 30]))]
    if rng.random() < 0.3:
        ph0 += ['P', str(new())]
    phases = [ph0]
    bodies = []
    for _ in range(rng.randrange(1, 4)):
        ph = []
        for _ in range(rng.randrange(1, 4)):
            r = rng.random()
            if r < 0.6:
                kk = new()
                ph += [tm, str(kk), str(rng.choice([d1 - 1, d1, d1 + 1, d1 - 3, 0, -5, 1, 2, d1 + 40]))]
                if rng.random() < 0.25:
                    bodies.append((kk, [tm, str(new()), str(rng.choice([0, 1, 5]))]))
            elif r < 0.75:
                ph += ['CT', str(rng.choice([first, max(1, k[0])]))]
            elif r < 0.9:
                ph += ['A', str(rng.choice([1, d1 - 1, d1, d1 + 1]))]
            else:
                ph += ['P', str(new())]
        phases.append(ph)
    toks = []
    for i, p in enumerate(phases):
        if i:
            toks.append('/')
        toks += p
    for kk, ops in bodies:
        toks += ['[', str(kk)] + ops + [']']
    return '%ss 1 %s' % (rng.choice('lh'), ' '.join(toks))


def gen_spurious_case(rng):
    """aimed at the would-block branch of the internal handlers (reader_some / writer_some / reader_all / writer_all) and at stale events:
    a wait is satisfied (the event is reported and the internal handler queued) but a handler queued before it takes the data away /
    refills the send buffer, so the transfer would block again and the operation has to wait again - then it is completed, cancelled,
    closed or hit by a hang-up"""
    k = [0]

    def new():
        k[0] += 1
        return k[0]
    rd = rng.random() < 0.6
    op = rng.choice(['RS', 'RA', 'I'] if rd else ['WS', 'WA', 'O'])
    u = new()
    arm = [op, str(u), '0'] + ([str(rng.choice([1, 2, 3]))] if op in ('RA', 'WA') else [])
    ph0 = ([] if rd else ['F', '0']) + arm
    thief = new()
    ph1 = ['P', str(thief)] + (['W', '0'] * rng.choice([1, 1, 2, 3]) if rd else ['D', '0'])
    bodies = [(thief, ['R', '0'] if rd else ['F', '0'])]
    if rng.random() < 0.3:
        ph1 = ph1[2:] + ph1[:2]          # the post after the event source: the thief runs after the completion instead
    end = rng.choice(['data', 'data', 'cancel', 'close', 'hup', 'none'])
    ph2 = {'data': (['W', '0'] * rng.choice([1, 2, 3]) if rd else ['D', '0']), 'cancel': ['CF', '0'], 'close': ['CL', '0'], 'hup': ['K', '0'], 'none': []}[end]
    phases = [ph0, ph1, ph2]
    if rng.random() < 0.4:
        phases.insert(1, [])
    if rng.random() < 0.3 and op in ('RS', 'WS', 'RA', 'WA'):
        # the user handler starts the next operation on the same descriptor
        nxt = new()
        bodies.append((u, [op, str(nxt), '0'] + ([str(rng.choice([1, 2]))] if op in ('RA', 'WA') else [])))
    toks = []
    for i, p in enumerate(phases):
        if i:
            toks.append('/')
        toks += p
    for kk, ops in bodies:
        toks += ['[', str(kk)] + ops + [']']
    return '%ss 1 %s' % (rng.choice('lh'), ' '.join(toks))


def gen_reuse_case(rng):
    """aimed at the reactor tables (reactor.cpp) under descriptor-NUMBER reuse: a wait is armed on device f; the device is closed while
    armed - from a phase (another thread while the loop polls: the cancel is queued, the close is immediate, so the reactor's remove runs on
    a closed descriptor) or from a handler body (loop thread: remove runs first) - the cancelled handler is delivered; in a LATER phase a new
    socket receives the same descriptor number (RO) and is armed with the same or a different mask; data arrives; the handler must run"""
    k = [0]

    def new():
        k[0] += 1
        return k[0]
    nfd = rng.choice([1, 2, 2])
    f = rng.randrange(nfd)
    first = rng.choice(['I', 'I', 'RS', 'RA', 'O', 'WS'])

    def armop(op):
        kk = new()
        return [op, str(kk), str(f)] + ([str(rng.choice([1, 2]))] if op in ('RA', 'WA') else []), kk
    a1, k1 = armop(first)
    ph0 = (['F', str(f)] if first in ('O', 'WS') else []) + a1
    bodies = []
    if rng.random() < 0.5:
        ph1 = ['CL', str(f)]                       # closed by another thread while the loop polls
    else:
        p = new()
        ph1 = ['P', str(p)]
        bodies.append((p, ['CL', str(f)]))     # closed by the loop thread
    second = rng.choice(['I', 'I', 'RS', 'RA', 'O', 'WS'] if rng.random() < 0.5 else [first if first in ('I', 'RS', 'RA') else 'I'])
    a2, k2 = armop(second)
    ph2 = ['RO', str(f)] + a2
    data = ['W', str(f)] * rng.choice([1, 2, 3])
    phases = [ph0, ph1] + [[] for _ in range(rng.randrange(0, 3))] + [ph2 + (data if rng.random() < 0.5 else [])] + [data, []]
    if rng.random() < 0.3:
        # once more: close the reused number and reuse it again
        a3, k3 = armop(rng.choice(['I', 'RS']))
        phases += [['CL', str(f)], [], ['RO', str(f)] + a3 + ['W', str(f)], []]
    toks = []
    for i, p in enumerate(phases):
        if i:
            toks.append('/')
        toks += p
    for kk, ops in bodies:
        toks += ['[', str(kk)] + ops + [']']
    return '%ss %d %s' % (rng.choice('lh'), nfd, ' '.join(toks))


def gen_owner_case(rng):
    """aimed at basic_io_device::close() / attach() / assign() for BOTH ownership modes: read, write and read+write waits (plain waits and
    composite operations) armed on a device that owns its descriptor or not (release() / attach()), then close() / re-attach / re-assign
    from a phase (another thread while the loop polls) or from a handler (loop thread): every armed handler must be told canceled before
    the loop sleeps again; afterwards the device is used again (a non-owning device keeps its descriptor after close())"""
    k = [0]

    def new():
        k[0] += 1
        return k[0]
    f = 0
    ph0 = []
    own = rng.choice(['own', 'RL', 'AT', 'RLAS'])
    if own == 'RL':
        ph0 += ['RL', '0']
    elif own == 'AT':
        ph0 += ['AT', '0']
    elif own == 'RLAS':
        ph0 += ['RL', '0', 'AS', '0']
    arms = []
    if rng.random() < 0.75:
        arms += [rng.choice(['I', 'I', 'RS', 'RA'])]
    if rng.random() < 0.6 or not arms:
        arms += [rng.choice(['O', 'WS', 'WA'])]
        ph0 += ['F', '0']
    pre = []
    for op in arms:
        pre += [op, str(new()), '0'] + (['2'] if op in ('RA', 'WA') else [])
    late_arm = rng.random() < 0.3
    if not late_arm:
        ph0 += pre
    closer = [rng.choice(['CL', 'CL', 'AT', 'AS' if own in ('RL', 'AT') else 'CL']), '0']
    bodies = []
    phases = [ph0]
    if late_arm:
        phases.append(pre)                       # armed from another thread while the loop polls
    if rng.random() < 0.5:
        phases.append(closer)
    else:
        p = new()
        phases.append(['P', str(p)])
        bodies.append((p, closer))
    phases.append([])
    # use the device again: a non-owning device still has its descriptor after close(); an owning one gets a reused number
    again = [rng.choice(['I', 'RS']), str(new()), '0', 'W', '0']
    if own == 'own' or (own == 'RLAS' and closer[0] == 'CL'):
        phases.append(['RO', '0'] + again)
    else:
        phases.append((['D', '0'] if rng.random() < 0.5 else []) + again)
    phases += [[], [closer[0], '0'], []]
    toks = []
    for i, p in enumerate(phases):
        if i:
            toks.append('/')
        toks += p
    for kk, ops in bodies:
        toks += ['[', str(kk)] + ops + [']']
    return '%ss 1 %s' % (rng.choice('lh'), ' '.join(toks))


def gen_timerobj_case(rng):
    """aimed at deadline_timer OBJECT state (event_id_): a handler re-arms its own timer object - from a fired and from a cancelled completion
    (periodic / watchdog pattern) - and a later cancel() / re-arm follows; cancel() while the wait is outstanding must deliver `canceled`.
    The restart pattern cancel(); async_wait() issued before the cancelled handler has run is finding 3 and is generated only in mode t."""
    k = [0]

    def new():
        k[0] += 1
        return k[0]
    nobj = rng.choice([1, 1, 2])
    d0 = rng.choice([5, 10, 20])
    phases, bodies = [[]], []
    chains = []
    for ob in range(nobj):
        first = new()
        phases[0] += ['TO', str(first), str(ob), str(d0 + ob)]
        cur = first
        # object 1 (if any) has no re-arming handlers: it is restarted from outside, two phases after a cancel
        for _ in range(rng.randrange(1, 4) if ob == 0 else 0):
            nxt = new()
            bodies.append((cur, ['TO', str(nxt), str(ob), str(rng.choice([5, 10, 10, 20]))]))
            cur = nxt
        chains.append(cur)
    for _ in range(rng.randrange(2, 8)):
        r = rng.random()
        if r < 0.35:
            phases.append([])
        elif r < 0.75:
            phases.append(['CO', str(rng.randrange(nobj))] + (['A', str(rng.choice([1, 3]))] if rng.random() < 0.2 else []))
        elif r < 0.85:
            phases.append(['A', str(rng.choice([3, 7, 12]))])
        else:
            # re-arm from outside in a phase of its own: the previous wait of the object has completed by then or is still outstanding
            # (then this is a double arm, mode d only) - keep it legal: only after a cancel two phases earlier
            if len(phases) >= 2 and phases[-1] == [] and phases[-2][:2] == ['CO', '1']:
                ob = 1
                phases.append(['TO', str(new()), str(ob), str(rng.choice([5, 10]))])
            else:
                phases.append([])
    phases += [[], []]
    toks = []
    for i, p in enumerate(phases):
        if i:
            toks.append('/')
        toks += p
    for kk, ops in bodies:
        toks += ['[', str(kk)] + ops + [']']
    return '%ss 1 %s' % (rng.choice('lh'), ' '.join(toks))


def gen_pool_case(rng):
    n = rng.randrange(1, 14)
    toks = []
    k = 0
    posted, gates_closed, stopped = [], [], False
    # a third of the scripts call stop() at any time, also while a gate job is running (stop() then blocks until the gate opens)
    # and go on posting / cancelling / opening gates afterwards; the others stop only while the worker is idle, or never
    wild = rng.random() < 0.35
    for _ in range(n):
        r = rng.random()
        if r < 0.5 or not posted:
            k += 1
            kind = rng.choice([0, 0, 0, 1, 2, 3, 3])
            toks += ['P', str(k), str(kind)]
            posted.append(k)
            if kind == 3:
                gates_closed.append(k)
        elif r < 0.8:
            toks += ['C', str(rng.choice(posted + [k + 5]))]
        elif r < (0.9 if wild else 0.95):
            g = rng.choice(gates_closed) if gates_closed and rng.random() < 0.8 else rng.choice(posted)
            toks += ['G', str(g)]
            if g in gates_closed:
                gates_closed.remove(g)
        elif (wild or not gates_closed) and (not stopped or rng.random() < 0.2):
            toks += ['S']
            stopped = True
    return 'pool ' + ' '.join(toks)


def gen_pool_stop_case(rng):
    """aimed at stop(): jobs queued behind a running (gate) job when stop() is called, a throwing job right before it, posts and
    cancels after stop(), the gate opened after stop()"""
    toks, k = [], 0
    for _ in range(rng.randrange(0, 3)):
        k += 1
        toks += ['P', str(k), str(rng.choice([0, 1, 2]))]
    gate = None
    if rng.random() < 0.8:
        k += 1
        gate = k
        toks += ['P', str(k), '3']
        for _ in range(rng.randrange(0, 4)):
            k += 1
            toks += ['P', str(k), str(rng.choice([0, 0, 1, 2, 3]))]
        if rng.random() < 0.3:
            toks += ['C', str(rng.randrange(1, k + 1))]
        if rng.random() < 0.25:
            toks += ['G', str(gate)]
    toks += ['S']
    for _ in range(rng.randrange(0, 4)):
        r = rng.random()
        if r < 0.45:
            k += 1
            toks += ['P', str(k), str(rng.choice([0, 1, 3]))]
        elif r < 0.7:
            toks += ['C', str(rng.randrange(1, k + 2))]
        elif r < 0.9 and gate:
            toks += ['G', str(gate)]
        else:
            toks += ['S']
    return 'pool ' + ' '.join(toks)


def gen_cases(ctx):
    rng = ctx.rng
    cases = []
    for _ in range(ctx.scale(300, 3000)):
        cases.append(gen_pool_case(rng))
    for _ in range(ctx.scale(200, 2000)):
        cases.append(gen_pool_stop_case(rng))
    for i in range(ctx.scale(3, 20)):
        cases.append('pstress %d %d %d %d' % (rng.randrange(1 << 30), rng.choice([1, 2, 4]), rng.choice([2, 3, 4]), ctx.scale(150, 600)))
    for i in range(ctx.scale(6, 40)):
        cases.append('pstop %d %d %d %d' % (rng.randrange(1 << 30), rng.choice([1, 2, 4]), rng.choice([2, 3, 4]), ctx.scale(100, 400)))
    for i in range(ctx.scale(6, 60)):
        cases.append('lstress %d %s %d %d' % (rng.randrange(1 << 30), 'eps'[i % 3], rng.choice([2, 3, 4]), ctx.scale(400, 2000)))
    for _ in range(ctx.scale(150, 3000)):
        c = gen_timer_case(rng)
        for r in 'eps':
            cases.append('loop %s %s' % (r, c))
    for _ in range(ctx.scale(120, 2000)):
        c = gen_reuse_case(rng)
        for r in 'eps':
            cases.append('loop %s %s' % (r, c))
    for _ in range(ctx.scale(150, 2000)):
        cases.append('loop %s %s' % (rng.choice('eps'), gen_timerobj_case(rng)))
    for _ in range(ctx.scale(120, 2000)):
        c = gen_owner_case(rng)
        for r in 'eps':
            cases.append('loop %s %s' % (r, c))
    for _ in range(ctx.scale(100, 2000)):
        c = gen_spurious_case(rng)
        for r in 'eps':
            cases.append('loop %s %s' % (r, c))
    n = ctx.scale(1500, 30000)
    for _ in range(n):
        c = gen_loop_case(rng)
        # the same script under all three reactors
        parts = c.split(' ', 2)
        for r in 'eps':
            cases.append('loop %s %s' % (r, parts[2]))
    return cases


# ----------------------------------------------------------------------------------------------------
# property oracle: evaluated on the implementation's output only
# ----------------------------------------------------------------------------------------------------
def parse_list(s):
    return [] if s == '-' else s.split(',')


def oracle(case, out):
    c = case.split()
    op = c[0]
    if out.startswith('<crash') or out == '<missing>':
        return ('crash-' + op, 'harness died (crash, or the per-case watchdog fired) on or before this input: ' + out)
    if op == 'loop':
        return oracle_loop(c, out)
    if op == 'pool':
        return oracle_pool(c, out)
    if op == 'pstress':
        if out != 'pstress ok':
            return ('pool-stress-' + (out.split() + ['?', '?'])[1], 'concurrent post/cancel against the real thread_pool: ' + out)
        return None
    if op == 'pstop':
        if out != 'pstop ok':
            return ('pool-stop-stress-' + (out.split() + ['?', '?'])[1], 'stop() racing with post()/cancel() against the real thread_pool: ' + out)
        return None
    if op == 'lstress':
        if out != 'lstress ok':
            return ('loop-stress-' + (out.split() + ['?', '?'])[1], 'concurrent producers against a running io_service: ' + out)
        return None
    return ('bad-case', 'unknown case kind')


def oracle_pool(c, out):
    m = re.fullmatch(r'pool run=(\S+) cancel=(\S+) stop=(\S+) flags=(\S+)', out)
    if not m:
        return ('bad-output-pool', 'unexpected harness answer ' + out[:200])
    run, cres, flags = parse_list(m.group(1)), parse_list(m.group(2)), parse_list(m.group(4))
    nstop = None if m.group(3) == '-' else int(m.group(3))
    for f in flags:
        if f == 'HANG':
            return ('pool-hang', 'the worker did not take a queued job / did not come back after a job (an exception killed it?), or stop() '
                    'did not return after the running job had finished')
        if f == 'EARLYSTOP':
            return ('stop-returned-while-job-running', 'thread_pool::stop() returned although the body of a job was still running')
        return ('harness-' + f, 'harness problem ' + f)
    # what the script did, in order
    posted, stop_at, ops = {}, None, []
    i = 1
    while i < len(c):
        if c[i] == 'P':
            if c[i + 1] not in posted:
                posted[c[i + 1]] = (len(ops), int(c[i + 2]))
            ops.append(('P', c[i + 1])); i += 3
        elif c[i] in ('C', 'G'):
            ops.append((c[i], c[i + 1])); i += 2
        else:
            if stop_at is None:
                stop_at = len(ops)
            ops.append(('S', None)); i += 1
    if (stop_at is None) != (nstop is None):
        return ('bad-output-pool', 'stop count does not fit the script: ' + out[:200])
    cnt = {}
    for k in run:
        cnt[k] = cnt.get(k, 0) + 1
        if k not in posted:
            return ('unknown-job-ran', 'job %s ran but was never posted' % k)
        if cnt[k] > 1:
            return ('job-ran-twice', 'job %s ran more than once' % k)
    cancelled = set()
    for e in cres:
        k, r = e.split(':')
        if r == '1':
            if k in cancelled:
                return ('job-cancelled-twice', 'cancel returned true twice for job %s' % k)
            cancelled.add(k)
            if k in cnt:
                return ('cancelled-job-ran', 'cancel returned true for job %s but it ran' % k)
    if nstop is not None and len(run) > nstop:
        k = run[nstop]
        if posted[k][0] > stop_at:
            return ('job-ran-after-stop', 'job %s was posted after stop() had been called and ran' % k)
        return ('job-started-after-stop', 'job %s was still queued when stop() was called and was started afterwards' % k)
    # the job that was running (blocked in its gate) when stop() was called: jobs queued behind it need not run
    blocking = None
    if nstop:
        last = run[nstop - 1]
        opened = any(o == ('G', last) for o in ops[:stop_at])
        if posted[last][1] == 3 and not opened:
            blocking = last
    for k, (pos, kind) in posted.items():
        before_stop = stop_at is None or pos < stop_at
        must = before_stop and (blocking is None or pos <= posted[blocking][0])
        if must and k not in cancelled and k not in cnt:
            return ('job-never-ran', 'job %s was posted to a running pool with nothing blocking the worker, never cancelled, and never ran '
                    '(an exception escaping an earlier job must not stop the worker)' % k)
    return None


def oracle_loop(c, out):
    m = re.fullmatch(r'loop sub=(\S+) log=(\S+) cancels=(\S+) flags=(\S+) mode=\S+', out)
    if not m:
        return ('bad-output-loop', 'unexpected harness answer ' + out[:200])
    subs, log, cancels, flags = parse_list(m.group(1)), parse_list(m.group(2)), parse_list(m.group(3)), parse_list(m.group(4))
    special = c[2][2:3]
    for f in flags:
        if f == 'LOSTWAKE' and special == 'r':
            return (F1, 'the loop went to sleep for ever although a posted handler was queued: the interrupter pipe got the number of a '
                    'descriptor closed before the loop first ran and the deferred canceler of that descriptor unregistered the interrupter')
        if f.startswith('EXC') and special == 'q':
            return (F2, 'io_service::run() threw %s: a handler closed the descriptor in place while a deferred arm for it was still queued; '
                    'the arm then registered a closed descriptor with the select reactor' % f)
        if f == 'SLEPTPAST' and special == 'r':
            return (F1, 'the loop slept beyond the deadline of an armed timer: the interrupter pipe got the number of a descriptor closed before '
                    'the loop first ran and the deferred canceler of that descriptor unregistered the interrupter, so set_timer_event could not wake the loop')
        if f == 'SLEPTPAST':
            return ('timer-overslept', 'the loop went to sleep in the reactor for longer than the time left to the deadline of an armed timer '
                    '(poll timeout computed wrongly, or a timer armed as the new earliest while polling did not wake the loop)')
        if f == 'CLOSEPENDING':
            return ('close-did-not-cancel-waits', 'the loop went to sleep although handlers that were outstanding when their device was closed / '
                    're-attached / re-assigned had not been invoked: close() (also of a device that does not own its descriptor) must cancel the waits')
        if f == 'MISSEDREADY':
            return ('readable-armed-descriptor-not-reported', 'the loop went to sleep for ever although an open descriptor with unread input had a read '
                    'wait outstanding (the reactor did not register / report the descriptor - e.g. a stale cached mask for a reused descriptor number)')
        if f == 'LOSTWAKE':
            return ('lost-wakeup', 'the loop went to sleep for ever although a posted handler was waiting in the dispatch queue')
        if f == 'OVERRUN':
            return ('loop-runaway', 'more than 3000 handler invocations / 50000 operations for a script with a few dozen handlers: '
                    'handlers are being invoked again and again')
        if f == 'LIVELOCK':
            return ('loop-livelock', 'the loop kept polling without making progress (more than 20000 polls for one script)')
        if f.startswith('EXC'):
            return ('loop-exception', 'io_service::run() threw ' + f)
        return ('harness-' + f, 'harness problem ' + f)
    kinds = {}
    for s in subs:
        k, v = s.split(':')
        kinds[k] = v
    strict = c[2][1:2] == 's' and 'X' not in c
    cnt = {}
    last_t = 0
    for e in log:
        mm = re.fullmatch(r'(\d+):(\w+)(?:/(\d+))?@(\d+)', e)
        if not mm:
            return ('bad-output-loop', 'bad log entry ' + e)
        k, code, nbytes, t = mm.group(1), mm.group(2), mm.group(3), int(mm.group(4))
        if k not in kinds:
            return ('unknown-handler-ran', 'a handler ran that was never submitted: ' + e)
        cnt[k] = cnt.get(k, 0) + 1
        if cnt[k] > 1:
            return ('handler-ran-twice', 'handler %s was invoked more than once' % k)
        if t < last_t:
            return ('clock-backwards', 'log times decrease')
        last_t = t
        v = kinds[k]
        if v == 'pe':
            if code != 'can':
                return ('post-bad-code', 'handler %s posted with the code canceled completed with %s' % (k, code))
        elif v == 'p':
            if code != 'ok':
                return ('post-bad-code', 'posted handler %s completed with %s' % (k, code))
        elif v[0] == 't':
            if code == 'ok':
                if t < int(v[1:]):
                    return ('timer-early', 'timer handler %s ran with success at %d before its deadline %s' % (k, t, v[1:]))
            elif code != 'can':
                return ('timer-bad-code', 'timer handler %s completed with %s' % (k, code))
        elif v[0] in 'RW':
            # async_read / async_write of n bytes: success only with all n bytes, failure (eof, EPIPE, cancel, ...) with fewer
            want = int(v.split('.')[1])
            allowed = ('ok', 'can', 'self', 'sys9', 'eof') if v[0] == 'R' else ('ok', 'can', 'self', 'sys9', 'sys32')
            if code not in allowed or nbytes is None:
                return ('xfer-bad-code', 'async_%s handler %s completed with %s' % ('read' if v[0] == 'R' else 'write', k, e))
            if (code == 'ok') != (int(nbytes) == want) or int(nbytes) > want:
                return ('xfer-bad-count', 'async_%s of %d bytes: handler %s completed with %s and %s bytes' % ('read' if v[0] == 'R' else 'write', want, k, code, nbytes))
        elif v[0] == 'r':
            # async_read_some: data, end of file, cancel/close, the reactor's error, bad descriptor
            if code not in ('ok', 'can', 'self', 'sys9', 'eof'):
                return ('read-bad-code', 'async_read_some handler %s completed with %s' % (k, code))
        elif v[0] == 'w':
            if code not in ('ok', 'can', 'self', 'sys9', 'sys32'):
                return ('write-bad-code', 'async_write_some handler %s completed with %s' % (k, code))
        else:
            if code not in ('ok', 'can', 'self', 'sys9'):
                return ('io-bad-code', 'io handler %s completed with %s' % (k, code))
    # deadline_timer::cancel() issued while the wait was certainly outstanding (deadline in the future): the handler is told `canceled`
    codes = {}
    for e in log:
        codes[e.split(':')[0]] = e.split(':')[1].split('@')[0]
    for cn in cancels:
        k = cn.split('@')[0]
        if codes.get(k) != 'can' and special == 't':
            return (F3, 'deadline_timer restarted (cancel(); async_wait()) before the cancelled handler of the previous wait had run: that handler then '
                    'wiped the id of the NEW wait, cancel() of the new wait was a silent no-op and handler %s completed with %s' % (k, codes.get(k)))
        if codes.get(k) != 'can':
            return ('timer-cancel-ignored', 'deadline_timer::cancel() was called at %s while the wait of handler %s was outstanding (deadline in the future) '
                    'but the handler completed with %s instead of canceled' % (cn.split('@')[1], k, codes.get(k, 'nothing')))
    if strict:
        for k in kinds:
            if cnt.get(k, 0) != 1 and special == 'q':
                return (F2, 'handler %s (%s) was never invoked: a handler closed the descriptor in place while the deferred arm of %s was '
                        'still in the dispatch queue; the cancel overtook the arm, which then registered a closed descriptor' % (k, kinds[k], k))
            if cnt.get(k, 0) != 1:
                return ('handler-never-ran', 'handler %s (%s) was submitted but never invoked although the loop ran until idle and every '
                        'descriptor was cancelled at the end' % (k, kinds[k]))
    return None


def nontrivial(case, out):
    c = case.split()
    if c[0] == 'loop':
        m = re.search(r'log=(\S+)', out)
        return bool(m) and m.group(1) != '-' and m.group(1).count(',') >= 2
    if c[0] == 'pool':
        return 'C' in c and len(c) > 8
    return True


def classify(case, out):
    c = case.split()
    if c[0] == 'loop':
        feats = []
        if 'X' in c: feats.append('stop')
        if 'CL' in c: feats.append('close')
        if 'K' in c: feats.append('hup')
        if ':can@' in out: feats.append('canceled')
        if ':self@' in out: feats.append('selfail')
        if ':sys9@' in out: feats.append('ebadf')
        if ':eof@' in out: feats.append('eof')
        if ':sys32@' in out: feats.append('epipe')
        if ' RS ' in case or ' WS ' in case: feats.append('xfer')
        if ' RA ' in case or ' WA ' in case: feats.append('xferall')
        return 'loop:%s:%s:%s' % (c[1], c[2][1:2], '+'.join(feats) or 'plain')
    if c[0] == 'pool':
        return 'pool:' + (('stop-busy' if re.search(r'stop=[1-9]', out) and 'S' in c and c.index('S') < len(c) - 1 else 'stop') if 'S' in c else 'run') + (':cancel1' if ':1' in out else '') + (':exc' if re.search(r'P \d+ [12]', case) else '')
    return c[0]


def run(ctx):
    GEN['Gen_C17_loop']['src'] = gen_leaf_tu()      # lift again from the tree under test
    for pr in LEAF_PROBLEMS:
        ctx.broke('tie to source broken: ' + pr, 'checks/C17.py gen_leaf_tu: the statement structure around a lifted guard changed')
    errs = vlib.gen_coq(GEN)
    for n, e in errs:
        ctx.broke('translator cxx2v failed on %s (tie to source broken)' % n, e)
    res = vlib.coq_props('C17', extra_files=['C17/Link.v', 'C17/LinkReactor.v'])
    ctx.proof(res)
    ctx.coverage['trusted_base'] = [
        'Coq 8.16.1 kernel',
        'extraction: ExtrOcamlBasic only, OCaml 4.13.1',
        'tools/cxx2v.py + clang JSON AST on the lifted-leaf TU .work/C17/C17_leafs.cpp; checks/C17.py gen_leaf_tu (textual lifting of guard '
        'expressions, atom -> parameter table, rigid white-space-free statement templates around them)',
        'hand model of the control flow of booster/lib/aio/src/io_service.cpp (event_loop_impl), stream_socket.cpp (async_*_some, reader_some, '
        'writer_some) and src/thread_pool.cpp in coq/C17/Defs.v / CompDefs.v, tied by correspondence',
        'harness/C17_loop.cpp (virtual clock = interposed gettimeofday; interposed poll/epoll_wait/select that run script phases at the '
        'unlocked polling point, report one ready descriptor per poll and advance the virtual clock instead of sleeping; interposed writev so '
        'that the peer consumes what the library writes), harness/C17_pool.cpp (interposed pthread_join to see stop() reach its join), '
        'ocaml/C17_driver.ml, checks/C17.py (generators, oracle)',
        'booster::recursive_mutex / booster::mutex really serialise the critical sections (pthread)']
    ctx.assumptions = ['one step of the model = one critical section of the code (atomicity provided by data_mutex_ / mutex_)',
                       'API contract: at most one outstanding wait per (descriptor, direction); io_service::reset() only while no thread runs the loop',
                       'the OS reports readiness of a registered descriptor eventually and the self-pipe write makes the reactor return (model: woken bit)',
                       'progress theorems: queued_handler_runs_whatever_other_threads_do and due_timer_*_whatever_other_threads_do hold under arbitrary '
                       'interference by other threads except stop/reset (and the cancel of that timer); queued_handler_runs_in_next_run_one, '
                       'due_timer_queued_by_next_run_one, due_timer_fires_after_wakeup, cancel_io_invokes_*, running_pool_runs_every_queued_job_fifo are '
                       'for a loop thread / worker that is not disturbed during the run_one calls considered; the safety invariants hold for every interleaving']
    exe, err = vlib.build_harness('C17_loop', ['C17_loop.cpp', 'C17_pool.cpp'], extra=['-rdynamic'])
    if not exe:
        ctx.broke('harness build failed', err)
        return
    mexe, err = vlib.build_model('C17', 'C17_driver.ml', 'c17m')
    if not mexe:
        ctx.broke('model extraction/build failed', err)
    if ctx.replay_cases is not None:
        cases = ctx.replay_cases
    else:
        cases = vlib.corpus_cases('C17') + gen_cases(ctx)
    ctx.coverage['rule'] = (
        'cases are scripts. loop <reactor e|p|s> <pick l|h + mode s|d (+ r|q for the two known findings)> <nfd> phase0 / phase1 / ... '
        '[ k body ] ...: operations P post, T/U arm deadline_timer / raw timer (relative deadline, may be 0 or negative), CT cancel timer, '
        'I/O wait readable/writable on socketpair f (stream_socket::on_readable/on_writeable), RS/WS stream_socket::async_read_some/async_write_some '
        '(user handler checked for a positive byte count on success and 0 on failure), CF cancel, CL close, RO f a new socket that receives the '
        'descriptor NUMBER of the closed device f (dup2) is assigned to the device, RL/AT/AS f release() / attach() / assign() of the device (non-owning devices: '
        'close() cancels the waits and keeps the descriptor), TO k obj d / CO obj arm / cancel() the deadline_timer OBJECT obj '
        '(handlers may re-arm their own object; effective cancels are reported and must complete with canceled), W/R/F/D/K make the peer '
        'write / read / fill / drain / hang up, A advance the virtual clock, X stop (+reset and run again). Phase 0 runs before the loop '
        '(no reactor: deferred), phase i runs inside the i-th reactor poll (other-thread path: deferred + self-pipe wake-up), a body runs '
        'inside handler k (in-place path). Every random script is run under epoll, poll and select. Mode s scripts keep at most one '
        'outstanding wait per (descriptor,direction) and are checked for exactly-once; mode d scripts arm freely (double arms drop '
        'handlers) and scripts with X lose queued handlers in reset(): those are checked for at-most-once. pool <ops>: P post (normal, '
        'throwing std::exception, throwing int, gate), C cancel, G open gate, S stop (also while a gate job is running: stop() is then called '
        'from a helper thread and must not return before the gate opens; posts/cancels after it) against a real 1-worker thread_pool; pstress: real '
        'producer threads against 1..4 workers; pstop: the same with stop() called while the producers are posting. Non-trivial: a loop script in which at least 3 handlers ran; a pool script with a cancel '
        'and more than 2 operations; distinct = distinct case lines.')
    ctx.coverage['exhaustive'] = False
    ctx.coverage['reactors'] = ['epoll', 'poll', 'select']

    def canon_batch(line):
        # batch mode (pick letter a): run_one shuffles the events of one poll (randomize_events), so completions of
        # descriptor waits that are adjacent in the log and carry the same time are compared as a set
        m = re.fullmatch(r'(loop sub=(\S+) log=)(\S+)( cancels=\S+ flags=\S+ mode=a\S*)', line)
        if not m or m.group(3) == '-':
            return line
        io = set(x.split(':')[0] for x in m.group(2).split(',') if x.split(':')[1][0] in 'iorwRW') if m.group(2) != '-' else set()
        out, run = [], []
        for e in m.group(3).split(','):
            k, t = e.split(':')[0], e.split('@')[1]
            if k in io and (not run or run[-1][1] == t):
                run.append((e, t))
            else:
                out += sorted(x[0] for x in run)
                run = [(e, t)] if k in io else []
                if k not in io:
                    out.append(e)
        out += sorted(x[0] for x in run)
        return m.group(1) + ','.join(out) + m.group(4)

    def canon_case(c, a):
        a = canon_batch(a)
        # finding 1 replays: the model (faithful to the bookkeeping, which knows no descriptor numbers) does not lose the wake-up
        cc = c.split()
        if cc[0] == 'loop' and len(cc) > 2 and cc[2][2:3] == 'r':
            return a.replace('flags=LOSTWAKE', 'flags=-')
        return a
    vlib.differential(ctx, cases, exe, mexe, oracle, nontrivial, classify, canon_case=canon_case, canon_model=canon_batch)
