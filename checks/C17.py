"""C17 -- every scheduled handler runs exactly once: posts, timers, I/O waits, pool jobs."""
import os, re
import vlib

META = dict(
    property_id='C17',
    design_ref='DESIGN.md section 4, C17',
    technique=('Coq proof (invariants over all interleavings of lock-granularity steps of the event-loop bookkeeping and of the '
               'thread-pool queue) + extracted-model correspondence against the real io_service / thread_pool driven by scripts'),
    level_text=('Theorems in coq/C17/Props.v over an executable model of booster::aio::event_loop_impl at lock granularity (one step = one '
                'critical section; any list of steps = any interleaving of any number of threads): token conservation (each submitted '
                'handler is in exactly one of descriptor table / timer table / deferred setter / dispatch queue / being executed / log / '
                'dropped-by-API, once), hence at most once; exactly once at quiescence; completion codes (cancel => canceled, timer success '
                'only when clock >= deadline, bad descriptor => EBADF); no lost wake-up (the loop never blocks with work queued); handlers '
                'are only logged by the loop thread steps; thread pool: a job runs at most once, cancel returns true iff it removed a queued '
                'job which then never runs, an exception leaves the worker alive. The model is tied to the code by running the extracted '
                'model and the real io_service (epoll, poll and select reactors; deadline_timer, stream_socket/basic_io_device objects; '
                'virtual clock and interposed poll so that operations are issued before the loop runs, from handlers, and while the loop '
                'is polling) and the real thread_pool on the same generated scripts; the oracle checks exactly-once and the allowed codes '
                'on the implementation output alone.'),
    level_note=('Trusted: Coq kernel; extraction; the hand model of io_service.cpp/thread_pool.cpp (tied by correspondence only: the code is '
                'not loop-free integer code, so no cxx2v leaf functions); that booster::recursive_mutex makes the critical sections atomic; the '
                'kernel interfaces of the reactors; select_interrupter (exercised, not modelled beyond a woken bit). Real thread interleavings '
                'are only sampled (stress cases), the proof covers them at model level.'),
)

GEN = {}
F1 = 'lost-wakeup-interrupter-fd-number-reused'
F2 = 'inplace-cancel-overtakes-queued-arm'

FDOPS1 = ('CF', 'CL', 'W', 'R', 'F', 'D', 'K')


# ----------------------------------------------------------------------------------------------------
# script generator
# ----------------------------------------------------------------------------------------------------
class LoopGen:
    def __init__(self, rng, mode, allow_stop=False, allow_close=True, size=1.0, free=False, batch=False):
        self.rng, self.mode = rng, mode
        self.nfd = rng.choice([1, 2, 2, 3, 3, 4])
        # descriptor discipline (keeps generated scripts out of the input class of finding 2, docs/C17.md): a descriptor of
        # class A may be armed from a phase (deferred setter) and is cancelled/closed only from phases; a descriptor of
        # class B is armed only from handler bodies and may be cancelled/closed anywhere
        self.cls = [rng.choice('AB') for _ in range(self.nfd)]
        # one timer API per script: slot ids of set_timer_event are recycled (and pseudo-random), so a stale raw id could hit a
        # deadline_timer whose id the harness cannot see
        self.tmode = rng.choice('TU')
        self.batch = batch        # batch=True: handlers of descriptor waits have no bodies (their relative order is not fixed)
        self.free = free          # free=True: no discipline (finding-2 class allowed)
        self.k = 0
        self.bodies = []          # (k, ops)
        self.used = set()         # (f, dir) armed somewhere (chain-safe mode)
        self.timers = []
        self.allow_stop = allow_stop
        self.allow_close = allow_close and mode == 's'
        self.size = size

    def new(self):
        self.k += 1
        return self.k

    def maybe_body(self, k, depth, chain=None):
        if depth < 3 and self.rng.random() < (0.45 if depth == 0 else 0.3):
            ops = self.ops(self.rng.randrange(1, 4), depth + 1, chain)
            self.bodies.append((k, ops))
        elif chain is not None and depth < 4 and self.rng.random() < 0.5:
            # re-arm chain: the handler waits again on the same descriptor and direction
            self.bodies.append((k, self.arm(chain[0], chain[1], depth + 1, force=True)))

    def arm(self, f, d, depth, force=False):
        if not self.free and depth == 0 and self.cls[f] != 'A':
            return []
        if self.mode == 's' and not force:
            if (f, d) in self.used:
                return []
            self.used.add((f, d))
        k = self.new()
        out = ['I' if d == 'i' else 'O', str(k), str(f)]
        if not self.batch:
            self.maybe_body(k, depth, chain=(f, d))
        return out

    def ops(self, n, depth, chain=None):
        rng = self.rng
        out = []
        rearmed = False
        for _ in range(n):
            r = rng.random()
            f = rng.randrange(self.nfd)
            if r < 0.16:
                k = self.new(); out += [rng.choice(['P', 'P', 'P', 'PE', 'PI']), str(k)]; self.maybe_body(k, depth)
            elif r < 0.32:
                k = self.new()
                d = rng.choice([-5, 0, 0, 0, 1, 2, 5, 10, 10, 10, 37, 50])
                out += [self.tmode, str(k), str(d)]
                self.timers.append(k)
                self.maybe_body(k, depth)
            elif r < 0.40:
                if self.timers:
                    out += ['CT', str(rng.choice(self.timers))]
            elif r < 0.58:
                d = rng.choice('io')
                if chain is not None and not rearmed and self.mode == 's' and rng.random() < 0.5:
                    out += self.arm(chain[0], chain[1], depth, force=True); rearmed = True
                else:
                    out += self.arm(f, d, depth)
            elif r < 0.64:
                if self.free or depth == 0 or self.cls[f] == 'B':
                    out += ['CF', str(f)]
            elif r < 0.67:
                if self.allow_close and (self.free or depth == 0 or self.cls[f] == 'B'):
                    out += ['CL', str(f)]
            elif r < 0.77:
                out += ['W', str(f)]
            elif r < 0.81:
                out += ['R', str(f)]
            elif r < 0.85:
                out += ['F', str(f)]
            elif r < 0.89:
                out += ['D', str(f)]
            elif r < 0.91:
                out += ['K', str(f)]
            elif r < 0.97:
                out += ['A', str(rng.choice([1, 2, 5, 10, 10, 50]))]
            elif self.allow_stop:
                out += ['X']
        return out

    def script(self):
        rng = self.rng
        nph = rng.randrange(1, int(7 * self.size) + 1)
        phases = [self.ops(rng.randrange(0, int(5 * self.size) + 1), 0) for _ in range(nph)]
        toks = []
        for i, p in enumerate(phases):
            if i:
                toks.append('/')
            toks += p
        for k, ops in self.bodies:
            toks += ['[', str(k)] + ops + [']']
        return toks


def gen_loop_case(rng, reactor=None, mode=None, stop=None):
    mode = mode or ('s' if rng.random() < 0.75 else 'd')
    stop = (rng.random() < 0.15) if stop is None else stop
    batch = rng.random() < 0.25
    g = LoopGen(rng, mode, allow_stop=stop, size=rng.choice([0.5, 1.0, 1.0, 1.5]), batch=batch)
    if batch:
        g.nfd = rng.choice([2, 3, 4, 4, 6, 8])
        g.cls = [rng.choice('AB') for _ in range(g.nfd)]
    toks = g.script()
    reactor = reactor or rng.choice('eps')
    pick = 'a' if batch else rng.choice('lh')
    return 'loop %s %s%s %d %s' % (reactor, pick, mode, g.nfd, ' '.join(toks))


def gen_pool_case(rng):
    n = rng.randrange(1, 14)
    toks = []
    k = 0
    posted, gates_closed, stopped = [], [], False
    for _ in range(n):
        r = rng.random()
        if r < 0.5 or not posted:
            k += 1
            kind = rng.choice([0, 0, 0, 1, 2, 3, 3])
            toks += ['P', str(k), str(kind)]
            posted.append(k)
            if kind == 3:
                gates_closed.append(k)
        elif r < 0.8:
            toks += ['C', str(rng.choice(posted + [k + 5]))]
        elif r < 0.95:
            g = rng.choice(gates_closed) if gates_closed and rng.random() < 0.8 else rng.choice(posted)
            toks += ['G', str(g)]
            if g in gates_closed:
                gates_closed.remove(g)
        elif not gates_closed and not stopped:
            # stop only while no gate can be blocking the worker (stop() joins the worker)
            toks += ['S']
            stopped = True
    return 'pool ' + ' '.join(toks)


def gen_cases(ctx):
    rng = ctx.rng
    cases = []
    for _ in range(ctx.scale(300, 3000)):
        cases.append(gen_pool_case(rng))
    for i in range(ctx.scale(3, 20)):
        cases.append('pstress %d %d %d %d' % (rng.randrange(1 << 30), rng.choice([1, 2, 4]), rng.choice([2, 3, 4]), ctx.scale(150, 600)))
    for i in range(ctx.scale(6, 60)):
        cases.append('lstress %d %s %d %d' % (rng.randrange(1 << 30), 'eps'[i % 3], rng.choice([2, 3, 4]), ctx.scale(400, 2000)))
    n = ctx.scale(1500, 30000)
    for _ in range(n):
        c = gen_loop_case(rng)
        # the same script under all three reactors
        parts = c.split(' ', 2)
        for r in 'eps':
            cases.append('loop %s %s' % (r, parts[2]))
    return cases


# ----------------------------------------------------------------------------------------------------
# property oracle: evaluated on the implementation's output only
# ----------------------------------------------------------------------------------------------------
def parse_list(s):
    return [] if s == '-' else s.split(',')


def oracle(case, out):
    c = case.split()
    op = c[0]
    if out.startswith('<crash') or out == '<missing>':
        return ('crash-' + op, 'harness died (crash, or the per-case watchdog fired) on or before this input: ' + out)
    if op == 'loop':
        return oracle_loop(c, out)
    if op == 'pool':
        return oracle_pool(c, out)
    if op == 'pstress':
        if out != 'pstress ok':
            return ('pool-stress-' + (out.split() + ['?', '?'])[1], 'concurrent post/cancel against the real thread_pool: ' + out)
        return None
    if op == 'lstress':
        if out != 'lstress ok':
            return ('loop-stress-' + (out.split() + ['?', '?'])[1], 'concurrent producers against a running io_service: ' + out)
        return None
    return ('bad-case', 'unknown case kind')


def oracle_pool(c, out):
    m = re.fullmatch(r'pool run=(\S+) cancel=(\S+) flags=(\S+)', out)
    if not m:
        return ('bad-output-pool', 'unexpected harness answer ' + out[:200])
    run, cres, flags = parse_list(m.group(1)), parse_list(m.group(2)), parse_list(m.group(3))
    for f in flags:
        if f == 'HANG':
            return ('pool-hang', 'the worker did not take a queued job / did not come back after a job (an exception killed it?)')
        return ('harness-' + f, 'harness problem ' + f)
    # what the script did, in order
    posted, stop_at, ops = {}, None, []
    i = 1
    while i < len(c):
        if c[i] == 'P':
            if c[i + 1] not in posted:
                posted[c[i + 1]] = (len(ops), int(c[i + 2]))
            ops.append(('P', c[i + 1])); i += 3
        elif c[i] in ('C', 'G'):
            ops.append((c[i], c[i + 1])); i += 2
        else:
            if stop_at is None:
                stop_at = len(ops)
            ops.append(('S', None)); i += 1
    cnt = {}
    for k in run:
        cnt[k] = cnt.get(k, 0) + 1
        if k not in posted:
            return ('unknown-job-ran', 'job %s ran but was never posted' % k)
        if cnt[k] > 1:
            return ('job-ran-twice', 'job %s ran more than once' % k)
    cancelled = set()
    for e in cres:
        k, r = e.split(':')
        if r == '1':
            if k in cancelled:
                return ('job-cancelled-twice', 'cancel returned true twice for job %s' % k)
            cancelled.add(k)
            if k in cnt:
                return ('cancelled-job-ran', 'cancel returned true for job %s but it ran' % k)
    for k, (pos, kind) in posted.items():
        before_stop = stop_at is None or pos < stop_at
        if before_stop and k not in cancelled and k not in cnt:
            return ('job-never-ran', 'job %s was posted to a running pool, never cancelled, and never ran (an exception escaping '
                    'an earlier job must not stop the worker)' % k)
        if not before_stop and k in cnt:
            return ('job-ran-after-stop', 'job %s was posted after stop() returned and ran' % k)
    return None


def oracle_loop(c, out):
    m = re.fullmatch(r'loop sub=(\S+) log=(\S+) flags=(\S+) mode=\S+', out)
    if not m:
        return ('bad-output-loop', 'unexpected harness answer ' + out[:200])
    subs, log, flags = parse_list(m.group(1)), parse_list(m.group(2)), parse_list(m.group(3))
    special = c[2][2:3]
    for f in flags:
        if f == 'LOSTWAKE' and special == 'r':
            return (F1, 'the loop went to sleep for ever although a posted handler was queued: the interrupter pipe got the number of a '
                    'descriptor closed before the loop first ran and the deferred canceler of that descriptor unregistered the interrupter')
        if f.startswith('EXC') and special == 'q':
            return (F2, 'io_service::run() threw %s: a handler closed the descriptor in place while a deferred arm for it was still queued; '
                    'the arm then registered a closed descriptor with the select reactor' % f)
        if f == 'LOSTWAKE':
            return ('lost-wakeup', 'the loop went to sleep for ever although a posted handler was waiting in the dispatch queue')
        if f == 'OVERRUN':
            return ('loop-runaway', 'more than 3000 handler invocations / 50000 operations for a script with a few dozen handlers: '
                    'handlers are being invoked again and again')
        if f == 'LIVELOCK':
            return ('loop-livelock', 'the loop kept polling without making progress (more than 20000 polls for one script)')
        if f.startswith('EXC'):
            return ('loop-exception', 'io_service::run() threw ' + f)
        return ('harness-' + f, 'harness problem ' + f)
    kinds = {}
    for s in subs:
        k, v = s.split(':')
        kinds[k] = v
    strict = c[2][1:2] == 's' and 'X' not in c
    cnt = {}
    last_t = 0
    for e in log:
        mm = re.fullmatch(r'(\d+):(\w+)@(\d+)', e)
        if not mm:
            return ('bad-output-loop', 'bad log entry ' + e)
        k, code, t = mm.group(1), mm.group(2), int(mm.group(3))
        if k not in kinds:
            return ('unknown-handler-ran', 'a handler ran that was never submitted: ' + e)
        cnt[k] = cnt.get(k, 0) + 1
        if cnt[k] > 1:
            return ('handler-ran-twice', 'handler %s was invoked more than once' % k)
        if t < last_t:
            return ('clock-backwards', 'log times decrease')
        last_t = t
        v = kinds[k]
        if v == 'pe':
            if code != 'can':
                return ('post-bad-code', 'handler %s posted with the code canceled completed with %s' % (k, code))
        elif v == 'p':
            if code != 'ok':
                return ('post-bad-code', 'posted handler %s completed with %s' % (k, code))
        elif v[0] == 't':
            if code == 'ok':
                if t < int(v[1:]):
                    return ('timer-early', 'timer handler %s ran with success at %d before its deadline %s' % (k, t, v[1:]))
            elif code != 'can':
                return ('timer-bad-code', 'timer handler %s completed with %s' % (k, code))
        else:
            if code not in ('ok', 'can', 'self', 'sys9'):
                return ('io-bad-code', 'io handler %s completed with %s' % (k, code))
    if strict:
        for k in kinds:
            if cnt.get(k, 0) != 1 and special == 'q':
                return (F2, 'handler %s (%s) was never invoked: a handler closed the descriptor in place while the deferred arm of %s was '
                        'still in the dispatch queue; the cancel overtook the arm, which then registered a closed descriptor' % (k, kinds[k], k))
            if cnt.get(k, 0) != 1:
                return ('handler-never-ran', 'handler %s (%s) was submitted but never invoked although the loop ran until idle and every '
                        'descriptor was cancelled at the end' % (k, kinds[k]))
    return None


def nontrivial(case, out):
    c = case.split()
    if c[0] == 'loop':
        m = re.search(r'log=(\S+)', out)
        return bool(m) and m.group(1) != '-' and m.group(1).count(',') >= 2
    if c[0] == 'pool':
        return 'C' in c and len(c) > 8
    return True


def classify(case, out):
    c = case.split()
    if c[0] == 'loop':
        feats = []
        if 'X' in c: feats.append('stop')
        if 'CL' in c: feats.append('close')
        if 'K' in c: feats.append('hup')
        if ':can@' in out: feats.append('canceled')
        if ':self@' in out: feats.append('selfail')
        if ':sys9@' in out: feats.append('ebadf')
        return 'loop:%s:%s:%s' % (c[1], c[2][1:2], '+'.join(feats) or 'plain')
    if c[0] == 'pool':
        return 'pool:' + ('stop' if 'S' in c else 'run') + (':cancel1' if ':1' in out else '') + (':exc' if re.search(r'P \d+ [12]', case) else '')
    return c[0]


def run(ctx):
    errs = vlib.gen_coq(GEN)
    for n, e in errs:
        ctx.broke('translator cxx2v failed on %s (tie to source broken)' % n, e)
    res = vlib.coq_props('C17')
    ctx.proof(res)
    ctx.coverage['trusted_base'] = [
        'Coq 8.16.1 kernel',
        'extraction: ExtrOcamlBasic only, OCaml 4.13.1',
        'hand model of booster/lib/aio/src/io_service.cpp (event_loop_impl) and src/thread_pool.cpp in coq/C17/Defs.v, tied by correspondence only',
        'harness/C17_loop.cpp (virtual clock = interposed gettimeofday; interposed poll/epoll_wait/select that run script phases at the '
        'unlocked polling point, report one ready descriptor per poll and advance the virtual clock instead of sleeping), harness/C17_pool.cpp, '
        'ocaml/C17_driver.ml, checks/C17.py (generators, oracle)',
        'booster::recursive_mutex / booster::mutex really serialise the critical sections (pthread)']
    ctx.assumptions = ['one step of the model = one critical section of the code (atomicity provided by data_mutex_ / mutex_)',
                       'API contract: at most one outstanding wait per (descriptor, direction); io_service::reset() only while no thread runs the loop',
                       'the OS reports readiness of a registered descriptor eventually and the self-pipe write makes the reactor return (model: woken bit)']
    exe, err = vlib.build_harness('C17_loop', ['C17_loop.cpp', 'C17_pool.cpp'], extra=['-rdynamic'])
    if not exe:
        ctx.broke('harness build failed', err)
        return
    mexe, err = vlib.build_model('C17', 'C17_driver.ml', 'c17m')
    if not mexe:
        ctx.broke('model extraction/build failed', err)
    if ctx.replay_cases is not None:
        cases = ctx.replay_cases
    else:
        cases = vlib.corpus_cases('C17') + gen_cases(ctx)
    ctx.coverage['rule'] = (
        'cases are scripts. loop <reactor e|p|s> <pick l|h + mode s|d (+ r|q for the two known findings)> <nfd> phase0 / phase1 / ... '
        '[ k body ] ...: operations P post, T/U arm deadline_timer / raw timer (relative deadline, may be 0 or negative), CT cancel timer, '
        'I/O wait readable/writable on socketpair f (stream_socket::on_readable/on_writeable), CF cancel, CL close, W/R/F/D/K make the peer '
        'write / read / fill / drain / hang up, A advance the virtual clock, X stop (+reset and run again). Phase 0 runs before the loop '
        '(no reactor: deferred), phase i runs inside the i-th reactor poll (other-thread path: deferred + self-pipe wake-up), a body runs '
        'inside handler k (in-place path). Every random script is run under epoll, poll and select. Mode s scripts keep at most one '
        'outstanding wait per (descriptor,direction) and are checked for exactly-once; mode d scripts arm freely (double arms drop '
        'handlers) and scripts with X lose queued handlers in reset(): those are checked for at-most-once. pool <ops>: P post (normal, '
        'throwing std::exception, throwing int, gate), C cancel, G open gate, S stop against a real 1-worker thread_pool; pstress: real '
        'producer threads against 1..4 workers. Non-trivial: a loop script in which at least 3 handlers ran; a pool script with a cancel '
        'and more than 2 operations; distinct = distinct case lines.')
    ctx.coverage['exhaustive'] = False
    ctx.coverage['reactors'] = ['epoll', 'poll', 'select']

    def canon_batch(line):
        # batch mode (pick letter a): run_one shuffles the events of one poll (randomize_events), so completions of
        # descriptor waits that are adjacent in the log and carry the same time are compared as a set
        m = re.fullmatch(r'(loop sub=(\S+) log=)(\S+)( flags=\S+ mode=a\S*)', line)
        if not m or m.group(3) == '-':
            return line
        io = set(x.split(':')[0] for x in m.group(2).split(',') if x.split(':')[1][0] in 'io') if m.group(2) != '-' else set()
        out, run = [], []
        for e in m.group(3).split(','):
            k, t = e.split(':')[0], e.split('@')[1]
            if k in io and (not run or run[-1][1] == t):
                run.append((e, t))
            else:
                out += sorted(x[0] for x in run)
                run = [(e, t)] if k in io else []
                if k not in io:
                    out.append(e)
        out += sorted(x[0] for x in run)
        return m.group(1) + ','.join(out) + m.group(4)

    def canon_case(c, a):
        a = canon_batch(a)
        # finding 1 replays: the model (faithful to the bookkeeping, which knows no descriptor numbers) does not lose the wake-up
        if c.split()[2][2:3] == 'r':
            return a.replace('flags=LOSTWAKE', 'flags=-')
        return a
    vlib.differential(ctx, cases, exe, mexe, oracle, nontrivial, classify, canon_case=canon_case, canon_model=canon_batch)
