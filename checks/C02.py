"""C02 -- no request, however malformed, crashes the service or disturbs other requests."""
import os, re, json, struct, time, subprocess, hashlib, concurrent.futures
import vlib
from fe_common import *

META = dict(
    property_id='C02',
    design_ref='DESIGN.md section 4, C02',
    technique=('Coq proof about a total executable model of the error side of the HTTP / SCGI / FastCGI readers and the common content '
               'stage + extracted-model correspondence against a real in-process cppcms::service built with ASan+UBSan, fed malformed, '
               'truncated, reset and random byte streams with well-formed probe requests on other connections'),
    level_text=('Theorems in coq/C02/Props.v about the executable model of http_parser.h/http_api.cpp (header state machine, request line, '
                'header glue, 16384-byte header limit per read), scgi_api.cpp (netstring header validation, key/value scan with bounds-checked '
                'reads), fastcgi_api.cpp (record state machine, read_len/parse_pairs index arithmetic with uint32 casts, PARAMS/STDIN framing) '
                'and the content stage (on_headers_ready/on_content_start: declared length as saturating signed 64-bit atoll, <0 -> 400, '
                'limits -> 413; handler / filter set-up / on_error counters): for every byte string and segmentation each reader terminates '
                'without fuel exhaustion in exactly one terminal observation; handler, on_error are called at most once per request and never '
                'both; error outcomes imply zero handler calls; negative and oversized declared lengths are rejected with 400 / 413; every '
                'modelled buffer index of the HTTP, SCGI and FastCGI readers is in bounds for every input (no input reaches an unsafe index of '
                'the model: a SCGI header block whose last string is not NUL-terminated is a protocol violation before the strlen scan, an empty '
                'FastCGI GET_VALUES body returns before front() is taken and is answered by an empty GET_VALUES_RESULT); FastCGI records of '
                'another version close the connection, unknown record types are skipped, unknown roles are answered and the connection goes on; '
                'for streams of at most 16384 bytes the outcome of an HTTP connection is independent of the segmentation into reads; '
                'the open-addressing table behind connection::env_ (private/string_map.h, own model SMapDefs.v: linear probing, growth, rehash over the '
                'chain, clear) keeps its load factor at most 1/2 for every sequence of add/clear, so add never loops, get of any name - present or '
                'absent - ends within data_.size() probes, get answers exactly the first entry of that name in insertion order into the current '
                'table (every growth reverses that order), a walk lists every entry once, and every key/value string of the table lies in a live '
                'allocation of the string_pool made since the last reset; growth test, sizes, probe start/step and the hash are the expressions '
                'of the current source (cxx2v Link lemmas); the multipart end-of-body decision of request::on_content_progress as a function of the '
                'parser results (served only after eof, anything else 400/413) and the membership of an HTTP connection in the time-out watchdog '
                '(a connection waiting for request headers is always a member), both tied by rigid statement matches. '
                'The model is tied to the code by running the extracted model and the real service (sanitizer build) on the same streams and '
                'comparing reply classes and application callback counters; an independent oracle checks survival, absence of sanitizer '
                'reports, probe answers, at-most-once delivery and the repaired behaviour (unterminated SCGI block refused, content-less '
                'GET_VALUES answered) on the implementation output alone.'),
    level_note=('Trusted: Coq kernel; hand transcription of the readers (tied by correspondence; separator/token characters by cxx2v); hand '
                'transcription of the loops of string_map (tied by a direct harness on the real header, slot positions and chain order compared, '
                'and by a statement-structure match of add/insert/get/clear/operator==/calc_hash in checks/C02.py; the integer leafs by cxx2v); '
                'the string_pool model is the one of C01 (its correspondence is checked there); '
                'ExtrOcamlBasic extraction; harness/C02_service.cpp (accept/close interposition, echo and upload applications); kernel socket '
                'behaviour; ASan/UBSan as the detector of memory-unsafe operations in the compiled code (explored inputs only). Not modelled: '
                'multipart parser (C12), response formatting (C03), allocation failure, timeouts/watchdog, socket errors (a peer reset racing '
                'with http::process_request is exercised by about 320 abortive-close cases per quick run and judged by the oracle only: '
                'timing dependent, detected with high probability, not with certainty).'),
)

SMAP_LEAFS = ['c02_grow', 'c02_newsize', 'c02_ins_start', 'c02_ins_next', 'c02_get_start', 'c02_get_next', 'c02_update_state']
SMAP_TU = os.path.join(vlib.WORK, 'C02', 'C02_smap_leafs.cpp')
SMAP_TU_PROBLEMS = []


def smap_leaf_tu():
    """private/string_map.h (class string_map, the `#elif 1` variant that is compiled) is pointer / std::vector code with loops, outside
    the subset of tools/cxx2v.py.  Its integer leafs - the growth test of add(), the size of the new table, the initial sizes of the
    constructor and of clear(), the start and step expressions of the two probe loops - and string_hash::update_state /
    initial_state of private/hash_map.h are lifted textually from the CURRENT source into a tiny TU (regenerated on every run) and
    translated by cxx2v; coq/C02/Link.v proves them equal to the leafs of the model (coq/C02/SMapDefs.v).  The statements AROUND the
    lifted expressions (the loops, the rehash walk over the chain, operator== = hash and strcmp, calc_hash = fold of update_state,
    the null-key test) are matched against the statement structure the model was written for; a member function that no longer
    has that structure is left out of the TU, so that the translator reports a broken tie."""
    os.makedirs(os.path.dirname(SMAP_TU), exist_ok=True)
    del SMAP_TU_PROBLEMS[:]
    try:
        src = open(os.path.join(vlib.REPO, 'private', 'string_map.h')).read()
        hsrc = open(os.path.join(vlib.REPO, 'private', 'hash_map.h')).read()
    except OSError as e:
        src = hsrc = ''
        SMAP_TU_PROBLEMS.append(str(e))

    def norm(t):
        t = re.sub(r'//[^\n]*', '', t)
        return ' '.join(re.sub(r'/\*.*?\*/', '', t, flags=re.S).split())
    m = re.search(r'#elif 1\b(.*?)#else', src, re.S)
    active = norm(m.group(1)) if m else ''
    head = norm(src.split('#if 0')[0]) if '#if 0' in src else ''
    E = r'([^;{}]*?)'
    pats = dict(
        ctor=r'string_map\(\) ?\{ ?data_\.resize\((\d+)\); ?total_ ?= ?0; ?first_ ?= ?-1; ?\}',
        add=(r'void add\(char const \*key, ?char const \*value\) ?\{ ?entry new_entry\(key, ?value\); ?if ?\(' + E + r'\) ?\{ ?int new_first ?= ?-1; ?'
             r'std::vector<entry> new_data\(' + E + r'\); ?for ?\(iterator p ?= ?begin\(\), ?e ?= ?end\(\); ?p ?!= ?e; ?\+\+p\) ?\{ ?insert\(new_data, ?\*p, ?new_first\); ?\} ?'
             r'first_ ?= ?new_first; ?data_\.swap\(new_data\); ?\} ?insert\(data_, ?new_entry, ?first_\); ?total_\+\+; ?\}'),
        insert=(r'static void insert\(std::vector<entry> ?&d, ?entry const ?&e, ?int ?&first\) ?\{ ?int pos ?= ?' + E + r'; ?while ?\(d\[pos\]\.key\) ?pos ?= ?' + E +
                r'; ?d\[pos\] ?= ?e; ?d\[pos\]\.next_index ?= ?first; ?first ?= ?pos; ?\}'),
        get=(r'char const \*get\(char const \*ckey\) ?\{ ?entry e\(ckey\); ?int pos ?= ?' + E + r'; ?while ?\(data_\[pos\]\.key ?&& ?!\(data_\[pos\] ?== ?e\)\) ?pos ?= ?' + E +
             r'; ?if ?\(data_\[pos\]\.key ?== ?0\) ?return 0; ?return data_\[pos\]\.value; ?\}'),
        clear=r'void clear\(\) ?\{ ?data_\.clear\(\); ?data_\.resize\((\d+)\); ?total_ ?= ?0; ?first_ ?= ?-1; ?\}',
        begin_end=r'iterator begin\(\) ?\{ ?return iterator\(data_, ?first_\); ?\} ?iterator end\(\) ?\{ ?return iterator\(data_, ?-1\); ?\}',
        increment=r'void increment\(\) ?\{ ?if ?\(current_ ?!= ?-1\) ?\{ ?current_ ?= ?\(\*d\)\[current_\]\.next_index; ?\} ?\}',
        get_safe=r'char const \*get_safe\(char const \*key\) ?\{ ?char const \*value ?= ?get\(key\); ?if ?\(value\) ?return value; ?return ""; ?\}',
    )
    hpats = dict(
        entry_ctor=r'entry\(char const \*k, ?char const \*v ?= ?""\) ?: ?key\(k\), ?value\(v\), ?hash\(calc_hash\(k\)\), ?next_index\(0\) ?\{ ?\}',
        entry_eq=r'bool operator==\(entry const ?&other\) const ?\{ ?return hash ?== ?other\.hash ?&& ?strcmp\(key, ?other\.key\) ?== ?0; ?\}',
        calc_hash=(r'static uint32_t calc_hash\(char const \*key\) ?\{ ?uint32_t state ?= ?cppcms::impl::string_hash::initial_state; ?char const \*s ?= ?key; ?'
                   r'while ?\(\*s\) ?\{ ?state ?= ?cppcms::impl::string_hash::update_state\(state, ?\*s\+\+\); ?\} ?return state; ?\}'),
    )
    got = {}
    for n, pat in pats.items():
        got[n] = re.search(pat, active)
    for n, pat in hpats.items():
        got[n] = re.search(pat, head)
    for n in got:
        if not got[n]:
            SMAP_TU_PROBLEMS.append('private/string_map.h: `%s` no longer has the statement structure the model (coq/C02/SMapDefs.v) was written for' % n)

    def expr(t, allowed):
        t = t.replace('data_.size()', 'dsize').replace('d.size()', 'dsize').replace('total_', 'total').replace('e.hash', 'ehash')
        if re.search(r'[^\w\s<>=!+\-*/%()&|^~]', t) or any(w not in allowed and not w.isdigit() for w in re.findall(r'[A-Za-z_]\w*|\d+', t)):
            SMAP_TU_PROBLEMS.append('private/string_map.h: expression outside the translatable subset: ' + t)
            return None
        return t
    txt = ('// generated by checks/C02.py from private/string_map.h (string_map, active variant) and private/hash_map.h (string_hash) -- do not edit\n'
           '#include <stdint.h>\n#include <stddef.h>\n')
    structure_ok = all(got[n] for n in ('begin_end', 'increment', 'get_safe', 'entry_ctor', 'entry_eq', 'calc_hash'))
    if got['ctor'] and got['clear']:
        txt += 'static const size_t c02_init_ctor = %s;\nstatic const size_t c02_init_clear = %s;\n' % (got['ctor'].group(1), got['clear'].group(1))
    if got['add'] and structure_ok:
        c, n = expr(got['add'].group(1), ('total', 'dsize')), expr(got['add'].group(2), ('dsize',))
        if c is not None:
            txt += 'bool c02_grow(size_t total,size_t dsize) { return %s; }\n' % c
        if n is not None:
            txt += 'size_t c02_newsize(size_t dsize) { return %s; }\n' % n
    for fn, key in (('ins', 'insert'), ('get', 'get')):
        if got[key] and structure_ok:
            a, b = expr(got[key].group(1), ('ehash', 'dsize')), expr(got[key].group(2), ('pos', 'dsize'))
            if a is not None:
                txt += 'int c02_%s_start(uint32_t ehash,size_t dsize) { int pos = %s; return pos; }\n' % (fn, a)
            if b is not None:
                txt += 'int c02_%s_next(int pos,size_t dsize) { pos = %s; return pos; }\n' % (fn, b)
    mh = re.search(r'typedef\s+uint32_t\s+state_type\s*;.*?static\s+state_type\s+update_state\s*\(\s*state_type\s+value\s*,\s*char\s+c\s*\)\s*\{(.*?)\n\t\}', hsrc, re.S)
    m0 = re.search(r'static\s+const\s+state_type\s+initial_state\s*=\s*(\w+)\s*;', hsrc)
    if m0:
        txt += 'static const uint32_t c02_initial_state = %s;\n' % m0.group(1)
    else:
        SMAP_TU_PROBLEMS.append('private/hash_map.h: string_hash::initial_state not found')
    if mh:
        txt += 'uint32_t c02_update_state(uint32_t value,char c)\n{' + mh.group(1).replace('state_type', 'uint32_t') + '\n}\n'
    else:
        SMAP_TU_PROBLEMS.append('private/hash_map.h: string_hash::update_state not found in the expected shape')
    vlib.write_if_changed(SMAP_TU, txt)
    return SMAP_TU


def mp_end_tie():
    """rigid statement tie of the multipart loop of request::on_content_progress (src/http_request.cpp) to coq/C02/MpEnd.v: the switch over
    the parser result (which cases go on, which return 400 / 413, the two tests of the eof case) and the end-of-body decision
    `if(begin==end && d->read_size==d->content_length && r!=multipart_parser::eof) return 400;` must have exactly the statement structure
    the model was written for (white space and comments apart); also the order of the parser's result enum.  Returns problems."""
    try:
        src = open(os.path.join(vlib.REPO, 'src', 'http_request.cpp')).read()
        hdr = open(os.path.join(vlib.REPO, 'private', 'multipart_parser.h')).read()
    except OSError as e:
        return [str(e)]

    def norm(t):
        t = re.sub(r'//[^\n]*', '', t)
        return ''.join(re.sub(r'/\*.*?\*/', '', t, flags=re.S).split())
    src, hdr = norm(src), norm(hdr)
    out = []
    want = [
        ('initial result', 'multipart_parser::parsing_result_typer=multipart_parser::continue_input;'),
        ('loop head', 'while(begin!=end){r=d->multipart_parser->consume(begin,end);switch(r){casemultipart_parser::meta_ready:'),
        ('content_partial case', 'casemultipart_parser::content_partial:{file&f=d->multipart_parser->get_file();if(!size_ok(f,allowed))return413;'),
        ('content_ready case', 'casemultipart_parser::content_ready:{file&f=d->multipart_parser->last_file();f.data().seekg(0);if(!size_ok(f,allowed))return413;'),
        ('continue / no_room / eof / error cases', 'casemultipart_parser::continue_input:break;casemultipart_parser::no_room_left:return413;casemultipart_parser::eof:if(begin!=end)return400;'
         'if(d->read_size!=d->content_length)return400;break;casemultipart_parser::parsing_error:default:return400;}}'),
        ('end-of-body decision', '}}if(begin==end&&d->read_size==d->content_length&&r!=multipart_parser::eof){return400;}}if(d->read_size==d->content_length){'),
    ]
    for name, text in want:
        if text not in src:
            out.append('src/http_request.cpp request::on_content_progress: %s no longer has the statement structure of coq/C02/MpEnd.v' % name)
    if 'typedefenum{parsing_error,meta_ready,content_partial,content_ready,continue_input,eof,no_room_left}parsing_result_type;' not in hdr:
        out.append('private/multipart_parser.h: parsing_result_type changed')
    return out


def watchdog_tie():
    """rigid statement tie of http::add_to_watchdog / remove_from_watchdog, their two call sites and the membership test of
    http_watchdog (src/http_api.cpp) to coq/C02/Wd.v (white space and comments apart)"""
    try:
        src = open(os.path.join(vlib.REPO, 'src', 'http_api.cpp')).read()
    except OSError as e:
        return [str(e)]
    src = re.sub(r'//[^\n]*', '', src)
    src = ''.join(re.sub(r'/\*.*?\*/', '', src, flags=re.S).split())
    want = [
        ('add_to_watchdog', 'voidadd_to_watchdog(){if(!in_watchdog_){watchdog_->add(self());in_watchdog_=true;}}'),
        ('remove_from_watchdog', 'voidremove_from_watchdog(){if(in_watchdog_){watchdog_->remove(self());in_watchdog_=false;}}'),
        ('constructor: in_watchdog_(false)', 'in_watchdog_(false),'),
        ('async_read_headers adds the connection', 'update_time();add_to_watchdog();total_read_=0;async_read_some_headers(h);}'),
        ('on_async_read_complete removes it', 'voidon_async_read_complete(){remove_from_watchdog();}'),
        ('http_watchdog::add / remove', 'voidadd(weak_http_ptrp){connections_.insert(p);}voidremove(weak_http_ptrp){connections_.erase(p);}'),
        ('http_watchdog::check kills expired members', 'if(ptr->time_to_die()<now){kill.push_back(ptr);'),
    ]
    out = ['src/http_api.cpp: %s no longer has the statement structure of coq/C02/Wd.v' % n for n, t in want if t not in src]
    if src.count('add_to_watchdog()') != 2 or src.count('remove_from_watchdog()') != 2:
        out.append('src/http_api.cpp: add_to_watchdog / remove_from_watchdog are called from other places than async_read_headers / on_async_read_complete')
    return out


GEN = {
    'Gen_c02proto': dict(src='private/http_protocol.h', functions=[('separator', 'g_c02_separator'), ('ascii_to_lower', 'g_c02_lower')]),
    # integer leafs of string_map (growth test, sizes, probe start / step) and string_hash::update_state, see smap_leaf_tu()
    'Gen_c02smap': dict(src=smap_leaf_tu(), incs=[], consts=[('c02_init_ctor', 'g_c02_init_ctor'), ('c02_init_clear', 'g_c02_init_clear'),
                                                             ('c02_initial_state', 'g_c02_initial_state')],
                        functions=[(n, 'g_' + n) for n in SMAP_LEAFS]),
}

# ------------------------------------------------------------------------------------------- encoders
def scgi_enc(items, body=b'', tail=b',', lenfield=None):
    blob = b''.join(k + b'\0' + v + b'\0' for k, v in items)
    lf = str(len(blob)).encode() if lenfield is None else lenfield
    return lf + b':' + blob + tail + body


def fbegin(role=1, flags=0, rid=1, pad=0, version=1, body=None):
    return fcgi_rec(1, rid, struct.pack('>HB5x', role, flags) if body is None else body, pad, version)


PROBE = {
    'http': b'GET /probe/x?p=1 HTTP/1.0\r\nHost: h\r\n\r\n',
    'scgi': scgi_enc([(b'CONTENT_LENGTH', b'0'), (b'SCGI', b'1'), (b'REQUEST_METHOD', b'GET'), (b'SCRIPT_NAME', b'/probe'),
                      (b'PATH_INFO', b'/x'), (b'QUERY_STRING', b'p=1')]),
    'fcgi': fbegin() + fcgi_rec(4, 1, fcgi_pairs([(b'CONTENT_LENGTH', b'0'), (b'REQUEST_METHOD', b'GET'), (b'SCRIPT_NAME', b'/probe'),
                                                  (b'PATH_INFO', b'/x'), (b'QUERY_STRING', b'p=1')])) + fcgi_rec(4, 1, b'') + fcgi_rec(5, 1, b''),
}
PROBE_BODY = b'M=474554\nS=2f70726f6265\nP=2f78\nQ=703d31\nCL=0\nB=-\nF=0,0\n'
APPS = {b'/sync': 's', b'/async': 'a', b'/up': 'u', b'/upm': 'm', b'/probe': 'p', b'/upa': 'x', b'/upt': 't'}


# ------------------------------------------------------------------------------------------- reply classification
def classify_echo(body):
    """echo body -> 'OK:<app>' or None"""
    d = {}
    for l in body.split(b'\n'):
        k, _, v = l.partition(b'=')
        d[k] = v
    try:
        s = unhx(d[b'S'].decode())
    except Exception:
        return None, None
    if s not in APPS or b'CL' not in d:
        return None, None
    return 'OK:' + APPS[s], d


def replies_http(b):
    out = []
    raw = b'HTTP/1.0 400 Bad Request\r\n\r\n'
    while b:
        if b.startswith(raw):
            out.append(('RAW400', None))
            b = b[len(raw):]
            continue
        r = split_http_response(b)
        if r is None:
            out.append(('BADREPLY', None))
            break
        st, hdrs, body, framing, rest = r
        code = st.split(b' ')[1:2]
        code = code[0].decode('latin-1') if code else '?'
        if framing == 'close':
            rest = b''      # close-delimited reply (HTTP/1.0 style): necessarily the last one
        elif framing not in ('content-length', 'chunked'):
            out.append(('BADFRAME', None))
            break
        if code == '200':
            k, d = classify_echo(body)
            out.append((k or 'BADECHO', d))
        else:
            out.append(('ST' + code, None))
        b = rest
    return out


def reply_cgi(o):
    r = split_cgi_response(o)
    if r is None:
        return ('BADREPLY', None)
    h, body = r
    st = dict((n.lower(), v) for n, v in h).get(b'status')
    if st is not None and not st.startswith(b'200'):
        return ('ST' + st[:3].decode('latin-1'), None)
    k, d = classify_echo(body)
    return (k or 'BADECHO', d)


def replies_fcgi(b):
    out = []
    q = 0
    stdout = b''
    while len(b) >= q + 8:
        ver, typ, rid, cl, pl, _ = struct.unpack('>BBHHBB', b[q:q + 8])
        if typ in (10, 3) and cl % 8 == 0:
            # fastcgi::async_send_respnse leaves padding_length of the last *received* header in place when the body
            # needs no padding and sends no padding bytes (documented in docs/C02.md; reply framing is C03's subject)
            pl = 0
        if len(b) < q + 8 + cl + pl:
            out.append(('BADREPLY', None))
            return out
        content = b[q + 8:q + 8 + cl]
        q += 8 + cl + pl
        if typ == 6:
            stdout += content
        elif typ == 10:
            names = []
            p = 0
            ok = True
            while p < len(content):
                ls = []
                for _ in range(2):
                    if content[p] < 128:
                        ls.append(content[p]); p += 1
                    else:
                        ls.append(struct.unpack('>I', content[p:p + 4])[0] & 0x7fffffff); p += 4
                names.append(content[p:p + ls[0]])
                p += ls[0] + ls[1]
            code = {b'FCGI_MAX_CONNS': '1', b'FCGI_MAX_REQS': '2', b'FCGI_MPXS_CONNS': '3'}
            out.append(('GV' + ''.join(code.get(n, '?') for n in names), None))
        elif typ == 3:
            if not stdout and len(content) == 8 and content[4] == 3:
                out.append(('UR', None))
            elif len(content) == 8 and content[4] == 0:
                out.append(reply_cgi(stdout))
            else:
                out.append(('BADEND', None))
            stdout = b''
        else:
            out.append(('BADREC%d' % typ, None))
    if q != len(b) or stdout:
        out.append(('BADREPLY', None))
    return out


def parse_out(case, out):
    """harness line -> dict(replies=[(class, echo dict)], timeout, closed, calls(list of 7), probes=[bytes], bad)"""
    proto = case.split()[0]
    res = dict(replies=[], timeout=False, closed=None, calls=None, probes=[], bad=[], stalled=False, many=[], held=[])
    data = b''
    for t in out.split():
        k, _, v = t.partition('=')
        if k in ('r', 'p', 'probe') and not (k == 'probe' and v == '-'):
            pp = proto
            if k == 'p':
                pp, _, v = v.partition(':')
            to = v.endswith('!T')
            try:
                b = unhx(v[:-2] if to else v)
            except ValueError:
                res['bad'].append(t[:40])
                continue
            if k == 'r':
                data += b
                res['timeout'] = res['timeout'] or to
            else:
                res['probes'].append((pp, b, to))
        elif k == 'closed':
            res['closed'] = v == '1'
        elif k == 'm':
            pp, _, nums = v.partition(':')
            try:
                res['many'].append((pp,) + tuple(int(x) for x in nums.split(',')))
            except ValueError:
                res['bad'].append(t[:40])
        elif k == 'z':
            a, _, b = v.partition(':')
            res['held'].append((a == '1', int(b) if b.isdigit() else -1))
        elif k == 'stalled':
            res['stalled'] = True
        elif k == 'restart' or (k == 'probe' and v == '-'):
            pass
        elif k == 'calls':
            res['calls'] = [int(x) for x in v.split(',')]
        else:
            res['bad'].append(t[:40])
    if proto == 'http':
        res['replies'] = replies_http(data)
    elif proto == 'scgi':
        res['replies'] = [reply_cgi(data)] if data else []
    else:
        res['replies'] = replies_fcgi(data)
    return res


def probe_ok(proto, b, to):
    if to:
        return False
    if proto == 'http':
        r = split_http_response(b)
        return bool(r) and r[0].startswith(b'HTTP/1.0 200') and r[2] == PROBE_BODY
    if proto == 'scgi':
        r = split_cgi_response(b)
        return bool(r) and r[1] == PROBE_BODY
    o, recs, end, rest, ok = unrecord_fcgi(b)
    r = split_cgi_response(o)
    return ok and bool(r) and r[1] == PROBE_BODY and end is not None and len(end) == 8 and end[4] == 0


def has_reset(case):
    return ' K' in case


def canon_impl(case, out):
    if out.startswith('<crash'):
        return 'CRASH'
    r = parse_out(case, out)
    items = [k for k, _ in r['replies']]
    if r['timeout']:
        items.append('TIMEOUT')
    if r['stalled']:
        items.append('STALLED')
    if r['bad']:
        items.append('BADTOKEN')
    if has_reset(case):
        items = ['K']
    calls = r['calls'][:7] if r['calls'] else []
    return ' '.join(items) + ' | calls=' + ','.join(str(x) for x in calls)


def canon_model(case, out):
    left, _, right = out.partition(' | ')
    items = [x for x in left.split() if x != 'END']
    if has_reset(case):
        items = ['K']
    return ' '.join(items) + ' | ' + right


# ------------------------------------------------------------------------------------------- input classes of repaired defects
# (computed from the bytes sent only - independent of the model - so that the oracle can demand the repaired behaviour)
def scgi_unterminated(data):
    """SCGI netstring accepted by on_first_read, complete, ending in ',', whose non-empty header block does not end in NUL
    (repair 236058f: must be a protocol violation; before, strlen ran past buffer_)"""
    if len(data) < 16 or b':' not in data[:16]:
        return False
    sep = data.index(b':')
    m = re.match(rb'[ \t\n\v\f\r]*[+-]?[0-9]*', data[:sep].split(b'\0')[0])
    txt = m.group(0).strip(b' \t\n\v\f\r')
    try:
        n = int(txt) if txt not in (b'', b'+', b'-') else 0
    except ValueError:
        n = 0
    n = max(-2 ** 63, min(2 ** 63 - 1, n))
    n = (n + 2 ** 31) % 2 ** 32 - 2 ** 31
    size = sep + 2 + n
    if n < 0 or n > 16384 or size <= 16 or len(data) < size or data[size - 1:size] != b',':
        return False
    block = data[sep + 1:size - 1]
    return len(block) > 0 and not block.endswith(b'\0')


def fcgi_mgmt_prefix(data):
    """replies that must open the server's output for the management prefix of a FastCGI stream: version-1 records in
    front of the first BEGIN_REQUEST; an FCGI_GET_VALUES record with contentLength 0 must be answered by an empty
    FCGI_GET_VALUES_RESULT (repairs d9475fc + 48f6979), records of other types are skipped. Stops at the first
    GET_VALUES with content (its answer depends on the names), BEGIN_REQUEST, other version or incomplete record.
    Returns (expected reply classes, number of empty GET_VALUES that are the first record with neither content nor padding
    history on the connection)."""
    q = 0
    exp = []
    virgin = True      # no record with content or padding seen yet: body_ never had storage
    nvirgin = 0
    while len(data) >= q + 8:
        ver, typ, rid, cl, pl, _ = struct.unpack('>BBHHBB', data[q:q + 8])
        if len(data) < q + 8 + cl + pl or ver != 1 or typ == 1:
            break
        if typ == 9:
            if cl != 0:
                break
            exp.append('GV')
            if virgin and pl == 0:
                nvirgin += 1
        if cl + pl > 0:
            virgin = False
        q += 8 + cl + pl
    return exp, nvirgin


def case_bytes(case):
    return b''.join(unhx(t[2:]) for t in case.split() if t[:2] in ('S:', 's:'))


def env_spec(pairs, lookups, anyval=()):
    """V: annotation of a well-formed request: the CGI variables it must produce (name -> values sent for it, in order; '*' = any value)
    and the names its echo looks up one by one (HTTP_X_ENV = n1;n2;...)"""
    d = {}
    for k, v in pairs:
        d.setdefault(k, []).append(v)
    return 'V:' + ','.join(hx(k) + '=' + ('*' if k in anyval else '|'.join(hx(v) for v in vs)) for k, vs in d.items()) + '/' + ','.join(hx(n) for n in lookups)


def env_oracle(spec, replies):
    """the request of this case is well-formed and names its CGI variables in the annotation: it must be answered 200 by the echo
    application and the echoed environment (walk of connection::env_ and single look-ups, present and absent names) must be what was sent:
    exactly the names sent, a name sent once with exactly its value, a name sent several times with one of its values, an absent name empty"""
    exp_s, _, look_s = spec.partition('/')
    exp = {}
    for it in exp_s.split(','):
        k, _, v = it.partition('=')
        exp[unhx(k)] = None if v == '*' else [unhx(x) for x in v.split('|')]
    oks = [(k, d) for k, d in replies if k in ('OK:s', 'OK:a')]
    if len(oks) != 1 or len(replies) != 1:
        return ('env-request-not-served', 'a well-formed request with %d CGI variables was not answered by exactly one 200 reply of the echo application: %s'
                % (len(exp), [k for k, _ in replies]))
    d = oks[0][1]
    if b'E' not in d or b'G' not in d:
        return ('env-dump-missing', 'echo reply without environment dump although HTTP_X_ENV was sent (get() of a present name failed?): keys %s' % sorted(d))
    got = {}
    for it in d[b'E'].split(b','):
        if it:
            k, _, v = it.partition(b':')
            got[unhx(k.decode())] = unhx(v.decode())
    if set(got) != set(exp):
        return ('env-names-differ', 'the walk begin()..end() of connection::env_ does not list exactly the variables of the request: missing %s, unexpected %s'
                % (sorted(set(exp) - set(got))[:5], sorted(set(got) - set(exp))[:5]))
    for k, vs in exp.items():
        if vs is not None and got[k] not in vs:
            return ('env-value-differs', 'variable %r listed with value %r, sent %r' % (k, got[k][:60], [v[:60] for v in vs]))
    lk = {}
    for it in d[b'G'].split(b','):
        if it:
            k, _, v = it.partition(b':')
            lk[unhx(k.decode())] = unhx(v.decode())
    for n in [unhx(x) for x in look_s.split(',') if x]:
        if n not in lk:
            return ('env-lookup-missing', 'look-up of %r not reported' % n)
        want = exp.get(n, [b''])
        if want is not None and lk[n] not in want:
            return ('env-lookup-differs', 'getenv(%r) = %r, expected %s' % (n, lk[n][:60], 'one of %r' % [v[:60] for v in want] if n in exp else 'the empty string (name not sent)'))
    return None


# ------------------------------------------------------------------------------------------- oracle (implementation only)
def oracle(case, out):
    toks = case.split()
    proto = toks[0]
    data = case_bytes(case)
    if out.startswith('<crash'):
        # regressions of repaired defects get a descriptive key (none of them is a known finding any more)
        if proto == 'scgi' and scgi_unterminated(data) and 'on_headers_chunk_read' in out and re.search(r'strlen|string_pool::add|READ of size', out):
            return ('scgi-unterminated-block-over-read', 'REGRESSION of 236058f: sanitizer report in scgi::on_headers_chunk_read for a header block whose '
                    'last string is not NUL-terminated (must be a protocol violation): ' + out[:900])
        if proto == 'fcgi' and fcgi_mgmt_prefix(data)[0] and 'null pointer' in out and re.search(r'fastcgi::parse_pairs|fastcgi::async_send_respnse', out):
            return ('fcgi-empty-get-values-front-of-empty-vector', 'REGRESSION of d9475fc/48f6979: sanitizer report while answering an FCGI_GET_VALUES '
                    'record without content (front() of an empty vector in parse_pairs / async_send_respnse): ' + out[:900])
        if proto == 'http' and 'SERVICE-THREW 696e76616c696420656e64706f696e74' in out:
            return ('http-peer-reset-kills-event-loop', 'REGRESSION of c5271a2: service::run() threw "invalid endpoint": http::process_request used '
                    'remote_endpoint(e).ip() on a connection the peer has reset before looking at e: ' + out[:300])
        return ('crash-' + proto, 'service process died or sanitizer report: ' + out[:1500])
    r = parse_out(case, out)
    if r['bad'] or r['calls'] is None or len(r['calls']) != 8:
        return ('harness-output', 'unparseable harness output: ' + out[:200])
    sync, asy, setup, main, err, end, threw, nbytes = r['calls']
    if r['stalled']:
        return ('event-loop-stalled', 'the event loop did not run a posted marker within 8 s after this connection: the loop thread is stuck, no connection '
                'is answered any more (replies so far: %s%s)' % ([k for k, _ in r['replies']], ', the connection itself timed out' if r['timeout'] else ''))
    for pp, b, to in r['probes']:
        if not probe_ok(pp, b, to):
            return ('probe-not-answered-' + pp, 'a well-formed probe request on another connection was not answered correctly: %r' % b[:120])
    for m in r['many']:
        if len(m) != 4 or m[2] != m[1] or m[3] != 0:
            return ('simultaneous-connections-not-answered', '%d well-formed %s requests on connections open at the same time: %d answered correctly, %d timed out' % (m[1], m[0], m[2], m[3]) if len(m) == 4 else 'bad m= token')
    for cl, ms in r['held']:
        if not cl:
            return ('http-timeout-connection-not-closed', 'the peer sent a truncated request (or nothing) and kept the socket open: the server did not close the connection '
                    'within %d ms although http.timeout is %d s (the connection is not in the time-out watchdog?); replies so far %s' % (ms, WD_TIMEOUT, [k for k, _ in r['replies']]))
    if not r['probes']:
        return ('probe-missing', 'no probe result')
    if r['timeout']:
        return ('no-answer-no-close-' + proto, 'after the peer closed its sending side the server neither answered nor closed within 4 s')
    if r['closed'] is False:
        return ('connection-not-closed-' + proto, 'server kept the offending connection open 3 s after the peer closed it')
    # repaired behaviour, demanded on the implementation output alone (input class computed from the bytes sent)
    if proto == 'scgi' and scgi_unterminated(data) and not has_reset(case):
        if r['replies'] or any(r['calls'][:7]):
            return ('scgi-unterminated-block-accepted', 'a SCGI header block whose last string is not NUL-terminated must be refused as a protocol '
                    'violation (connection closed, no reply, no application callback); got replies %s calls %s' % ([k for k, _ in r['replies']], r['calls']))
    if proto == 'fcgi' and not has_reset(case) and ' s:' not in case:
        exp, _ = fcgi_mgmt_prefix(data)
        got = [k for k, _ in r['replies']][:len(exp)]
        if got != exp:
            return ('fcgi-empty-get-values-not-answered', 'every FCGI_GET_VALUES record without content in front of the first request must be answered '
                    'by an empty FCGI_GET_VALUES_RESULT and the connection must go on; expected the replies to start with %s, got %s' % (exp, [k for k, _ in r['replies']]))
    x = [t for t in toks if t.startswith('X:')]
    nreq = int(x[0][2:]) if x and x[0][2:].isdigit() else None
    classes = [k for k, _ in r['replies']]
    handled = sync + asy + main
    if not has_reset(case):
        bad = [k for k in classes if k.startswith('BAD')]
        if bad:
            return ('malformed-reply-' + proto, 'reply is not a well-formed response: %s' % classes)
        oks = [k for k in classes if k.startswith('OK:') and k != 'OK:p']
        if handled != len(oks):
            return ('handler-count-' + proto, 'handlers ran %d times but %d handler replies were sent (%s)' % (handled, len(oks), classes))
        term = [i for i, k in enumerate(classes) if k.startswith('ST') or k == 'RAW400']
        if term and term[0] != len(classes) - 1:
            return ('reply-after-error-' + proto, 'something was sent after an error reply: %s' % classes)
        for k, d in r['replies']:
            if k == 'OK:u' and setup == 1 and main == 1 and handled == 1 and int(d[b'CL']) != nbytes:
                return ('upload-bytes', 'filter saw %d content bytes for declared length %s' % (nbytes, d[b'CL']))
    if 'Y:mp400' in toks and not has_reset(case):
        if classes != ['ST400'] or handled != 0:
            return ('multipart-truncated-body-served', 'a multipart/form-data body without closing delimiter (truncated, declared length = bytes sent) must be answered 400 '
                    'and must not reach the application; got replies %s, handler calls %d' % (classes, handled))
    if 'Y:ok' in toks and not has_reset(case):
        if len(classes) != 1 or not classes[0].startswith('OK:') or handled != 1:
            return ('multipart-complete-body-refused', 'a complete well-formed multipart/form-data body must be served; got replies %s, handler calls %d' % (classes, handled))
    ev = [t for t in toks if t.startswith('V:')]
    if ev and not has_reset(case):
        if len(r['replies']) != len(ev):
            return ('env-request-not-served', '%d well-formed request(s) on one connection (kept alive), %d replies: %s' % (len(ev), len(r['replies']), classes))
        for v, rep in zip(ev, r['replies']):
            bad = env_oracle(v[2:], [rep])
            if bad:
                return bad
    if nreq is not None and handled > nreq:
        return ('handler-more-than-once-' + proto, '%d handler calls for %d request(s) on the connection' % (handled, nreq))
    if err > 1 or err > setup:
        return ('on-error-more-than-once', 'on_error called %d times (filter set-ups %d)' % (err, setup))
    if main > setup + 1 and nreq == 1:
        return ('handler-more-than-once-' + proto, 'upload handler main=%d setup=%d' % (main, setup))
    if nreq == 1 and err >= 1 and handled >= 1:
        return ('handler-and-error', 'request was both handled and reported as failed upload')
    if threw > setup or (nreq == 1 and threw >= 1 and (handled >= 1 or err >= 1)):
        return ('setup-exception-not-contained', 'set-up call threw %d times (set-ups %d) and the request was also handled %d times / reported failed %d times' % (threw, setup, handled, err))
    if end > setup:
        return ('on-end-without-setup', 'on_end_of_content %d times for %d set-ups' % (end, setup))
    return None


# ------------------------------------------------------------------------------------------- generators
def S(b):
    return 'S:' + hx(b)


def fin(rng):
    return 'H E'


def http_req(method=b'GET', uri=b'/sync/a?x=1', ver=b'HTTP/1.1', headers=(), body=b''):
    out = method + b' ' + uri + b' ' + ver + b'\r\n'
    for n, v in headers:
        out += n + b': ' + v + b'\r\n'
    return out + b'\r\n' + body


CL_VALUES = [b'-1', b'-0', b'+5', b'0', b'1', b'5', b'2047', b'2048', b'2049', b'4096', b'4097', b'9223372036854775807',
             b'9223372036854775808', b'99999999999999999999', b'-9223372036854775808', b'-9223372036854775809', b' 7', b'\t7', b'7 ',
             b'7abc', b'abc', b'', b'0x10', b'1e3', b'--1', b'+-1', b'- 1', b'00000000000000000000005', b'\x0b7', b'5\x005', b'18446744073709551615',
             b'4294967296', b'2147483648', b'-2147483649']
CT_VALUES = [None, b'text/plain', b'application/x-www-form-urlencoded', b'multipart/form-data; boundary=xx', b'Multipart/Form-Data; boundary=xx',
             b'multipart/form-data', b' multipart/form-data;', b'multipart /form-data', b'multipart/form-datax', b'multipart/', b'/form-data',
             b'multipart/form-data\x00x', b'\r\n multipart/form-data; boundary=b', b'multipart/mixed']
SCRIPTS = [b'/sync', b'/async', b'/up', b'/upm', b'/upa', b'/upt']
URIS = [b'/upa', b'/upt/x?y', b'/upax', b'/sync', b'/sync/', b'/syncx', b'/sync?x', b'/async/a/b?c=d', b'/up', b'/upm', b'/upmx', b'/up/x', b'/nope', b'/', b'/probe', b'//sync',
        b'/sync%2f', b'/SYNC', b'sync', b'*', b'http://h/sync', b'/sync\x00/zz', b'/up?\x00', b'/as', b'/syn']


def rnd_bytes(rng, n):
    return bytes(rng.getrandbits(8) for _ in range(n))


def mutate(rng, data):
    b = bytearray(data)
    for _ in range(rng.randint(1, 3)):
        k = rng.random()
        if not b:
            b += rnd_bytes(rng, 3)
        i = rng.randrange(len(b))
        if k < 0.3:
            b[i] = rng.choice([0, 10, 13, 32, 34, 40, 41, 58, 44, 92, 127, 128, 255, rng.getrandbits(8)])
        elif k < 0.5:
            b[i] ^= 1 << rng.randrange(8)
        elif k < 0.7:
            del b[i:i + rng.randint(1, 4)]
        elif k < 0.9:
            b[i:i] = rng.choice([b'\r\n', b'\r', b'\n', b' ', b':', b'"', b'(', b'\\\xff', b'\0', rnd_bytes(rng, 2), b',', b'-'])
        else:
            j = rng.randrange(len(b))
            b[i:i] = b[j:j + rng.randint(1, 8)]
    return bytes(b)


def body_for(rng, cl):
    """a body whose length is the declared value if that is a small non-negative number, sometimes shorter/longer"""
    try:
        n = int(cl.split(b'\0')[0].strip() or b'0')
    except ValueError:
        n = 0
    n = n if 0 <= n <= 5000 else 0
    k = rng.random()
    if k < 0.6:
        m = n
    elif k < 0.8:
        m = max(0, n - rng.choice([1, 2, n]))
    else:
        m = n + rng.choice([1, 5])
    return bytes(rng.choice(b'abc=&%20xyz') for _ in range(m))


def gen_http(ctx, cases):
    rng = ctx.rng
    base = [http_req(), http_req(b'POST', b'/sync', b'HTTP/1.0', [(b'Content-Length', b'3')], b'a=b'),
            http_req(b'POST', b'/up', b'HTTP/1.1', [(b'Host', b'h'), (b'Content-Length', b'5')], b'hello'),
            http_req(b'PUT', b'/async/p', b'HTTP/1.0', [(b'X-A', b'"q\\"uo(ted"'), (b'X-B', b'(com(ment)'), (b'Content-Length', b'2')], b'xy')]
    # 1. truncation / reset at every offset
    for i, rq in enumerate(base):
        step = 1 if ctx.tier != 'quick' or i < 2 else 3
        for off in range(0, len(rq) + 1, step):
            cases.append('http %s H E X:1' % S(rq[:off]) if off else 'http H E X:1')
            if off % 4 == 1:
                cases.append('http %s K X:1' % S(rq[:off]))
    # 2. declared length arithmetic x application x content type
    for cl in CL_VALUES:
        for _ in range(ctx.scale(2, 8)):
            script = rng.choice(SCRIPTS)
            ct = rng.choice(CT_VALUES[:5]) if rng.random() < 0.5 else None
            hs = [(b'Content-Length', cl)] + ([(b'Content-Type', ct)] if ct is not None else [])
            rng.shuffle(hs)
            rq = http_req(rng.choice([b'POST', b'PUT', b'GET']), script + rng.choice([b'', b'/x', b'?q=1']), rng.choice([b'HTTP/1.0', b'HTTP/1.1']), hs,
                          body_for(rng, cl))
            cases.append('http %s H E X:1' % S(rq))
    for ct in CT_VALUES:
        for cl in (b'10', b'2049', b'4097'):
            hs = [(b'Content-Length', cl)] + ([(b'Content-Type', ct)] if ct is not None else [])
            cases.append('http %s H E X:1' % S(http_req(b'POST', rng.choice(SCRIPTS), b'HTTP/1.0', hs, b'0123456789')))
    # duplicate / conflicting Content-Length
    for a, b in [(b'5', b'-1'), (b'-1', b'5'), (b'5', b'3000'), (b'3000', b'2'), (b'0', b'4')]:
        cases.append('http %s H E X:1' % S(http_req(b'POST', b'/up', b'HTTP/1.0', [(b'Content-Length', a), (b'content-length', b)], b'hello')))
    # 3. request line and header syntax
    lines = [b'GET /sync HTTP/1.0', b'GET /sync', b'GET', b'', b' GET /sync HTTP/1.0', b'GET  /sync HTTP/1.0', b'GET /sync  HTTP/1.0', b'G(T /sync HTTP/1.0',
             b'G"T /sync HTTP/1.0', b'GE\x00T /sync HTTP/1.0', b'\x00 /sync HTTP/1.0', b'GET /sync HTTP/1.1 x', b'GET /sync HTTP/1.1\x00x', b'G\xffT /sync HTTP/1.0',
             b'GET\t/sync HTTP/1.0', b'get /sync http/1.1', b'G:T /sync HTTP/1.0', b'GET /sync HTTP/1.0\r', b'GET /sync\rHTTP/1.0', b'GET /sy"nc HTTP/1.0',
             b'GET /sync?"a HTTP/1.0\r\nX: b"', b'GET /sync?(a HTTP/1.0\r\nX: b)', b'GET /sync?(a HTTP/1.0', b'GET /sync?"\\\x7f" HTTP/1.0', b'GET /sync?"\\\x80" HTTP/1.0',
             b'GET /sync?(\\\xff) HTTP/1.0', b'GET /sync?() HTTP/1.0', b'GET /sync?)( HTTP/1.0', b'GET /sync?((a) HTTP/1.0']
    for l in lines:
        for tail in (b'\r\n\r\n', b'\r\nHost: h\r\n\r\n', b'\n\n', b'\r\n\r', b'\r\n \r\n\r\n', b'\r\n\tfolded HTTP/1.0\r\n\r\n'):
            cases.append('http %s H E X:1' % S(l + tail))
    for u in URIS:
        cases.append('http %s H E X:1' % S(http_req(rng.choice([b'GET', b'POST']), u, b'HTTP/1.0')))
    hdrs = [b'Bad Header', b': novalue', b'X', b'X:', b'X :v', b'X\t:\tv', b' X: v', b'X(: v', b'X/Y: v', b'X\x00Y: v', b'X\x7f: v', b'X\x80: v', b'X: \x00',
            b'X: a\r\n b', b'X: a\r\n\tb\r\n c', b'X:\r\n v', b'\r\n X: v', b'X: "unterminated', b'X: (unterminated', b'X: "a\\', b'X: a\rb', b'X: a\nb',
            b'Content-Length:5', b'CONTENT-LENGTH : 5', b'content_length: 5', b'Content-Length\r\n : 5', b'Content-Length: 5\r\n 6', b'Connection: Keep-Alive',
            b'Connection: keep-alive\x00x', b'Connection: close\r\nConnection: keep-alive', b'Content-Type: multipart/form-data; boundary=x\r\nContent-Length: 5000',
            b'X: "\r\n\r\n"', b'X: (\r\n\r\n)', b'X: (\\)', b'X: \\"', b'=: v', b'X=Y: v', b'X;: v']
    for h in hdrs:
        for script in (b'/sync', b'/up'):
            cases.append('http %s H E X:1' % S(b'POST ' + script + b' HTTP/1.1\r\n' + h + b'\r\n\r\nhello'))
    # 4. header block size around the 16384-byte limit, with explicit read boundaries
    for T in [16300, 16383, 16384, 16385, 16386, 20000, 32767, 32768, 32769, 32770, 40000]:
        head = b'GET /sync/a HTTP/1.0\r\nX-Fill: '
        rq = head + b'f' * (T - len(head) - 4) + b'\r\n\r\n'
        assert len(rq) == T
        cuts = [[T], [min(T - 1, 16384)], [T - 1], [T - 2, T - 1], [8192, 16384], [8000, 16000, 24000, 32000], [1, 16385], [16383, 16384, 16385],
                list(range(16384, T, 16384)), list(range(10000, T, 10000)), [16384, 16385] + list(range(32000, T, 8000)), [1] + list(range(16385, T, 16384))]
        for c in cuts:
            pts = [0] + sorted(set(x for x in c if 0 < x < T)) + [T]
            if max(b - a for a, b in zip(pts, pts[1:])) > 16384:
                continue    # one send() = one read only up to the 16384-byte read size
            cases.append('http ' + ' '.join(S(rq[a:b]) for a, b in zip(pts, pts[1:])) + ' H E X:1')
    # never-ending header line / quoted string
    for fill in (b'a', b'"', b'(', b'a\r\n '):
        for n in (16385, 33000):
            d = b'GET /sync HTTP/1.0\r\nX: ' + (fill * n)[:n]
            pts = list(range(0, len(d), 12000)) + [len(d)]
            cases.append('http ' + ' '.join(S(d[a:b]) for a, b in zip(pts, pts[1:])) + ' H E X:1')
    # 5. keep-alive sequences: good requests followed by a bad one; string pool pages (long value, then many headers)
    ka = [(b'Connection', b'keep-alive')]
    goods = [http_req(b'GET', b'/sync/1', b'HTTP/1.1', ka), http_req(b'POST', b'/async', b'HTTP/1.1', ka + [(b'Content-Length', b'4')], b'abcd'),
             http_req(b'POST', b'/up', b'HTTP/1.0', ka + [(b'Content-Length', b'600')], b'u' * 600), http_req(b'GET', b'/upm', b'HTTP/1.1', ka)]
    bads = [b'GARBAGE\r\n\r\n', http_req(b'POST', b'/up', b'HTTP/1.1', ka + [(b'Content-Length', b'-5')]), http_req(b'POST', b'/sync', b'HTTP/1.1', [(b'Content-Length', b'9999')]),
            http_req(b'GET', b'/nope', b'HTTP/1.1', ka), b'GET /sync HTTP/1.1\r\nBroken\r\n\r\n', http_req(b'POST', b'/up', b'HTTP/1.1', ka + [(b'Content-Length', b'50')], b'short'),
            b'', b'G', http_req(b'G@T', b'/sync', b'HTTP/1.1', ka)]
    for _ in range(ctx.scale(60, 600)):
        seq = [rng.choice(goods) for _ in range(rng.randint(1, 3))] + [rng.choice(bads)]
        if rng.random() < 0.3:
            seq.append(rng.choice(goods))
        if rng.random() < 0.5:
            cases.append('http %s H E X:%d' % (S(b''.join(seq)), len(seq)))
        else:
            cases.append('http %s H E X:%d' % (' '.join(S(x) for x in seq if x), len(seq)))
    for _ in range(ctx.scale(40, 400)):
        big = bytes(rng.choice(b'abcdefgh') for _ in range(rng.choice([1024, 1025, 1500, 2047, 2048, 3000, 5000])))
        r1 = http_req(b'GET', b'/sync/' + (big if rng.random() < 0.3 else b'x'), b'HTTP/1.1', ka + [(b'X-Long', big)])
        many = [(b'X-H%d' % i, bytes(rng.choice(b'abcdefgh') for _ in range(rng.randint(40, 200)))) for i in range(rng.randint(6, 14))]
        r2 = http_req(b'GET', rng.choice(SCRIPTS), b'HTTP/1.1', ka + many)
        seq = [r1, r2, r1, rng.choice(bads)]
        cases.append('http %s H E X:4' % ' '.join(S(x) for x in seq if x))
    # repaired by c5271a2: complete header block whose last byte is immediately followed by a reset (getpeername fails with
    # ENOTCONN when the RST is processed before http::process_request runs: timing dependent, hence the repetitions)
    for rep in range(ctx.scale(12, 60)):
        rq = (base[0], goods[0], base[2], base[1])[rep % 4]
        he = rq.index(b'\r\n\r\n') + 4
        cut = he - 1 if rep % 3 else max(1, he - 1 - rng.randint(1, 20))
        cases.append('http %s s:%s K X:1' % (S(rq[:cut]), hx(rq[cut:he])))
    # same window from the synchronised side: a complete request is delivered, the server has read it (S: waits for that) and the
    # abortive close follows at once; with c5271a2 reverted about 1-3 % of these kill the event loop on a loaded machine
    for rep in range(ctx.scale(260, 2000)):
        rq = rng.choice(base + goods)
        k = rng.random()
        if k < 0.25:
            cut = rng.randrange(1, len(rq))
            cases.append('http %s %s K X:1' % (S(rq[:cut]), S(rq[cut:])))
        elif k < 0.35:
            cases.append('http %s K X:2' % S(rq + rng.choice(base)))
        else:
            cases.append('http %s K X:1' % S(rq))
    # 6. random mutations of valid requests and random bytes
    for _ in range(ctx.scale(1500, 36000)):
        rq = rng.choice(base + goods)
        d = mutate(rng, rq)
        if rng.random() < 0.2:
            d = d + rng.choice(base)
        cases.append('http %s %s X:3' % (S(d), 'K' if rng.random() < 0.08 else 'H E'))
    for _ in range(ctx.scale(120, 8000)):
        d = rnd_bytes(rng, rng.randint(1, 60))
        if rng.random() < 0.5:
            d = rng.choice([b'GET ', b'POST /up HTTP/1.0\r\n', b'GET /sync HTTP/1.1\r\nContent-Length: ']) + d
        cases.append('http %s H E X:3' % S(d))


def scgi_items(script=b'/sync', cl=b'0', extra=()):
    return [(b'CONTENT_LENGTH', cl), (b'SCGI', b'1'), (b'REQUEST_METHOD', b'POST'), (b'SCRIPT_NAME', script), (b'PATH_INFO', b'/x')] + list(extra)


def gen_scgi(ctx, cases):
    rng = ctx.rng
    base = [scgi_enc(scgi_items()), scgi_enc(scgi_items(b'/up', b'5'), b'hello'), scgi_enc(scgi_items(b'/async', b'3', [(b'CONTENT_TYPE', b'text/plain')]), b'abc')]
    for i, rq in enumerate(base):
        for off in range(0, len(rq) + 1, 1 if i == 0 or ctx.tier != 'quick' else 3):
            cases.append('scgi %s H E X:1' % S(rq[:off]) if off else 'scgi H E X:1')
            if off % 5 == 2:
                cases.append('scgi %s K X:1' % S(rq[:off]))
    # netstring length field
    blob = b''.join(k + b'\0' + v + b'\0' for k, v in scgi_items())
    n = len(blob)
    lfs = [b'%d' % n, b'%d' % (n - 1), b'%d' % (n + 1), b'0', b'-1', b'-%d' % n, b'+%d' % n, b' %d' % n, b'%d ' % n, b'0%d' % n, b'%d' % (n + 2 ** 32), b'%d' % (2 ** 32),
           b'%d' % (2 ** 32 - 1), b'%d' % (2 ** 31), b'%d' % (2 ** 31 - 1), b'99999999999999', b'999999999999999', b'-99999999999999', b'16384', b'16385', b'abc', b'',
           b'1x', b'%d\x00junk' % n, b'\x00%d' % n, b'\t\n%d' % n, b'1e2', b'0x40', b'%d' % (n + 2 ** 33), b'18446744073709551']
    for lf in lfs:
        cases.append('scgi %s H E X:1' % S(lf + b':' + blob + b','))
        cases.append('scgi %s H E X:1' % S(lf + b':' + blob + b',' + b'x' * 40))
    for sepat in range(0, 20):
        d = b'1' * sepat + b':' + blob + b','
        cases.append('scgi %s H E X:1' % S(d))
    cases.append('scgi %s H E X:1' % S(b'1' * 40))
    # large header blocks around 16384
    for total in (16383, 16384, 16385, 20000):
        items = scgi_items() + [(b'HTTP_X_FILL', b'')]
        b0 = b''.join(k + b'\0' + v + b'\0' for k, v in items)
        fillv = b'f' * (total - len(b0))
        items[-1] = (b'HTTP_X_FILL', fillv)
        cases.append('scgi %s H E X:1' % S(scgi_enc(items)))
    # terminator and string structure
    for tail in (b',', b';', b'\0', b'', b',,'):
        cases.append('scgi %s H E X:1' % S(scgi_enc(scgi_items(), tail=tail) + b'abcdefghijklmnop'))
    odd = [b'A\0', b'A\0B\0C\0', b'\0\0', b'\0', b'\0\0\0', b'SCRIPT_NAME\0/sync\0CONTENT_LENGTH\0', b'SCRIPT_NAME\0/sync\0\0\0', b'CONTENT_LENGTH\0\0SCRIPT_NAME\0/up\0']
    for o in odd:
        pad = b'X\0' + b'p' * 20 + b'\0'
        blob2 = pad + o
        cases.append('scgi %s H E X:1' % S(b'%d:' % len(blob2) + blob2 + b','))
    # declared content length
    for cl in CL_VALUES:
        for _ in range(ctx.scale(1, 4)):
            script = rng.choice(SCRIPTS)
            ct = rng.choice(CT_VALUES[:5])
            ex = [(b'CONTENT_TYPE', ct)] if ct is not None and rng.random() < 0.5 else []
            if b'\0' in cl:
                continue
            cases.append('scgi %s H E X:1' % S(scgi_enc(scgi_items(script, cl, ex), body_for(rng, cl))))
    for ct in CT_VALUES:
        if ct is None or b'\0' in ct:
            continue
        for cl in (b'10', b'2049', b'4097'):
            cases.append('scgi %s H E X:1' % S(scgi_enc(scgi_items(rng.choice(SCRIPTS), cl, [(b'CONTENT_TYPE', ct)]), b'0123456789')))
    for sn in (b'/sync', b'/syncx', b'', b'/', b'/sync/', b'sync', b'/UP', b'/probe'):
        cases.append('scgi %s H E X:1' % S(scgi_enc(scgi_items(sn))))
    cases.append('scgi %s H E X:1' % S(scgi_enc([(b'SCGI', b'1'), (b'PATH_INFO', b'/p'), (b'HTTP_PADDING', b'p' * 30)])))
    cases.append('scgi %s H E X:1' % S(scgi_enc([(b'SCRIPT_NAME', b'/up'), (b'SCRIPT_NAME', b'/sync'), (b'CONTENT_LENGTH', b'2'), (b'CONTENT_LENGTH', b'-1')], b'ab')))
    # repaired by 236058f: header block whose last string is not NUL-terminated (was a heap over-read by strlen; must now be
    # refused as a protocol violation). Boundary: last byte NUL / not NUL, block of 1 byte, key without value, huge block
    kf = [b'40:' + b'A' * 40 + b',', b'40:' + b'A\0' + b'B' * 38 + b',', b'%d:' % (n + 3) + blob + b'KEY' + b',', b'%d:' % (n - 1) + blob[:-1] + b',',
          b'%d:' % (n + 1) + blob + b'X' + b',', b'%d:' % (n + 1) + blob + b'\0' + b',', b'00000000000001:A,', b'00000000000001:\0,', b'000000000000000:,',
          b'00000000000002:A\0,', b'00000000000002:\0A,', b'14:' + b'\0' * 13 + b'A,', b'14:' + b'\0' * 14 + b',', b'16384:' + b'A' * 16384 + b',',
          b'16384:' + b'A' * 16383 + b'\0,', b'%d:' % (n + 4) + blob + b'K\0VV' + b',', b'%d:' % n + blob[:-1] + b',' + b',', b'40:' + b'A' * 40 + b',' + b'\0' * 30]
    for d in kf:
        cases.append('scgi %s H E X:1' % S(d))
    # buffer_.size() <= 16 ("it can't be so short"): well-formed netstrings of total size 15, 16, 17, 18 with separator at 1 and 2
    for blk in (b'K\0' + b'V' * 8 + b'\0', b'K\0' + b'V' * 9 + b'\0', b'K\0' + b'V' * 10 + b'\0', b'K\0' + b'V' * 11 + b'\0', b'K\0' + b'V' * 12 + b'\0',
                b'KEY\0' + b'V' * 4 + b'\0', b'V' * 5 + b'\0' + b'\0', b'V' * 5 + b'\0' + b'A\0' + b'\0' + b'BB\0'):
        for extra in (b'', b'tail'):
            cases.append('scgi %s H E X:1' % S(b'%d:' % len(blk) + blk + b',' + extra))
    for _ in range(ctx.scale(40, 400)):
        items = scgi_items(rng.choice(SCRIPTS), rng.choice([b'0', b'3']))
        b2 = b''.join(k + b'\0' + v + b'\0' for k, v in items)
        k = rng.random()
        if k < 0.4:
            b2 = b2[:-1]                                  # final NUL dropped
        elif k < 0.6:
            b2 = b2 + bytes(rng.choice(b'AZ/=\x01\xff') for _ in range(rng.randint(1, 5)))   # trailing unterminated key
        elif k < 0.8:
            b2 = b2[:-1] + bytes([rng.choice([1, 44, 255, 0, 0])])
        cases.append('scgi %s H E X:1' % S(b'%d:' % len(b2) + b2 + b',' + b'abc'))
    # mutations / random
    for _ in range(ctx.scale(1000, 24000)):
        d = mutate(rng, rng.choice(base))
        cases.append('scgi %s %s X:1' % (S(d), 'K' if rng.random() < 0.08 else 'H E'))
    for _ in range(ctx.scale(80, 2000)):
        k = rng.randint(0, 12)
        blob2 = b''.join(rnd_bytes(rng, rng.randint(0, 6)).replace(b'\0', b'a') + b'\0' for _ in range(k))
        d = b'%d:' % (len(blob2) + rng.choice([0, 0, 0, 1, -1])) + blob2 + b',' + rnd_bytes(rng, rng.randint(0, 20))
        cases.append('scgi %s H E X:1' % S(d))


def fenv(script=b'/sync', cl=b'0', extra=()):
    return [(b'CONTENT_LENGTH', cl), (b'REQUEST_METHOD', b'POST'), (b'SCRIPT_NAME', script), (b'PATH_INFO', b'/x')] + list(extra)


def freq(script=b'/sync', cl=b'0', body=b'', rid=1, flags=0, extra=(), pad=0, cuts=()):
    out = fbegin(1, flags, rid, pad) + fcgi_rec(4, rid, fcgi_pairs(fenv(script, cl, extra)), pad) + fcgi_rec(4, rid, b'', pad)
    pts = [0] + [c for c in cuts if 0 < c < len(body)] + [len(body)]
    for a, b in zip(pts, pts[1:]):
        if b > a:
            out += fcgi_rec(5, rid, body[a:b], pad)
    return out + fcgi_rec(5, rid, b'', pad)


def gen_fcgi(ctx, cases):
    rng = ctx.rng
    base = [freq(), freq(b'/up', b'5', b'hello', rid=7, pad=3), freq(b'/async', b'6', b'abcdef', cuts=(2, 4), flags=1) + freq(b'/sync', flags=0)]
    for i, rq in enumerate(base):
        for off in range(0, len(rq) + 1, 1 if i == 0 or ctx.tier != 'quick' else 3):
            cases.append('fcgi %s H E X:2' % S(rq[:off]) if off else 'fcgi H E X:1')
            if off % 7 == 3:
                cases.append('fcgi %s K X:2' % S(rq[:off]))
    P = fcgi_rec(4, 1, fcgi_pairs(fenv()))
    PE = fcgi_rec(4, 1, b'')
    SE = fcgi_rec(5, 1, b'')
    tail = P + PE + SE
    # record header fields
    for ver in (0, 1, 2, 255):
        cases.append('fcgi %s H E X:1' % S(fbegin(version=ver) + tail))
    for typ in list(range(0, 13)) + [255]:
        cases.append('fcgi %s H E X:1' % S(fcgi_rec(typ, 1, b'\0' * 8) + freq()))
        cases.append('fcgi %s H E X:1' % S(fcgi_rec(typ, 0, b'') + fcgi_rec(typ, 5, b'xyz', 5) + freq()))
        cases.append('fcgi %s H E X:1' % S(fbegin() + fcgi_rec(typ, 1, fcgi_pairs(fenv())) + PE + SE))
        cases.append('fcgi %s H E X:1' % S(fbegin() + P + PE + fcgi_rec(typ, 1, b'')))
        cases.append('fcgi %s H E X:1' % S(fbegin() + fcgi_rec(4, 1, fcgi_pairs(fenv(b'/up', b'4'))) + PE + fcgi_rec(typ, 1, b'abcd') + SE))
    for role in (0, 1, 2, 3, 256, 65535):
        for flags in (0, 1, 2, 255):
            cases.append('fcgi %s H E X:2' % S(fbegin(role, flags) + tail + (freq(b'/async') if flags & 1 else b'')))
    for blen in (0, 1, 7, 9, 16):
        cases.append('fcgi %s H E X:1' % S(fbegin(body=b'\0\1' + b'\0' * max(0, blen - 2) if blen >= 2 else b'\0' * blen) + tail))
    for rid_b, rid_p, rid_s in [(1, 2, 1), (1, 1, 2), (0, 0, 0), (65535, 65535, 65535), (5, 5, 6), (256, 1, 1)]:
        cases.append('fcgi %s H E X:1' % S(fbegin(rid=rid_b) + fcgi_rec(4, rid_p, fcgi_pairs(fenv())) + fcgi_rec(4, rid_p, b'') + fcgi_rec(5, rid_s, b'')))
        cases.append('fcgi %s H E X:1' % S(fbegin(rid=rid_b) + fcgi_rec(4, rid_b, fcgi_pairs(fenv(b'/up', b'3'))) + fcgi_rec(4, rid_b, b'') + fcgi_rec(5, rid_s, b'abc') + fcgi_rec(5, rid_p, b'')))
    for pad in (0, 1, 7, 8, 255):
        cases.append('fcgi %s H E X:1' % S(freq(b'/up', b'5', b'hello', pad=pad)))
        cases.append('fcgi %s H E X:1' % S(fbegin(pad=pad) + fcgi_rec(4, 1, b'', pad) + fcgi_rec(5, 1, b'', pad)))
    # PARAMS stream size around 16384 and record splits
    for total in (16000, 16383, 16384, 16385, 70000):
        items = fenv() + [(b'HTTP_X_FILL', b'')]
        b0 = fcgi_pairs(items)
        fl = max(0, total - len(b0) - 3)
        items[-1] = (b'HTTP_X_FILL', b'f' * fl)
        blob = fcgi_pairs(items)
        for cuts in ([], [8000], [len(blob) - 1], [16383], [16384], [100, 200, 300]):
            pts = [0] + [c for c in cuts if 0 < c < len(blob)] + [len(blob)]
            recs = b''.join(fcgi_rec(4, 1, blob[a:min(b, a + 65535)]) + (fcgi_rec(4, 1, blob[a + 65535:b]) if b - a > 65535 else b'') for a, b in zip(pts, pts[1:]))
            cases.append('fcgi %s H E X:1' % S(fbegin() + recs + PE + SE))
    # name-value pair encodings
    good = fcgi_pairs(fenv())
    pairs = [b'', b'\x00', b'\x00\x00', b'\x01', b'\x01\x01a', b'\x01\x01ab', b'\x05\x00abc', b'\x80', b'\x80\x00\x00', b'\x80\x00\x00\x01\x00a', b'\x80\x00\x00\x01', b'\x01\x80\x00\x00\x01ab',
             b'\xff\xff\xff\xff\xff\xff\xff\xff', b'\x7f\x7f' + b'a' * 10, b'\x80\x00\x00\x00\x80\x00\x00\x00', b'\x01\xff\xff\xff\xffab', b'\x0b\x05SCRIPT\x00NAME/sync', b'\x0b\x05SCRIPT_NAME/sync\x01',
             b'\x80\x00\x00\x0b\x80\x00\x00\x05SCRIPT_NAME/sync', b'\xff\xff\xff\xf0\x00abc', b'\x00\x7f' + b'v' * 127, b'\x00\x80\x00\x00\x80' + b'v' * 128, b'\x81\x00\x00\x00\x00',
             b'\x0e\x02CONTENT_LENGTH-1', b'\x0e\x01CONTENT_LENGTH3\x0e\x01CONTENT_LENGTH0', b'\x0b\x03SCRIPT_NAME/up\x0b\x05SCRIPT_NAME/sync']
    for p in pairs:
        for where in (0, 1):
            blob = (p + good) if where == 0 else (good + p)
            cases.append('fcgi %s H E X:1' % S(fbegin() + fcgi_rec(4, 1, blob) + PE + SE + fcgi_rec(5, 1, b'abc') + SE))
        cases.append('fcgi %s H E X:1' % S(fcgi_rec(9, 0, b'\x01\x00x' + p) + freq()))
        cases.append('fcgi %s H E X:1' % S(fcgi_rec(2, 0, b'z') + fcgi_rec(9, 0, p) + freq()))
    gv = [(b'FCGI_MAX_CONNS', b''), (b'FCGI_MAX_REQS', b''), (b'FCGI_MPXS_CONNS', b''), (b'FCGI_OTHER', b'1'), (b'FCGI_MAX_CONNS\0', b''), (b'fcgi_max_conns', b'')]
    for k in range(1, len(gv) + 1):
        cases.append('fcgi %s H E X:1' % S(fcgi_rec(9, 0, fcgi_pairs(gv[:k])) + fcgi_rec(9, 3, fcgi_pairs(gv[k - 1:]), 5) + freq(b'/up', b'2', b'ok')))
    cases.append('fcgi %s H E X:1' % S(fcgi_rec(9, 0, b'', 4) + freq()))
    cases.append('fcgi %s H E X:1' % S(fcgi_rec(11, 0, b'x') + fcgi_rec(9, 0, b'') + freq()))
    # repaired by d9475fc + 48f6979: GET_VALUES without content (front() of an empty vector in parse_pairs and in the reply buffer;
    # UBSan sees it when body_ never had storage, i.e. no earlier record with content or padding): must be answered by an empty
    # GET_VALUES_RESULT wherever it stands, and the connection goes on
    GV0 = fcgi_rec(9, 0, b'')
    gvs = [GV0 + freq(), GV0, GV0 + GV0 + freq(b'/up', b'2', b'ok'), fcgi_rec(0, 0, b'') + GV0, fcgi_rec(11, 0, b'') + fcgi_rec(5, 9, b'') + GV0 + freq(),
           fcgi_rec(9, 65535, b'') + freq(), struct.pack('>BBHHBB', 1, 9, 0, 0, 0, 255) + freq(), fcgi_rec(9, 0, b'', 1) + GV0 + freq(),
           GV0 + fcgi_rec(9, 0, fcgi_pairs(gv[:3])) + GV0 + freq(), freq(flags=1) + GV0 + freq(b'/async'), fbegin(2, 1) + GV0 + freq(),
           GV0 + fbegin(version=2), GV0 + b'\x01\x09\x00', GV0 * 5, GV0 + fcgi_rec(9, 0, b'\x05') + freq(), GV0 + fcgi_rec(9, 0, b'\x00\x00') + freq()]
    for d in gvs:
        cases.append('fcgi %s H E X:2' % S(d))
    for _ in range(ctx.scale(20, 200)):
        pre = b''.join(rng.choice([GV0, GV0, fcgi_rec(rng.choice([0, 2, 3, 5, 8, 11, 200]), rng.choice([0, 1]), b''), fcgi_rec(9, 0, b'', rng.choice([0, 3])),
                                   fcgi_rec(rng.choice([4, 6, 10]), 1, b'', rng.choice([0, 0, 2]))]) for _ in range(rng.randint(1, 5)))
        cases.append('fcgi %s H E X:2' % S(pre + rng.choice([freq(), freq(b'/up', b'5', b'hello'), b'', fbegin(3), fbegin(version=0)])))
    # declared length vs STDIN stream
    for cl in CL_VALUES:
        if b'\0' in cl:
            continue
        for _ in range(ctx.scale(1, 4)):
            script = rng.choice(SCRIPTS)
            ct = rng.choice(CT_VALUES[:5])
            ex = [(b'CONTENT_TYPE', ct)] if ct is not None and rng.random() < 0.5 else []
            body = body_for(rng, cl)
            cuts = sorted(rng.sample(range(1, len(body)), min(len(body) - 1, rng.randint(0, 3)))) if len(body) > 1 else []
            cases.append('fcgi %s H E X:1' % S(freq(script, cl, body, extra=ex, cuts=cuts, pad=rng.choice([0, 0, 5]))))
    for ct in CT_VALUES:
        if ct is None or b'\0' in ct:
            continue
        for cl in (b'10', b'2049', b'4097'):
            cases.append('fcgi %s H E X:1' % S(freq(rng.choice(SCRIPTS), cl, b'0123456789', extra=[(b'CONTENT_TYPE', ct)])))
    hd = fbegin() + fcgi_rec(4, 1, fcgi_pairs(fenv(b'/up', b'10'))) + PE
    stdins = [[b'0123456789', b''], [b'01234', b'56789', b''], [b'0123456789'], [b'01234', b'', b'56789', b''], [b'0123456789abc', b''], [b'01234', b'56789abc', b''],
              [b'', b'0123456789', b''], [b'0123456789', b'x'], [b'0123456789', b'', b''], [b'0' * 9, b''], [b'0123456789', None]]
    for st in stdins:
        d = hd + b''.join(fcgi_rec(5, 1, x) if x is not None else fcgi_rec(4, 1, b'') for x in st)
        cases.append('fcgi %s H E X:1' % S(d))
        cases.append('fcgi %s H E X:1' % S(d.replace(b'/up', b'/sy', 1).replace(b'\x0b\x03', b'\x0b\x03', 1)))
    for sn in (b'/sync', b'/syncx', b'', b'/', b'/sync/', b'/probe'):
        cases.append('fcgi %s H E X:1' % S(freq(sn)))
    # keep_conn sequences with a bad request later
    goods = [freq(b'/sync', flags=1, rid=1), freq(b'/async', b'4', b'abcd', flags=1, rid=2), freq(b'/up', b'600', b'u' * 600, flags=1, rid=3, cuts=(100, 512)), freq(b'/upm', flags=1)]
    bads = [fbegin(2, 1) + tail, fbegin(version=3) + tail, fbegin(flags=1) + SE + SE, freq(b'/up', b'-5', flags=1), freq(b'/sync', b'9999', flags=1), freq(b'/nope', flags=1),
            fbegin(flags=1) + P + PE + fcgi_rec(5, 1, b'zz'), fbegin(flags=1) + P, b'\x01', fcgi_rec(9, 0, b'\x05'), freq(b'/up', b'50', b'short', flags=1)]
    for _ in range(ctx.scale(80, 800)):
        seq = [rng.choice(goods) for _ in range(rng.randint(1, 3))] + [rng.choice(bads)]
        if rng.random() < 0.3:
            seq.append(rng.choice(goods))
        cases.append('fcgi %s H E X:%d' % (S(b''.join(seq)), len(seq) + 1))
    for _ in range(ctx.scale(20, 200)):
        big = bytes(rng.choice(b'abcdefgh') for _ in range(rng.choice([1024, 1025, 1500, 2047, 2048, 3000])))
        r1 = freq(b'/sync', flags=1, extra=[(b'HTTP_X_LONG', big)])
        many = [(b'HTTP_X_H%d' % i, bytes(rng.choice(b'abcdefgh') for _ in range(rng.randint(40, 200)))) for i in range(rng.randint(6, 14))]
        r2 = freq(rng.choice(SCRIPTS), flags=1, extra=many)
        cases.append('fcgi %s H E X:4' % S(r1 + r2 + r1 + rng.choice(bads)))
    # mutations / random
    for _ in range(ctx.scale(1500, 36000)):
        d = mutate(rng, rng.choice(base + goods[:2]))
        cases.append('fcgi %s %s X:3' % (S(d), 'K' if rng.random() < 0.08 else 'H E'))
    for _ in range(ctx.scale(80, 2000)):
        d = b''.join(struct.pack('>BBHHBB', rng.choice([1, 1, 1, 0]), rng.choice([1, 2, 4, 5, 9, 11, 3]), rng.choice([0, 1, 1, 2]), k, rng.choice([0, 0, 3]), 0) + rnd_bytes(rng, k)
                     for k in [rng.randint(0, 12) for _ in range(rng.randint(1, 5))])
        cases.append('fcgi %s H E X:3' % S(d))


def gen_interleaved(ctx, cases):
    """probes on other connections while a malformed connection is half-way"""
    rng = ctx.rng
    rq = http_req(b'POST', b'/up', b'HTTP/1.0', [(b'Content-Length', b'50')], b'part')
    cases.append('http %s P P:scgi P:fcgi H E X:1' % S(rq))
    cases.append('http %s P %s P:fcgi H E X:1' % (S(rq[:20]), S(rq[20:])))
    sq = scgi_enc(scgi_items(b'/up', b'20'), b'abc')
    cases.append('scgi %s P P:http P:fcgi H E X:1' % S(sq))
    cases.append('scgi %s P:http %s P H E X:1' % (S(sq[:9]), S(sq[9:])))
    fq = freq(b'/up', b'10', b'0123456789')
    for off in (3, 8, 20, len(fq) - 9, len(fq) - 3):
        cases.append('fcgi %s P P:http P:scgi %s H E X:1' % (S(fq[:off]), S(fq[off:])))
        cases.append('fcgi %s P K X:1' % S(fq[:off]))
    for _ in range(ctx.scale(30, 300)):
        proto = rng.choice(['http', 'scgi', 'fcgi'])
        d = mutate(rng, {'http': rq, 'scgi': sq, 'fcgi': fq}[proto])
        off = rng.randrange(1, len(d)) if len(d) > 1 else 1
        other = rng.choice(['http', 'scgi', 'fcgi'])
        cases.append('%s %s P:%s %s P H E X:1' % (proto, S(d[:off]), other, S(d[off:]) if d[off:] else ''))


# ------------------------------------------------------------------------------------------- truncated multipart/form-data bodies
def mp_body(boundary, parts):
    out = b''
    for name, filename, ctype, data in parts:
        out += b'--' + boundary + b'\r\nContent-Disposition: form-data; name="' + name + b'"' + (b'; filename="' + filename + b'"' if filename else b'') + b'\r\n'
        if ctype:
            out += b'Content-Type: ' + ctype + b'\r\n'
        out += b'\r\n' + data + b'\r\n'
    return out + b'--' + boundary + b'--\r\n'


def mp_request(proto, script, ctype, body, cut=None):
    """a request whose declared length is the size of the (possibly truncated) body actually sent"""
    cl = b'%d' % len(body)
    if proto == 'http':
        data = http_req(b'POST', script, b'HTTP/1.0', [(b'Content-Type', ctype), (b'Content-Length', cl)], body)
        head = len(data) - len(body)
    elif proto == 'scgi':
        data = scgi_enc(scgi_items(script, cl, [(b'CONTENT_TYPE', ctype)]), body)
        head = len(data) - len(body)
    else:
        pts = [0] + ([cut] if cut and 0 < cut < len(body) else []) + [len(body)]
        data = fbegin() + fcgi_rec(4, 1, fcgi_pairs(fenv(script, cl, [(b'CONTENT_TYPE', ctype)]))) + fcgi_rec(4, 1, b'')
        data += b''.join(fcgi_rec(5, 1, body[a:b]) for a, b in zip(pts, pts[1:]) if b > a) + fcgi_rec(5, 1, b'')
        return S(data)
    if cut and 0 < cut < len(body):
        return S(data[:head + cut]) + ' ' + S(data[head + cut:])
    return S(data)


def gen_multipart(ctx, cases):
    """multipart/form-data bodies (request::on_content_progress feeds them to the multipart parser; the end-of-body decision is
    `last parser result != eof -> 400`): a well-formed body truncated at EVERY offset, the declared length being the truncated size, on all
    three front ends - in particular right after each boundary line, after --BOUNDARY, --BOUNDARY-, --BOUNDARY--, --BOUNDARY--\\r.
    Annotation Y:mp400 = the body sent has no closing delimiter: the request must be answered 400 and no handler may run (the partial
    form must never reach the application); Y:ok = the complete body: served."""
    rng = ctx.rng
    bodies = [(b'XyZ', mp_body(b'XyZ', [(b'a', None, None, b'hello'), (b'f', b'x.txt', b'text/plain', b'file data\r\n--Xy not a boundary')])),
              (b'----b0undary', mp_body(b'----b0undary', [(b'k', None, None, b''), (b'l', None, None, b'v' * 40), (b'm', b'm.bin', b'application/octet-stream', b'\x00\x01--')]))]
    for bi, (bnd, full) in enumerate(bodies):
        ctype = b'multipart/form-data; boundary=' + bnd
        closing = full.rindex(b'--' + bnd + b'--')
        # offsets right after every delimiter line and inside the closing delimiter
        marks = set()
        q = 0
        while True:
            q = full.find(b'--' + bnd, q)
            if q < 0:
                break
            for d in range(-2, len(bnd) + 7):
                marks.add(q + d)
            q += 1
        for proto in ('http', 'scgi', 'fcgi'):
            for t in range(1, len(full) + 1):
                every = (bi == 0)
                if not every and t not in marks:
                    continue
                body = full[:t]
                ann = 'Y:ok' if t == len(full) else ('Y:mp400' if t < closing + len(bnd) + 4 else '')
                scripts = [b'/sync'] + ([b'/async', b'/upm'] if t in marks or t == len(full) else [])
                for script in scripts:
                    cases.append('%s %s H E X:1 %s' % (proto, mp_request(proto, script, ctype, body), ann))
                if t in marks and t > 3 and ann:
                    cases.append('%s %s H E X:1 %s' % (proto, mp_request(proto, b'/sync', ctype, body, cut=rng.randrange(1, t)), ann))


def gen_many(ctx, cases):
    """requests on OTHER connections, many at the same time (the event loop polls up to 128 events per round and keeps per-descriptor
    state in a map that grows with the highest descriptor): while a malformed / incomplete connection is half-way, k well-formed
    requests are sent on k connections opened together, k on both sides of 128 and 256; every one must be answered"""
    rng = ctx.rng
    rq = http_req(b'POST', b'/up', b'HTTP/1.0', [(b'Content-Length', b'50')], b'part')
    sq = scgi_enc(scgi_items(b'/up', b'20'), b'abc')
    fq = freq(b'/up', b'10', b'0123456789')
    half = {'http': rq, 'scgi': sq, 'fcgi': fq[:len(fq) - 12]}
    ks = [1, 2, 63, 64, 65, 127, 128, 129, 130, 200, 255, 256, 257, 300]
    for proto in ('http', 'scgi', 'fcgi'):
        for k in ks:
            other = rng.choice(['http', 'scgi', 'fcgi'])
            cases.append('%s %s M:%s:%d H E X:1' % (proto, S(half[proto]), other, k))
        cases.append('%s %s M:http:100 M:scgi:100 M:fcgi:100 H E X:1' % (proto, S(half[proto])))
    for _ in range(ctx.scale(12, 120)):
        proto = rng.choice(['http', 'scgi', 'fcgi'])
        d = mutate(rng, half[proto])
        off = rng.randrange(1, len(d)) if len(d) > 1 else 1
        cases.append('%s %s M:%s:%d %s M:%s:%d H E X:1' % (proto, S(d[:off]), rng.choice(['http', 'scgi', 'fcgi']), rng.choice(ks + [rng.randint(1, 400)]),
                                                        S(d[off:]) if d[off:] else '', rng.choice(['http', 'scgi', 'fcgi']), rng.randint(1, 140)))


def gen_resegmented(ctx, cases):
    """all segmentations: the same byte streams cut into 2-5 separately delivered pieces (the server consumes each piece before
    the next is sent, so every cut is a read boundary: SCGI 16-byte first read / header block / content, FastCGI
    non_blocking_read_record vs async_read_record and record headers split across reads, HTTP parser state carried over reads).
    The SCGI/FastCGI model is segmentation independent by construction - this is where that is checked against the code."""
    rng = ctx.rng
    pool = {'http': [], 'scgi': [], 'fcgi': []}
    for c in cases:
        t = c.split()
        if len(t) >= 4 and t[1].startswith('S:') and t[2:4] == ['H', 'E'] and 4 <= len(t[1]) - 2 <= 24000:
            pool[t[0]].append(t)
    out = []
    for proto, n in (('http', ctx.scale(500, 6000)), ('scgi', ctx.scale(500, 6000)), ('fcgi', ctx.scale(800, 9000))):
        if not pool[proto]:
            continue
        for _ in range(n):
            t = rng.choice(pool[proto])
            d = unhx(t[1][2:])
            L = len(d)
            marks = [1, 2, 7, 8, 9, 15, 16, 17, L - 1, L - 2, L - 8, L - 9, L // 2]
            if proto == 'fcgi':
                q = 0
                while q + 8 <= L:     # record boundaries and the byte after each record header
                    marks += [q, q + 1, q + 8]
                    q += 8 + d[q + 4] * 256 + d[q + 5] + d[q + 6]
            elif proto == 'scgi':
                i = d.find(b':')
                marks += [i, i + 1, d.find(b',', max(i, 0)), d.find(b',', max(i, 0)) + 1]
            else:
                i = d.find(b'\r\n\r\n')
                marks += [i, i + 1, i + 2, i + 3, i + 4, d.find(b'\r\n') + 1]
            k = rng.randint(1, 4)
            cuts = set()
            for _ in range(k):
                cuts.add(rng.choice(marks) if rng.random() < 0.6 else rng.randrange(1, L))
            pts = [0] + sorted(x for x in cuts if 0 < x < L) + [L]
            if len(pts) < 3:
                continue
            segs = [S(d[a:b]) for a, b in zip(pts, pts[1:])]
            if rng.random() < 0.3:
                # a well-formed probe on another connection (any protocol) while this connection is half-way
                segs.insert(rng.randrange(1, len(segs)), rng.choice(['P', 'P:http', 'P:scgi', 'P:fcgi']))
            out.append(' '.join([proto] + segs + t[2:]))
    cases += out


# ------------------------------------------------------------------------------------------- connection::env_ (string_map) boundaries
ENV_STD_HTTP = [b'SERVER_SOFTWARE', b'SERVER_NAME', b'SERVER_PORT', b'GATEWAY_INTERFACE', b'REMOTE_HOST', b'REMOTE_ADDR']


def filler_names(k, with_partner):
    """k names of CGI variables HTTP_X_<tag><i>.  The PJW hash of ...AQ<i> and ...BA<i> is the same 32-bit value (16*'A'+'Q' = 16*'B'+'A'), so
    partners land in one probe chain and are told apart by the key comparison only; without partner the BA name is an absent name
    whose hash is present in the table."""
    out = []
    for j in range(k):
        if with_partner and j % 2 == 1:
            out.append(b'HTTP_X_BA%d' % (j // 2))
        else:
            out.append(b'HTTP_X_AQ%d' % (j // 2 if with_partner else j))
    return out


def env_request(proto, n, script, dups, rng, partner=True, keep=False):
    """a well-formed request that makes exactly n add() calls on connection::env_ (n counts duplicates), or None if this front end
    cannot produce that count; returns (bytes, V: annotation)"""
    if proto == 'http':
        # reset_all: SERVER_SOFTWARE SERVER_NAME SERVER_PORT GATEWAY_INTERFACE; request line: SERVER_PROTOCOL; one per header line;
        # process_request: REQUEST_METHOD REMOTE_HOST REMOTE_ADDR [QUERY_STRING] SCRIPT_NAME PATH_INFO
        query = rng.random() < 0.5
        h = n - 10 - (1 if query else 0)
        if h < 1:
            query = False
            h = n - 10
        if h < 1:
            return None
        fixed = [(k, b'') for k in ENV_STD_HTTP] + [(b'SERVER_PROTOCOL', b'HTTP/1.0'), (b'REQUEST_METHOD', b'GET'), (b'SCRIPT_NAME', script),
                                                      (b'PATH_INFO', b'/e')] + ([(b'QUERY_STRING', b'q=1')] if query else [])
        nf = h - 1 - (1 if keep else 0)
        if nf < 0:
            return None
    else:
        fixed = [(b'CONTENT_LENGTH', b'0'), (b'REQUEST_METHOD', b'GET'), (b'SCRIPT_NAME', script), (b'PATH_INFO', b'/e')]
        if proto == 'scgi':
            fixed.insert(1, (b'SCGI', b'1'))
        keep = max(0, min(len(fixed), n - 1))
        # SCRIPT_NAME first: with very few variables the request is still routed
        fixed = [fixed[-2]] + [x for i, x in enumerate(fixed) if i != len(fixed) - 2][:max(0, keep - 1)] if n >= 2 else []
        nf = n - 1 - len(fixed)
        if n < 2 or nf < 0:
            return None
    names = filler_names(nf, partner)
    fill = [(nm, b'v%d' % i) for i, nm in enumerate(names)]
    if dups and nf >= 2:
        # some of the fillers repeat an earlier name with another value (the count of add() calls stays n)
        for i in rng.sample(range(1, nf), min(nf - 1, rng.randint(1, 4))):
            fill[i] = (fill[rng.randrange(0, i)][0], b'd%d' % i)
    present = [k for k, _ in fill]
    looks = []
    if present:
        looks += [rng.choice(present) for _ in range(3)] + [present[0], present[-1]]
    looks += [b'HTTP_X_BA%d' % rng.randrange(0, 200), b'HTTP_X_AQ%d' % rng.randrange(0, 200), b'HTTP_X_NOT_SENT', b'CONTENT_TYPE', b'HTTP_COOKIE', b'SCRIPT_NAME', b'X']
    looks = list(dict.fromkeys(looks))
    xenv = (b'HTTP_X_ENV', b';'.join(looks))
    pos = rng.randrange(0, len(fill) + 1)
    vars_ = fill[:pos] + [xenv] + fill[pos:]
    if proto == 'http' and keep:
        vars_.insert(rng.randrange(0, len(vars_) + 1), (b'HTTP_CONNECTION', b'keep-alive'))
    if proto == 'http':
        hdrs = [(k[5:].replace(b'_', b'-').title() if rng.random() < 0.5 else k[5:].replace(b'_', b'-'), v) for k, v in vars_]
        data = http_req(b'GET', script + b'/e' + (b'?q=1' if query else b''), b'HTTP/1.0', hdrs)
        allv = fixed + vars_
    elif proto == 'scgi':
        allv = fixed + vars_
        data = scgi_enc(allv)
    else:
        allv = fixed + vars_
        cut = rng.choice([0, 0, len(allv) // 2])
        blob = fcgi_pairs(allv)
        recs = fcgi_rec(4, 1, blob) if not cut else fcgi_rec(4, 1, fcgi_pairs(allv[:cut])) + fcgi_rec(4, 1, fcgi_pairs(allv[cut:]))
        data = fbegin(flags=1 if keep else 0) + recs + fcgi_rec(4, 1, b'') + fcgi_rec(5, 1, b'')
    assert len(allv) == n, (proto, n, len(allv))
    return data, env_spec(allv, looks, anyval=ENV_STD_HTTP if proto == 'http' else ())


def padded_request(proto, total_len, keep, script=b'/sync'):
    """a small annotated request (http / fcgi) of exactly total_len bytes (a variable HTTP_X_PAD of the needed length); fcgi: one PARAMS
    record, so the record boundaries are at 16, len-16, len-8"""
    looks = [b'HTTP_X_PAD', b'HTTP_X_NOT_SENT', b'SCRIPT_NAME']
    xenv = (b'HTTP_X_ENV', b';'.join(looks))

    def build(padlen):
        pad = (b'HTTP_X_PAD', b'p' * padlen)
        if proto == 'http':
            vars_ = [xenv, pad] + ([(b'HTTP_CONNECTION', b'keep-alive')] if keep else [])
            data = http_req(b'GET', script + b'/e', b'HTTP/1.0', [(k[5:].replace(b'_', b'-'), v) for k, v in vars_])
            allv = [(k, b'') for k in ENV_STD_HTTP] + [(b'SERVER_PROTOCOL', b'HTTP/1.0'), (b'REQUEST_METHOD', b'GET'), (b'SCRIPT_NAME', script), (b'PATH_INFO', b'/e')] + vars_
        else:
            allv = [(b'SCRIPT_NAME', script), (b'CONTENT_LENGTH', b'0'), (b'REQUEST_METHOD', b'GET'), (b'PATH_INFO', b'/e'), xenv, pad]
            data = fbegin(flags=1 if keep else 0) + fcgi_rec(4, 1, fcgi_pairs(allv)) + fcgi_rec(4, 1, b'') + fcgi_rec(5, 1, b'')
        return data, allv
    base, _ = build(200)
    padlen = 200 + total_len - len(base)
    if padlen < 128 or padlen > 1500:
        return None
    data, allv = build(padlen)
    assert len(data) == total_len
    return data, env_spec(allv, looks, anyval=ENV_STD_HTTP if proto == 'http' else ())


def gen_env(ctx, cases):
    """the open-addressing table behind connection::env_ (private/string_map.h: 64 slots, doubled when total_*2 >= size, i.e. at the 33rd,
    65th, 129th add): for each front end every number of add() calls from 1 (http: 11) to 140 - every capacity and load-factor boundary is
    crossed - with and without duplicated names, with names whose hashes collide, served by the synchronous (worker thread) and the
    asynchronous (event-loop thread) echo application, which looks up present and absent names and walks the table; the probe request on a
    fresh connection follows every case.  A table that can fill up completely makes get() of an absent name spin for ever in the
    event-loop thread: the harness watchdog reports that case as stalled within seconds."""
    rng = ctx.rng
    for proto in ('http', 'scgi', 'fcgi'):
        for n in range(1, 141):
            for dups in (False, True):
                script = b'/async' if (n + dups) % 2 else b'/sync'
                r = env_request(proto, n, script, dups, rng, partner=(n % 3 != 0))
                if r is None:
                    continue
                data, v = r
                cases.append('%s %s H E X:1 %s' % (proto, S(data), v))
        # boundaries again with the other application kind, several times in thorough
        for rep in range(ctx.scale(1, 6)):
            for n in (31, 32, 33, 34, 63, 64, 65, 66, 127, 128, 129, 130):
                for script in (b'/sync', b'/async'):
                    r = env_request(proto, n, script, rep % 2 == 1, rng, partner=rng.random() < 0.6)
                    if r:
                        cases.append('%s %s H E X:1 %s' % (proto, S(r[0]), r[1]))
    # kept-alive connections: env_ and pool_ are cleared between the requests (reset_all): every reply must show exactly the variables
    # of its own request, whatever the previous request left in the table (counts on both sides of every growth)
    for proto in ('http', 'fcgi'):
        for _ in range(ctx.scale(40, 400)):
            k = rng.randint(2, 3)
            reqs = []
            for q in range(k):
                n = rng.choice([rng.randint(12, 140), rng.choice([31, 32, 33, 34, 63, 64, 65, 66, 127, 128, 129])])
                r = env_request(proto, n, rng.choice([b'/sync', b'/async']), rng.random() < 0.3, rng, partner=rng.random() < 0.6, keep=(q < k - 1 or rng.random() < 0.3))
                if r:
                    reqs.append(r)
            if reqs:
                cases.append('%s %s H E X:%d %s' % (proto, ' '.join(S(d) for d, _ in reqs), len(reqs), ' '.join(v for _, v in reqs)))
    # the read path under well-formed traffic with an exact expectation (annotated requests): (a) one request in 2-4 pieces cut inside
    # records / header lines / the netstring (FastCGI: the rest of a partly consumed read cache is moved to the front - memmove - before the
    # next read; HTTP: parser state across reads; SCGI: 16-byte first read); (b) FastCGI: two requests of a kept connection in one piece plus
    # the head of the next record; (c) long kept connections whose accumulated bytes cross the 16384-byte FastCGI read cache once and
    # twice (and many 512-byte HTTP input buffers), one request per piece so that the cache drains completely in between, and the same with
    # pieces cut at odd offsets: state that is not reset between requests shows after thousands of bytes only
    for proto in ('http', 'scgi', 'fcgi'):
        for _ in range(ctx.scale(40, 400)):
            r = env_request(proto, rng.choice([12, 20, 33, 40, 64, 65, 100]), rng.choice([b'/sync', b'/async']), False, rng)
            if not r:
                continue
            d, v = r
            cuts = sorted(set(rng.randrange(1, len(d)) for _ in range(rng.randint(1, 3))))
            pts = [0] + cuts + [len(d)]
            cases.append('%s %s H E X:1 %s' % (proto, ' '.join(S(d[a:b]) for a, b in zip(pts, pts[1:])), v))
    for _ in range(ctx.scale(30, 300)):
        rs = [env_request('fcgi', rng.randint(6, 40), rng.choice([b'/sync', b'/async']), False, rng, keep=True) for _ in range(3)]
        d = b''.join(x[0] for x in rs)
        l01 = len(rs[0][0]) + len(rs[1][0])
        cut = l01 + rng.choice([1, 4, 7, 8, 9, 12, rng.randrange(1, len(rs[2][0]))])
        c2 = rng.choice([len(rs[0][0]) // 2, len(rs[0][0]) + 3, 5])
        pts = sorted(set([0, c2 if rng.random() < 0.5 else 0, min(cut, len(d) - 1), len(d)]))
        cases.append('fcgi %s H E X:3 %s' % (' '.join(S(d[a:b]) for a, b in zip(pts, pts[1:])), ' '.join(x[1] for x in rs)))
    for proto in ('fcgi', 'http'):
        for target in [16384, 17000, 33000] + [rng.randint(16000, 40000) for _ in range(ctx.scale(2, 12))]:
            for aligned in (True, False):
                reqs = []
                tot = 0
                while tot < target and len(reqs) < 400:
                    r = env_request(proto, rng.randint(14, 24), rng.choice([b'/sync', b'/async']), False, rng, keep=True)
                    if r:
                        reqs.append(r)
                        tot += len(r[0])
                reqs.append(env_request(proto, 15, b'/sync', False, rng, keep=False))
                if aligned:
                    segs = [S(d) for d, _ in reqs]
                else:
                    d = b''.join(x[0] for x in reqs)
                    pts = [0]
                    while pts[-1] < len(d):
                        pts.append(min(len(d), pts[-1] + rng.choice([1, 7, 100, 511, 512, 513, 1000, 3000])))
                    segs = [S(d[a:b]) for a, b in zip(pts, pts[1:])]
                cases.append('%s %s H E X:%d %s' % (proto, ' '.join(segs), len(reqs), ' '.join(v for _, v in reqs)))
    # (d) capacity of the read buffers hit EXACTLY at a record / request boundary: FastCGI keeps a 16384-byte read cache; a kept connection
    # (one request per piece) is padded so that byte 16384 of the connection is the last byte of a request / of the BEGIN_REQUEST record /
    # of the PARAMS record / of the empty PARAMS record of the next request; HTTP: pipelined kept-alive requests in one piece with the
    # first (or the first two) ending exactly at, one before and one after a multiple of the 512-byte input buffer
    for capacity in (16384, 32768):
        for where in ('end', 'begin', 'params', 'params-end'):
            for rep in range(ctx.scale(1, 4)):
                reqs = []
                tot = 0
                while tot < capacity - 2600:
                    r = padded_request('fcgi', rng.randint(420, 900), True, rng.choice([b'/sync', b'/async']))
                    reqs.append(r)
                    tot += len(r[0])
                ylen = rng.randint(420, 700)
                off = {'end': 0, 'begin': 16, 'params': ylen - 16, 'params-end': ylen - 8}[where]
                xlen = capacity - off - tot
                x1 = padded_request('fcgi', xlen // 2, True)
                x2 = padded_request('fcgi', xlen - xlen // 2, True)
                y = padded_request('fcgi', ylen, True, b'/async')
                z = padded_request('fcgi', 450, False)
                if not (x1 and x2 and y and z):
                    continue
                reqs += [x1, x2, y, z]
                assert sum(len(r[0]) for r in reqs[:-2]) + off == capacity
                if rep % 2 == 0:
                    segs = [S(d) for d, _ in reqs]
                else:        # the boundary record delivered on its own as well
                    segs = [S(d) for d, _ in reqs[:-2]] + ([S(y[0][:off]), S(y[0][off:])] if off else [S(y[0])]) + [S(z[0])]
                cases.append('fcgi %s H E X:%d %s' % (' '.join(segs), len(reqs), ' '.join(v for _, v in reqs)))
    for mult in (1, 2, 3, 4, 32):
        for delta in (-1, 0, 1):
            for two in (False, True):
                l1 = 512 * mult + delta
                if two:
                    a = padded_request('http', 400, True)
                    b = padded_request('http', l1 - 400, True) if l1 - 400 >= 380 else None
                    first = [a, b]
                else:
                    first = [padded_request('http', l1, True)] if l1 <= 1700 else [None]
                if any(x is None for x in first):
                    continue
                reqs = first + [padded_request('http', 450, True, b'/async'), padded_request('http', 430, False)]
                d = b''.join(x[0] for x in reqs)
                cases.append('http %s H E X:%d %s' % (S(d), len(reqs), ' '.join(v for _, v in reqs)))
    # names whose 32-bit PJW hash equals that of a name the framework looks up (same probe chain, told apart by strcmp only):
    # SCRIPT_NALU ~ SCRIPT_NAME, CONTENT_LENGSX ~ CONTENT_LENGTH, CONTENT_TYOU ~ CONTENT_TYPE; sent BEFORE / INSTEAD of the real one
    coll = [(b'SCRIPT_NALU', b'/async'), (b'CONTENT_LENGSX', b'5'), (b'CONTENT_LENGSX', b'-1'), (b'CONTENT_TYOU', b'multipart/form-data; boundary=x'), (b'CONTENT_LENGSX', b'99999')]
    for proto in ('scgi', 'fcgi'):
        for ck, cv in coll:
            for real_present in (True, False):
                for nfill in (0, 40):
                    allv = [(ck, cv)] + [(nm, b'v') for nm in filler_names(nfill, True)]
                    std = [(b'SCRIPT_NAME', b'/sync'), (b'CONTENT_LENGTH', b'0'), (b'REQUEST_METHOD', b'GET'), (b'PATH_INFO', b'/c')]
                    allv += [kv for kv in std if real_present or kv[0][:9] != ck[:9]]
                    looks = [ck, b'SCRIPT_NAME', b'CONTENT_LENGTH', b'CONTENT_TYPE']
                    allv.append((b'HTTP_X_ENV', b';'.join(looks)))
                    data = scgi_enc(allv) if proto == 'scgi' else fbegin() + fcgi_rec(4, 1, fcgi_pairs(allv)) + fcgi_rec(4, 1, b'') + fcgi_rec(5, 1, b'')
                    served = any(k == b'SCRIPT_NAME' for k, _ in allv)
                    cases.append('%s %s H E X:1 %s' % (proto, S(data), env_spec(allv, looks) if served else ''))
    # which of two adds of one name wins decides the routing / the declared length: first add below 33 variables, reversed by every
    # growth of the table (model: SMapDefs.v spec_run; no annotation - the correspondence with the model decides)
    for proto in ('scgi', 'fcgi'):
        ns = [2, 3, 5, 16, 30, 31, 32, 33, 34, 35, 40, 62, 63, 64, 65, 66, 67, 100, 126, 127, 128, 129, 130, 131, 140]
        if ctx.tier == 'quick':
            ns = [2, 3, 16, 31, 32, 33, 34, 40, 63, 64, 65, 66, 100, 128, 129, 130]
        for n in ns:
            combos = {(0, 1), (0, n - 1), (n - 2, n - 1), (0, n // 2)}
            for _ in range(ctx.scale(1, 8)):
                i = rng.randrange(0, n - 1)
                combos.add((i, rng.randrange(i + 1, n)))
            for i, j in sorted(combos):
                if not (0 <= i < j < n):
                    continue
                for kind in (0, 1):
                    if kind == 0:
                        a, b = (b'SCRIPT_NAME', b'/sync'), (b'SCRIPT_NAME', b'/async')
                        rest = [(b'CONTENT_LENGTH', b'0')]
                    else:
                        a, b = (b'CONTENT_LENGTH', b'0'), (b'CONTENT_LENGTH', b'-1')
                        rest = [(b'SCRIPT_NAME', b'/sync')]
                    if rng.random() < 0.5:
                        a, b = (a[0], b[1]), (b[0], a[1])
                    if n < 2 + len(rest):
                        continue
                    fill = [(nm, b'v') for nm in filler_names(n - 2 - len(rest), True)]
                    allv = fill[:]
                    for q in rest:
                        allv.insert(rng.randrange(0, len(allv) + 1), q)
                    allv.insert(min(i, len(allv)), a)
                    allv.insert(min(j, len(allv)), b)
                    data = scgi_enc(allv) if proto == 'scgi' else fbegin() + fcgi_rec(4, 1, fcgi_pairs(allv)) + fcgi_rec(4, 1, b'') + fcgi_rec(5, 1, b'')
                    cases.append('%s %s H E X:1' % (proto, S(data)))


def gen_smap(ctx):
    """operation sequences for the direct string_map / string_pool harness (harness/C02_smap.cpp) and the extracted model"""
    rng = ctx.rng
    out = []

    def A(k, v):
        return 'a:%s:%s' % (hx(k), hx(v))

    def G(k):
        return 'g:' + hx(k)
    # 1. every count 0..300 of distinct names: state, look-ups of present and absent names (incl. absent names with a present hash), walk
    for n in (list(range(0, 141)) + [191, 192, 193, 255, 256, 257, 258, 300] if ctx.tier == 'quick' else list(range(0, 301)) + [511, 512, 513, 514, 600]):
        names = filler_names(n, n % 2 == 0)
        ops = [A(k, b'v%d' % i) for i, k in enumerate(names)]
        ops += ['d'] + [G(k) for k in (names[:2] + names[-2:] + [b'HTTP_X_BA%d' % n, b'HTTP_X_AQ%d' % (n + 7), b'nope', b''])]
        if n <= 140 or n % 16 in (0, 1, 15):
            ops.append('i')
        out.append('smap ' + ' '.join(ops))
    # 2. absent look-up after EVERY add up to 140 adds (exactly capacity/2 and capacity adds included), with state dumps at the boundaries
    for variant in range(ctx.scale(3, 12)):
        ops = []
        names = [bytes(rng.choice(b'ABQXY_') for _ in range(rng.randint(1, 6))) + b'%d' % i for i in range(140)] if variant else filler_names(140, True)
        for i, k in enumerate(names):
            ops.append(A(k, b'%d' % i))
            ops.append(G(b'ABSENT' + (b'%d' % i if variant % 2 else b'')))
            if i + 1 in (31, 32, 33, 63, 64, 65, 127, 128, 129):
                ops += ['d', G(names[0]), G(k)]
        ops.append('i')
        out.append('smap ' + ' '.join(ops))
    # 3. duplicates around every growth: which add wins
    for n in list(range(2, 70)) + [100, 127, 128, 129, 130, 200, 257]:
        for _ in range(ctx.scale(1, 4)):
            names = filler_names(n, True)
            i = rng.randrange(0, n - 1)
            j = rng.randrange(i + 1, n)
            names[j] = names[i]
            if n > 4 and rng.random() < 0.5:
                names[rng.randrange(0, n)] = names[i]
            ops = [A(k, b'%d' % q) for q, k in enumerate(names)] + [G(names[i]), 'd', 'i']
            out.append('smap ' + ' '.join(ops))
    # 4. clear between requests: table and pool are reset (pool: page boundaries, oversized strings), then refilled to other counts
    for _ in range(ctx.scale(60, 600)):
        ops = []
        for rnd in range(rng.randint(2, 4)):
            n = rng.choice([0, 1, 31, 32, 33, 63, 64, 65, rng.randint(0, 140)])
            big = rng.random() < 0.3
            for i in range(n):
                v = bytes(rng.choice(b'abc') for _ in range(rng.choice([0, 1, 100, 1023, 1024, 1025, 2047, 2048, 3000]))) if big and rng.random() < 0.2 else b'%d.%d' % (rnd, i)
                ops.append(A(b'K%d' % (i if rng.random() < 0.9 else rng.randrange(0, n)), v))
            ops += [G(b'K0'), G(b'K%d' % max(0, n - 1)), G(b'K%d' % n), 'd']
            if rng.random() < 0.3:
                ops.append('i')
            ops.append('c')
            ops += [G(b'K0'), 'd', 'i']
        out.append('smap ' + ' '.join(ops))
    # 6. the pool behind the table (trace on): where every key / value is put - page boundaries (a string with its NUL fills the page exactly /
    # by one byte not), strings of 1023..1025 bytes (own page iff (len+1)*2 > 2048), oversized strings between small ones, clear after them
    for _ in range(ctx.scale(80, 800)):
        ops = ['T', 'p']
        for rnd in range(rng.randint(1, 3)):
            for i in range(rng.randint(1, 25)):
                ln = rng.choice([0, 1, 5, 30, 200, 500, 1021, 1022, 1023, 1024, 1025, 2046, 2047, 2048, 3000, rng.randint(0, 1100)])
                kl = rng.choice([1, 3, 8, 8, 20, 1023, 1024])
                ops.append(A(bytes(rng.choice(b'KLMN') for _ in range(kl)) + b'%d' % i, bytes(rng.choice(b'xyz') for _ in range(ln))))
                if rng.random() < 0.3:
                    ops.append('p')
            ops += ['p', 'd', 'c', 'p']
        out.append('smap ' + ' '.join(ops))
    for fill in range(2030, 2050):       # exact fill of the first page by two strings, then one more byte
        a = fill // 2
        out.append('smap T ' + ' '.join([A(b'k', b'a' * a), 'p', A(b'l', b'b' * (fill - a - 8)), 'p', A(b'm', b''), 'p', 'i', 'c', 'p']))
    # 5. random op sequences over a small alphabet (many equal hashes modulo the size; full-hash collisions AQ/BA), NUL inside, empty key
    alpha = [b'', b'A', b'AQ', b'BA', b'AQ1', b'BA1', b'Q', b'a\0b', b'CONTENT_LENGTH', b'CONTENT_LENGSX'] + [bytes([64 + i]) for i in range(1, 20)] + [b'%c%c' % (65 + i // 8, 65 + i % 8) for i in range(64)]
    for _ in range(ctx.scale(300, 6000)):
        ops = []
        for _ in range(rng.randint(1, 120)):
            k = rng.random()
            if k < 0.6:
                ops.append(A(rng.choice(alpha), b'%d' % rng.randrange(1000)))
            elif k < 0.9:
                ops.append(G(rng.choice(alpha)))
            elif k < 0.93:
                ops.append('c')
            elif k < 0.97:
                ops.append('d')
            else:
                ops.append('i')
        ops += ['d', 'i']
        out.append('smap ' + ' '.join(ops))
    return out


def smap_oracle(case, out):
    """property of the table evaluated on the implementation output alone (independent re-computation, no model): a look-up never
    spins, the load factor is at most 1/2 and the occupied slots equal the adds since the last clear, a name added once is found with its
    value, a name added several times with one of its values, a name not added is absent, the walk lists every add exactly once
    (its order - reverse insertion order into the current table, which every growth reverses - is compared with the model only)"""
    if 'HANG' in out:
        return ('string-map-loop-does-not-terminate', 'a probe loop of string_map (get / insert) did not end within 1 s of CPU time: ' + out[-200:])
    if out.startswith('<crash'):
        return ('string-map-crash', out[:1500])
    adds = []
    res = out.split()
    ri = 0
    trace = False
    live = {}      # page -> [(offset, size)] of the strings stored since the last clear
    for t in case.split()[1:]:
        if t == 'c':
            adds = []
            live = {}
            continue
        if t == 'T':
            trace = True
            continue
        if t.startswith('a:'):
            _, k, v = t.split(':')
            adds.append((unhx(k).split(b'\0')[0], unhx(v).split(b'\0')[0]))
            if trace:
                if ri >= len(res) or not res[ri].startswith('@'):
                    return ('string-map-output', 'missing pool trace for op %s' % t[:40])
                for h, st in zip(res[ri][1:].split('/'), adds[-1]):
                    pg, _, off = h.partition('.')
                    pg, off, size = int(pg), int(off), len(st) + 1
                    if pg < 0:
                        return ('string-pool-outside-pages', 'a string of %d bytes was put outside every page of the pool' % size)
                    if (size * 2 > 2048 and off != 0) or (size * 2 <= 2048 and off + size > 2048):
                        return ('string-pool-out-of-page', 'a string of %d bytes (with NUL) was put at offset %d of page %d (page size 2048)' % (size, off, pg))
                    for o2, s2 in live.get(pg, []):
                        if off < o2 + s2 and o2 < off + size:
                            return ('string-pool-overlap', 'two live strings overlap in page %d: [%d,%d) and [%d,%d)' % (pg, o2, o2 + s2, off, off + size))
                    live.setdefault(pg, []).append((off, size))
                ri += 1
            continue
        if ri >= len(res):
            return ('string-map-output', 'missing output for op %s' % t)
        o = res[ri]
        ri += 1
        if t == 'p':
            npages, cur, free = [int(x) for x in o[1:].split(',')]
            if npages < 1 or cur < 0 or not 0 <= free <= 2048 or (not live and not adds and (npages, cur, free) != (1, 0, 2048) and trace and False):
                return ('string-pool-state', 'pool state %s' % o)
            if not adds and (npages, free) != (1, 2048):
                return ('string-pool-not-reset', 'no string stored since the last clear but the pool has %d pages and %d free bytes' % (npages, free))
        elif t == 'd':
            size, total, occ = [int(x) for x in o[1:].split(',')]
            if total != len(adds) or occ != len(adds):
                return ('string-map-count', 'after %d adds: total_ = %d, occupied slots = %d' % (len(adds), total, occ))
            if total * 2 > size or size < 64:
                return ('string-map-load-factor', 'table of %d slots holds %d entries (more than half full: a full table makes look-ups of absent names spin)' % (size, total))
        elif t == 'i':
            items = [x for x in o[1:].split(',') if x]
            got = []
            for it in items:
                pos, _, kv = it.partition(':')
                if kv == 'EMPTY' or 'CYCLE' in it:
                    return ('string-map-chain', 'the walk begin()..end() meets an empty slot or does not end: ' + it)
                k, _, v = kv.partition('=')
                got.append((unhx(k), unhx(v)))
            if sorted(got) != sorted(adds):
                return ('string-map-walk', 'the walk begin()..end() does not list every add since the last clear exactly once: %d entries for %d adds' % (len(got), len(adds)))
        elif t.startswith('g:'):
            k = unhx(t[2:]).split(b'\0')[0]
            vals = [v for kk, v in adds if kk == k]
            if not vals:
                if o != '~':
                    return ('string-map-get-absent', 'get(%r) of a name that was not added returned %s' % (k, o))
            elif o == '~' or unhx(o[1:]) not in vals:
                return ('string-map-get-present', 'get(%r) returned %s; values added for it: %r' % (k, o, vals[:4]))
    return None


def gen_cases(ctx):
    cases = []
    gen_http(ctx, cases)
    gen_scgi(ctx, cases)
    gen_fcgi(ctx, cases)
    gen_interleaved(ctx, cases)
    gen_resegmented(ctx, cases)
    gen_env(ctx, cases)        # after the re-segmentation pool is drawn: these are well-formed and large
    gen_many(ctx, cases)
    gen_multipart(ctx, cases)
    return [' '.join(c.split()) for c in cases]


# ------------------------------------------------------------------------------------------- running the real service
def run_impl_slice(exe, cases, env):
    """returns list of output lines; a crash is reported as '<crash ...>' for the case that was being processed
    and the harness is restarted for the remaining cases"""
    outs = []
    i = 0
    restarts = 0
    same_spot = 0
    setup = ['probe %s %s' % (p, hx(b)) for p, b in PROBE.items()] + ['probe-body ' + hx(PROBE_BODY)]
    while i < len(cases):
        part = cases[i:]
        try:
            p = subprocess.run([exe], input=('\n'.join(setup + part) + '\n').encode(), capture_output=True, env=env, timeout=1500)
            so, se, rc = p.stdout.decode(errors='replace'), p.stderr.decode(errors='replace'), p.returncode
        except subprocess.TimeoutExpired as e:
            so, se, rc = (e.stdout or b'').decode(errors='replace'), 'harness timed out', -9
        lines = so.split('\n')
        if lines and lines[-1] == '':
            lines.pop()
        # (the service thread may report before the main thread has echoed the set-up lines: filter first, then drop those)
        threw = [l for l in lines if l.startswith('SERVICE-THREW') or l.startswith('HARNESS-EXCEPTION')]
        lines = [l for l in lines if not (l.startswith('SERVICE-THREW') or l.startswith('HARNESS-EXCEPTION'))]
        lines = lines[len(setup):]
        good = lines[:len(part)]
        if not good and rc != 0 and same_spot < 2:
            # the process failed before finishing a single case: possibly a start-up failure of the service (the HTTP port is chosen
            # by bind(0)/close and can be taken by another process before the service listens on it). Run this slice again; a
            # crash caused by the first case itself reproduces and is reported after the retries.
            same_spot += 1
            time.sleep(0.2 * same_spot)
            continue
        same_spot = 0
        outs += good
        i += len(good)
        if len(good) == len(part) and rc == 0:
            break
        if good and good[-1].endswith(' restart=1') and i < len(cases):
            continue     # the harness ended itself after a case that timed out or stalled the event loop (that case has its line)
        if good and good[-1].endswith(' restart=1'):
            break
        if i < len(cases):
            sig = ' '.join(threw) + ' ' + ' | '.join(l.strip() for l in se.split('\n') if re.search(r'ERROR|runtime error|#[0-9] |SUMMARY|READ of|WRITE of', l))[:1800]
            outs.append('<crash rc=%s> %s' % (rc, sig))
            i += 1
            restarts += 1
            if restarts > 25:
                outs += ['<not-run>'] * (len(cases) - i)
                break
        elif rc != 0:
            # all cases answered but the process failed at shutdown
            outs.append('<shutdown rc=%s> %s' % (rc, se[-600:].replace('\n', ' | ')))
            break
    return outs


def run_impl(exe, cases, env, jobs):
    n = len(cases)
    jobs = max(1, min(jobs, (n + 49) // 50))
    # interleave so that expensive classes spread over the workers
    parts = [cases[k::jobs] for k in range(jobs)]
    with concurrent.futures.ThreadPoolExecutor(jobs) as ex:
        rs = list(ex.map(lambda part: run_impl_slice(exe, part, env), parts))
    out = [None] * n
    extra = []
    for k, (part, r) in enumerate(zip(parts, rs)):
        for j in range(len(part)):
            out[k + j * jobs] = r[j] if j < len(r) else '<not-run>'
        extra += r[len(part):]
    return out, extra, jobs


def run_smap_impl(exe, cases, env):
    """direct harness: one line per case; a HANG line ends the process (watchdog), the rest of the cases goes to a fresh process"""
    outs = []
    i = 0
    restarts = 0
    while i < len(cases):
        try:
            p = subprocess.run([exe], input=('\n'.join(cases[i:]) + '\n').encode(), capture_output=True, env=env, timeout=600)
            so, se, rc = p.stdout.decode(errors='replace'), p.stderr.decode(errors='replace'), p.returncode
        except subprocess.TimeoutExpired as e:
            so, se, rc = (e.stdout or b'').decode(errors='replace'), 'harness timed out', -9
        lines = so.split('\n')
        if lines and lines[-1] == '':
            lines.pop()
        lines = lines[:len(cases) - i]
        outs += lines
        i += len(lines)
        if i >= len(cases):
            break
        if not (lines and lines[-1].endswith('HANG')):
            sig = ' | '.join(l.strip() for l in se.split('\n') if re.search(r'ERROR|runtime error|#[0-9] |SUMMARY|READ of|WRITE of', l))[:1500]
            outs.append('<crash rc=%s> %s' % (rc, sig))
            i += 1
        restarts += 1
        if restarts > 40:
            outs += ['<not-run>'] * (len(cases) - i)
            break
    return outs


def smap_stage(ctx, mexe, env):
    """private/string_map.h driven directly (string_pool + string_map, ASan+UBSan), compared with the extracted model of SMapDefs.v
    (slot positions, chain order, sizes, every look-up; the model driver also evaluates the closed form spec_get proved equal to
    smap_get) and judged by smap_oracle on the implementation output alone"""
    cov = ctx.coverage
    exe, err = vlib.build_harness('C02_smap', ['C02_smap.cpp'], asan=True, link=False)
    if not exe:
        ctx.broke('string_map harness build failed', err)
        return
    cases = [c for c in (ctx.replay_cases if ctx.replay_cases is not None else vlib.corpus_cases('C02') + gen_smap(ctx)) if c.startswith('smap ')]
    if not cases:
        return
    t0 = time.time()
    jobs = 4
    parts = [cases[k::jobs] for k in range(jobs)]
    with concurrent.futures.ThreadPoolExecutor(jobs) as ex:
        rs = list(ex.map(lambda part: run_smap_impl(exe, part, env), parts))
    out_i = [None] * len(cases)
    for k, (part, r) in enumerate(zip(parts, rs)):
        for j in range(len(part)):
            out_i[k + j * jobs] = r[j] if j < len(r) else '<not-run>'
    out_m = None
    if mexe:
        rc_m, out_m, err_m = vlib.run_lines_parallel(mexe, cases, jobs=4)
        if len(out_m) != len(cases):
            ctx.broke('model driver produced %d lines for %d string_map cases' % (len(out_m), len(cases)), err_m[-1500:])
            out_m = None
    ndiff = 0
    nfail = {}
    nops = 0
    for i, c in enumerate(cases):
        a = out_i[i]
        nops += c.count(' ')
        if a == '<not-run>':
            ctx.broke('string_map case not run', c[:200])
            continue
        r = smap_oracle(c, a)
        if r:
            nfail[r[0]] = nfail.get(r[0], 0) + 1
            ctx.fail(r[0], r[1] + '\n  case: %s\n  impl: %s' % (c[:300], a[-300:]), c)
        elif out_m is not None:
            if 'SPEC' in out_m[i] or 'HANG' in out_m[i] or 'MODEL-EXN' in out_m[i]:
                ctx.broke('extracted string_map model: smap_get differs from spec_get or reports a non-terminating loop although Props.v proves neither happens',
                          'case: %s\nmodel: %s' % (c[:600], out_m[i][:600]))
            elif a.strip() != out_m[i].strip():
                ndiff += 1
                if ndiff <= 3:
                    k = next((j for j, (x, y) in enumerate(zip(a.split(), out_m[i].split())) if x != y), -1)
                    ctx.broke('correspondence string_map model vs implementation: differ on case',
                              'case:  %s\nfirst differing output token #%d: impl %s  model %s' % (c[:600], k, a.split()[k][:200] if k >= 0 else a[-100:], out_m[i].split()[k][:200] if k >= 0 else out_m[i][-100:]))
    cov['string_map_cases'] = len(cases)
    cov['string_map_operations'] = nops
    cov['string_map_correspondence_differences'] = ndiff
    cov['string_map_oracle_failures_by_key'] = nfail
    cov['string_map_wall_s'] = round(time.time() - t0, 2)
    hist = cov.setdefault('distribution', {})
    hist['smap:cases'] = len(cases)


# ------------------------------------------------------------------------------------------- HTTP time-out watchdog (http.timeout)
WD_TIMEOUT = 1      # seconds, http.timeout of the dedicated harness processes
WD_WAIT = 7000      # ms a case waits for the server to close the held connection (check() runs once per second; slack for a loaded machine)


def gen_watchdog(ctx):
    """the peer sends a truncated request - or nothing - and HOLDS the socket open: the connection must be closed by the time-out watchdog
    (http::add_to_watchdog at the start of every header read, remove_from_watchdog when the request is complete, added again for the next
    request of a kept-alive connection); probes on other connections are answered meanwhile"""
    ka = [(b'Connection', b'keep-alive')]
    g1 = http_req(b'GET', b'/sync/1', b'HTTP/1.1', ka)
    g2 = http_req(b'POST', b'/async', b'HTTP/1.1', ka + [(b'Content-Length', b'4')], b'abcd')
    trunc = [b'GET /sync/y HT', b'G', b'GET /sync/y HTTP/1.1\r\nHost: h\r\n', b'POST /sync HTTP/1.1\r\nContent-Length: 10\r\n\r\nabc']
    z = 'Z%d' % WD_WAIT
    cases = []
    for t in trunc[:2]:
        cases.append('http %s %s P X:1' % (S(t), z))                                   # truncated first request on a fresh connection
    cases.append('http %s P X:0' % z)                                                   # nothing at all
    for t in trunc:
        cases.append('http %s R %s %s P:scgi X:2' % (S(g1), S(t), z))                   # truncated 2nd request after a kept-alive complete one
    cases.append('http %s R %s R %s %s P X:3' % (S(g1), S(g2), S(trunc[0]), z))        # truncated 3rd request
    cases.append('http %s R %s X:1' % (S(g1), z))                                       # idle kept-alive connection
    cases.append('http %s R %s R %s X:2' % (S(g2), S(g1), z))
    return cases


def watchdog_stage(ctx, exe, env):
    """every case in its own harness process (FE_HTTP_TIMEOUT = 1 s), all at the same time: a handful of cases that each wait a few seconds"""
    cases = [c for c in (ctx.replay_cases if ctx.replay_cases is not None else gen_watchdog(ctx)) if re.search(r' Z\d+', c)]
    if not cases:
        return
    env = dict(env)
    env['FE_HTTP_TIMEOUT'] = str(WD_TIMEOUT)
    t0 = time.time()
    with concurrent.futures.ThreadPoolExecutor(len(cases)) as ex:
        outs = list(ex.map(lambda c: run_impl_slice(exe, [c], env), cases))
    nfail = 0
    waits = []
    for c, o in zip(cases, outs):
        a = o[0] if o else '<not-run>'
        if a == '<not-run>':
            ctx.broke('watchdog case not run', c[:200])
            continue
        r = oracle(c, a)
        if r:
            nfail += 1
            ctx.fail(r[0], r[1] + '\n  case: %s\n  impl: %s\n  (run with FE_HTTP_TIMEOUT=%d)' % (c[:400], canon_impl(c, a)[:300], WD_TIMEOUT), c)
        elif not a.startswith('<crash'):
            waits += [ms for _, ms in parse_out(c, a)['held']]
    ctx.coverage['http_timeout_cases'] = len(cases)
    ctx.coverage['http_timeout_failures'] = nfail
    ctx.coverage['http_timeout_close_ms'] = sorted(waits)
    ctx.coverage['http_timeout_wall_s'] = round(time.time() - t0, 2)


def classify(case, a):
    proto = case.split()[0]
    left = a.split(' | ')[0].split()
    return proto + ':' + (left[-1] if left else 'closed-without-reply')


def run(ctx):
    errs = vlib.gen_coq(GEN)
    for n, e in errs:
        ctx.broke('translator cxx2v failed on %s (tie to source broken)' % n, e)
    res = vlib.coq_props('C02')
    ctx.proof(res)
    ctx.coverage['trusted_base'] = [
        'Coq 8.16.1 kernel, vm_compute',
        'tools/cxx2v.py + clang JSON AST (separator from private/http_protocol.h; string_map / string_hash leafs lifted textually by checks/C02.py:smap_leaf_tu)',
        'harness/C02_smap.cpp (direct driver of private/string_map.h, SIGVTALRM watchdog)',
        'extraction: ExtrOcamlBasic, OCaml; one Extract Constant: env_map = env_map_build behind a one-entry cache keyed by physical identity of the argument (coq/C02/Extract.v)',
        'harness/C02_service.cpp (in-process cppcms::service, accept()/close() interposition, echo + upload-filter applications), checks/fe_common.py encoders',
        'ASan+UBSan (gcc) as detector of memory-unsafe operations of the compiled library on the explored inputs',
        'hand model coq/C02/Defs.v of http_parser.h / http_api.cpp / scgi_api.cpp / fastcgi_api.cpp / cgi_api.cpp / http_request.cpp / http_context.cpp error paths']
    ctx.assumptions = [
        'kernel delivers socket bytes in order; a send() of at most 16 KiB on loopback arrives as one readable unit',
        'the server reads a segment before the next one is sent (the harness waits for FIONREAD==0 on the accepted socket)',
        'an HTTP connection reset by the peer may be closed before any application callback (getpeername fails) or processed as the model says: both accepted',
        'http.timeout watchdog cases: the server closes a held connection within 7 s for http.timeout = 1 s (check() runs once per second)',
        'the harness watchdog calls an event loop stalled when a posted marker has not run 8 s after the case (CPU-starved loop threads are not expected to wait that long)',
        'FastCGI name-value bodies are shorter than 2^32 bytes (theorem hypothesis; the code caps them at 16384+65535+255)',
        'configuration of the harness service: content_length_limit 2 KB, multipart_form_data_limit 4 KB, input_buffer_size 512']
    ok, err = vlib.build_repo(asan=True)
    if not ok:
        ctx.broke('sanitizer build of /repo working tree failed', err)
        return
    exe, err = vlib.build_harness('C02_service', ['C02_service.cpp'], asan=True, extra=['-ldl'])
    if not exe:
        ctx.broke('harness build failed', err)
        return
    mexe, err = vlib.build_model('C02', 'C02_driver.ml', 'c02m')
    if not mexe:
        ctx.broke('model extraction/build failed', err)
    for pr in SMAP_TU_PROBLEMS:
        ctx.broke('tie to private/string_map.h broken', pr)
    for pr in watchdog_tie():
        ctx.broke('tie to src/http_api.cpp (time-out watchdog membership) broken', pr)
    for pr in mp_end_tie():
        ctx.broke('tie to src/http_request.cpp (multipart end-of-body decision) broken', pr)
    cases = ctx.replay_cases if ctx.replay_cases is not None else vlib.corpus_cases('C02') + gen_cases(ctx)
    cases = [c for c in cases if not c.startswith('smap ') and not re.search(r' Z\d+', c)]
    ctx.coverage['rule'] = (
        'case = protocol + byte segments sent on one connection + how the peer ends it (half-close then read to EOF, or abortive close) + probes '
        'on other connections (always one after the case). Generated: truncation/reset at every offset of valid requests; declared-length values '
        '(negative, signed, saturating, limits +-1, junk) x application x content type; request-line/header syntax grid; header blocks around the 16384 '
        'limit with explicit read boundaries; SCGI netstring length field grid (incl. 32-bit wrap), terminators, key/value structure; FastCGI versions, '
        'all record types in every position, roles, flags, request-id mismatches, paddings, PARAMS size boundaries, name-value length encodings, STDIN '
        'framing; keep-alive / keep_conn sequences ending in a bad request; string-pool page boundaries; SCGI header blocks whose last string is not '
        'NUL-terminated and netstrings of total size 15-18; FastCGI management prefixes with content-less GET_VALUES records; abortive close right after '
        'a complete HTTP header block / request (timing window of getpeername); re-segmentation of the generated streams into 2-5 separately '
        'consumed pieces at record / header / block boundaries; random mutations and random bytes; connection::env_ (string_map): for each front end '
        'well-formed requests making every number of add() calls from 1 (http 11) to 140, with and without duplicated names, names with equal 32-bit '
        'hashes, served by the synchronous and the asynchronous echo application which looks up present and absent names and walks the table (oracle: '
        'exact environment), duplicates of SCRIPT_NAME / CONTENT_LENGTH at chosen positions around every growth (which add wins decides the reply), '
        'names colliding with SCRIPT_NAME / CONTENT_LENGTH / CONTENT_TYPE; a per-case watchdog reports a stuck event loop as event-loop-stalled; '
        'annotated requests delivered in pieces, long kept connections crossing the 16384-byte FastCGI read cache, connections padded so that the cache '
        'capacity is hit exactly at a record boundary, pipelined HTTP requests ending at multiples of the input buffer; 1..300 well-formed requests on '
        'connections open at the same time (both sides of the 128-event poll array) while a malformed connection is half-way; well-formed '
        'multipart/form-data bodies truncated at every offset (declared length = bytes sent) on all three front ends: a body without closing delimiter '
        'must get 400 and no handler call; a dedicated group of 10 cases in harness processes with http.timeout = 1 s: truncated first / later request '
        'or nothing at all with the peer holding the socket open, idle kept-alive connections - the server must close them. '
        'Second stage: private/string_map.h driven directly (string_pool + string_map, ASan+UBSan) by operation sequences: every count 0..300, absent '
        'look-up after every add, duplicates around every growth, clear and refill, random sequences over colliding alphabets; compared with the extracted '
        'model token by token (slot indices, chain order, sizes) and judged by an independent oracle (load factor, counts, look-ups, walk, per-case CPU watchdog). '
        'Non-trivial = the stream is not a well-formed request sequence answered 200 throughout, i.e. at least one error reply, silent close, management '
        'reply or reset occurs; distinct = distinct case lines.')
    os.makedirs(ctx.workdir, exist_ok=True)
    env = dict(os.environ)
    env['FE_WORKDIR'] = ctx.workdir
    env['ASAN_OPTIONS'] = 'detect_leaks=0:abort_on_error=0:allocator_may_return_null=1'
    env['UBSAN_OPTIONS'] = 'print_stacktrace=1'
    import threading
    smap_err = []

    def smap_bg():
        try:
            watchdog_stage(ctx, exe, env)
            smap_stage(ctx, mexe, env)
        except Exception as e:      # fail closed
            import traceback
            smap_err.append(traceback.format_exc())
    smap_thread = threading.Thread(target=smap_bg)
    smap_thread.start()      # the direct string_map stage runs beside the service stage
    t0 = time.time()
    out_i, extra, njobs = run_impl(exe, cases, env, jobs=ctx.scale(8, 10))
    t1 = time.time()
    out_m = None
    if mexe and cases:
        rc_m, out_m, err_m = vlib.run_lines_parallel(mexe, cases, jobs=8)
        if len(out_m) != len(cases):
            ctx.broke('model driver produced %d lines for %d cases' % (len(out_m), len(cases)), err_m[-2000:])
            out_m = None
        # the oracle's SCGI input class (Python, from the bytes sent) against the class the theorem scgi_oracle_class_is_rejected is about
        sc = [c for c in cases if c.startswith('scgi ')]
        rc_c, out_c, err_c = vlib.run_lines_parallel(mexe, ['scgiclass ' + hx(case_bytes(c)) for c in sc], jobs=4) if sc else (0, [], '')
        if len(out_c) != len(sc):
            ctx.broke('model driver: scgiclass produced %d lines for %d cases' % (len(out_c), len(sc)), err_c[-1000:])
        else:
            bad = [c for c, o in zip(sc, out_c) if (o.strip() == '1') != scgi_unterminated(case_bytes(c))]
            ctx.coverage['scgi_oracle_class_members'] = sum(1 for o in out_c if o.strip() == '1')
            for c in bad[:3]:
                ctx.broke('oracle input class scgi_unterminated (Python) differs from scgi_unterminated_class (Coq, extracted)', c[:600])
    t2 = time.time()
    cov = ctx.coverage
    cov['evaluations'] = len(cases)
    cov['impl_wall_s'] = round(t1 - t0, 2)
    cov['model_wall_s'] = round(t2 - t1, 2)
    for e in extra:
        ctx.broke('service harness failed outside a case', e)
    hist = cov.setdefault('distribution', {})
    seen = set()
    ndiff = nskip = ncmp = nrace = 0
    nfail = {}
    for i, c in enumerate(cases):
        a = out_i[i]
        if a == '<not-run>':
            ctx.broke('case not run (too many crashes in its slice)', c[:200])
            continue
        r = oracle(c, a)
        ca = canon_impl(c, a)
        if r:
            nfail[r[0]] = nfail.get(r[0], 0) + 1
            rep = c
            if a.startswith('<crash') and i >= njobs and ('SERVICE-THREW' in a or not re.search(r'Sanitizer|runtime error', a)):
                # an exception thrown late by the previous connection of the same harness process is blamed on this case:
                # replay both, in order (a sanitizer report stops the process at the faulting access: the case alone)
                rep = cases[i - njobs] + '\n' + c
            ctx.fail(r[0], r[1] + '\n  case: %s\n  impl: %s' % (c[:400], ca[:300]), rep)
        if out_m is not None:
            cm = canon_model(c, out_m[i])
            if r is not None:
                nskip += 1   # the oracle already reports this case (violation or known finding): nothing to compare
            elif ' s:' in c or (has_reset(c) and 'OK:' in out_m[i]):
                nskip += 1   # unsynchronised send / reset racing with request processing (whether a complete request is still
                             # served after the peer reset the connection is timing dependent): oracle only
            elif 'UNSAFE' in out_m[i] or 'FUEL' in out_m[i]:
                # proved impossible (no_input_reaches_unsafe_index, *_total): the extracted model and the theorems disagree
                ctx.broke('extracted model reports an unsafe index / fuel exhaustion although Props.v proves there is none', 'case: %s\nmodel: %s' % (c[:900], out_m[i]))
            elif 'UNMODELLED' in out_m[i]:
                nskip += 1
                hist['model:unmodelled'] = hist.get('model:unmodelled', 0) + 1
            elif ca != cm and c.startswith('http ') and has_reset(c) and ca == 'K | calls=0,0,0,0,0,0,0':
                # the peer's RST was processed between the read of the last header byte and http::process_request: getpeername fails,
                # remote_endpoint(e) reports it and the connection is closed before any application callback (the path repaired by
                # c5271a2). Timing dependent, so both outcomes are accepted for a reset case: the model's, or no callback at all.
                nrace += 1
            else:
                ncmp += 1
                if ca != cm:
                    ndiff += 1
                    if ndiff <= 5:
                        ctx.broke('correspondence model vs implementation: differ on case', 'case:  %s\nimpl:  %s\nmodel: %s' % (c[:900], ca, cm))
        k = classify(c, ca)
        hist[k] = hist.get(k, 0) + 1
        left = ca.split(' | ')[0].split()
        if not left or any(not x.startswith('OK:') for x in left):
            seen.add(hashlib.md5(c.encode()).digest())
    cov['distinct_nontrivial'] = len(seen)
    cov['correspondence_differences'] = ndiff
    cov['oracle_failures_by_key'] = nfail
    cov['http_reset_before_process_request_seen'] = nrace
    cov['reset_after_headers_cases'] = sum(1 for c in cases if c.startswith('http ') and ' s:' in c and has_reset(c))
    cov['correspondence_compared'] = ncmp
    cov['correspondence_skipped_unmodelled_or_unsynchronised'] = nskip
    step = max(1, len(cases) // 5)
    smap_thread.join()
    for e in smap_err:
        ctx.broke('string_map stage raised an exception', e[-2000:])
    cov['samples'] = [{'case': cases[i][:300], 'impl': canon_impl(cases[i], out_i[i])[:200], 'model': (out_m[i][:200] if out_m else None)}
                      for i in range(0, len(cases), step)][:6]
