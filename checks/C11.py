"""C11 -- JSON parsing accepts exactly well-formed documents; serialization round-trips."""
import os, re, json, struct, sys, math, itertools
from fractions import Fraction
import vlib
from vlib import hexs, unhex

META = dict(
    property_id='C11',
    design_ref='DESIGN.md section 4, C11',
    technique='Coq proof (token/stack-machine model, induction over grammar derivations and values) + source-generated leaf functions + extracted-model correspondence + Python json as independent parser',
    level_text=('Theorems in coq/C11/Props.v (68, all closed under the global context) about the executable model of tockenizer::next/'
                'parse_string/read_4_digits/parse_number, parse_stream, generic_append/write_value, the extraction traits and the value API, for all '
                'byte strings / values (unbounded): parsing terminates with Ok/Fail (fuel S|input| never exhausted); an accepted tree has only '
                'valid UTF-8 strings and keys, strictly sorted hence pairwise different keys, no undefined member and nesting <= 512; the bound is '
                'exact for every mixture of arrays and objects (512 levels accepted, a 513th opening bracket or brace rejected); a duplicate (decoded) key '
                'is an error on every token; lone, reversed and split surrogate escapes are rejected; a failed load returns the old target; every text of an '
                'inductive RFC 8259 grammar (whitespace anywhere allowed, all escapes, paired surrogates, full number grammar, unique keys, nesting '
                'budget <= 512) is accepted with exactly the denoted value, also in prefix mode; conversely whatever is accepted is, token by token, a text of a left-to-right token grammar '
                '(JSON values plus one extension: a comma directly before a closing bracket or brace) with exactly the returned value, and every such token text nested at most 512 deep is accepted (an exact characterisation of acceptance, in full and in prefix mode); before a token the tokenizer skips exactly whitespace and // comments; string tokens are exactly the literals of '
                'the string grammar with valid UTF-8 content; the language of number lexemes the tokenizer accepts is '
                'exactly -?(D+(.D*)?|.D+)([eE][+-]?D+)? restricted to a leading minus or digit (under the stated law of strtod), it contains the RFC numbers and '
                'differs from them by exactly three classes (leading zeros, empty integer part, empty fraction; decided harmless, pinned by the oracle); '
                'the writer output of a value without undefined members, with valid UTF-8 strings and printable numbers lies in the RFC grammar for the compact '
                'and every readable layout, so save then load returns the value (numbers through the 16-digit printer) and every later round is exact; with the '
                'printer and reader made concrete on integers, every value whose numbers are integers below 2^53 in magnitude (both signs, -0) round-trips '
                'exactly in the first round; object member order is the byte order of keys independent of insertion order, operator== is reflexive on NaN-free '
                'values; integer extraction returns the exact value or fails. Refuted and recorded as known findings: a string holding ill-formed '
                'UTF-8 and the two largest finite doubles are written to text the reader rejects. Leaf functions and tables (UTF-8/UTF-16 helpers, '
                'writer escape switch, reader dispatch switch with keyword tails, reader escape switch, control-character and hex-digit tests, depth constant) '
                'are regenerated from the current source and proved equal to the model leafs.'),
    level_note=('Trusted: Coq kernel + vm_compute; cxx2v translator / clang AST (plus the escape-switch and switch-table extractors in checks/C11.py); '
                'extraction; the hand model of the tokenizer loop, of libstdc++ num_get float accumulation and of the explicit-stack '
                'loop (tied by correspondence on every generated case, exhaustive for documents of <= 2 bytes); '
                'strtod, the 16-digit printer and double->float rounding are parameters of the model (universally quantified in the theorems; concrete on integers below 2^53, '
                'where the driver checks the platform functions against the computed ones on every case; '
                'instantiated by the platform functions in the model driver and cross-checked against Python float()/repr in the oracle). '
                'The grammar theorem takes "the decoded content of each string literal is valid UTF-8" as a premise of the grammar. '
                'Stream locale handling (imbue) is exercised by the harness only; stream flags other than the locale are not covered.'),
)

GEN = {
    'Gen_json': dict(src='src/json.cpp',
                     consts=[('json_max_depth', 'g_json_max_depth')],
                     functions=[('is_trail', 'g_is_trail', 'utf8::is_trail'), ('trail_length', 'g_trail_length', 'utf8::trail_length'),
                                ('width', 'g_width', 'utf8::width'), ('valid', 'g_valid', 'utf::valid'),
                                ('is_first_surrogate', 'g_is_first_surrogate'), ('is_second_surrogate', 'g_is_second_surrogate'),
                                ('combine_surrogate', 'g_combine_surrogate')]),
}

FLT_MAX = float.fromhex('0x1.fffffep127')
DEPTH_BOUND = 512


# ----------------------------------------------------------------------------------------------
# tie T for the escape switch of generic_append: cxx2v's statement translator extended by the two
# things the switch needs (a `const char *` local holding a string constant, a local char buffer
# patched element-wise).  Result: g_json_addon (byte) : list Z, [] standing for the null pointer.
# ----------------------------------------------------------------------------------------------
def gen_escape_leaf():
    import cxx2v

    def strip(n):
        while n['kind'] in ('ImplicitCastExpr', 'ParenExpr', 'ExprWithCleanups', 'MaterializeTemporaryExpr'):
            n = n['inner'][0]
        return n

    class EscTr(cxx2v.Tr):
        def __init__(self):
            cxx2v.Tr.__init__(self, '', {}, {})
            self.consts = {}
            self.ptr = {}      # decl id of `const char *` locals -> current coq name
            self.buf = {}      # decl id of local char arrays -> current coq name
            self.result_id = None

        def stmts(self, ss, brk=None, void=False):
            if not ss and brk is None:
                return self.ptr[self.result_id]
            if ss:
                s, rest = ss[0], ss[1:]
                k = s['kind']
                if k == 'BinaryOperator' and s.get('opcode') == '=':
                    lhs, rhs = s['inner']
                    l = strip(lhs)
                    if l['kind'] == 'DeclRefExpr' and l['referencedDecl']['id'] in self.ptr:
                        r = strip(rhs)
                        if r['kind'] == 'StringLiteral':
                            val = '[%s]' % '; '.join(str(ord(ch)) for ch in json.loads(r['value']))
                        elif r['kind'] == 'DeclRefExpr' and r['referencedDecl']['id'] in self.buf:
                            val = '(g_cstr %s)' % self.buf[r['referencedDecl']['id']]
                        else:
                            raise cxx2v.Unsupported('addon assigned from ' + r['kind'])
                        nm = self.fresh('addon')
                        saved = dict(self.ptr)
                        self.ptr[l['referencedDecl']['id']] = nm
                        body = self.stmts(rest, brk, void)
                        self.ptr = saved
                        return '(let %s := %s in %s)' % (nm, val, body)
                    if l['kind'] == 'ArraySubscriptExpr':
                        base, idx = l['inner']
                        b = strip(base)
                        if b['kind'] == 'DeclRefExpr' and b['referencedDecl']['id'] in self.buf:
                            i = cxx2v.const_int(idx)
                            nm = self.fresh('buf')
                            bid = b['referencedDecl']['id']
                            val = '(g_upd %s %d%%nat (wrapu 8 %s))' % (self.buf[bid], i, self.expr(rhs))
                            saved = dict(self.buf)
                            self.buf[bid] = nm
                            body = self.stmts(rest, brk, void)
                            self.buf = saved
                            return '(let %s := %s in %s)' % (nm, val, body)
            return cxx2v.Tr.stmts(self, ss, brk, void)

    src = os.path.join(vlib.REPO, 'src/json.cpp')
    objs = cxx2v.run_clang(src, 'generic_append', vlib.repo_incs())
    loops = []
    for o in objs:
        cxx2v.find_loops(o, loops)
    if not loops:
        raise cxx2v.Unsupported('generic_append: no loop')
    tr = EscTr()
    body = tr.flatten(loops[0]['inner'][-1])
    # char buf[8] = "\\u00" declared before the loop
    bufd = cxx2v.find_decl(objs, 'VarDecl', 'buf', lambda n: 'inner' in n)
    if not bufd:
        raise cxx2v.Unsupported('generic_append: buf not found')
    m = re.search(r'\[(\d+)\]', bufd[0]['type']['qualType'])
    vals = cxx2v.const_array(bufd[0])
    vals = vals + [0] * (int(m.group(1)) - len(vals))
    tr.buf[bufd[0]['id']] = 'buf_0'
    pre = '(let buf_0 := [%s] in ' % '; '.join(str(v) for v in vals)
    # addon = 0 ; unsigned char c = *i ; switch
    if len(body) < 3 or body[0]['kind'] != 'DeclStmt' or body[1]['kind'] != 'DeclStmt' or body[2]['kind'] != 'SwitchStmt':
        raise cxx2v.Unsupported('generic_append: loop body is not `addon=0; c=*i; switch...`')
    ad = body[0]['inner'][0]
    if strip(ad['inner'][0])['kind'] != 'IntegerLiteral' or ad['type']['qualType'] != 'const char *':
        raise cxx2v.Unsupported('generic_append: addon is not a null-initialised const char *')
    tr.ptr[ad['id']] = 'addon_0'
    tr.result_id = ad['id']
    cd = body[1]['inner'][0]
    kk, w = cxx2v.tyinfo(cd['type'])
    if (kk, w) != ('u', 8):
        raise cxx2v.Unsupported('generic_append: c is not unsigned char')
    tr.ids[cd['id']] = 'c_0'
    code = tr.stmts([body[2]])
    # the statement after the switch must be `if(addon) {... a.append(addon) ...} else`
    txt = '\n'.join([
        '(* GENERATED by checks/C11.py (cxx2v statement translator) from %s generic_append -- do not edit *)' % src,
        'From Coq Require Import ZArith List Bool.', 'From CppcmsV Require Import Base.CSem.',
        'Local Open Scope Z_scope.', 'Import ListNotations.', '',
        'Fixpoint g_upd (l : list Z) (i : nat) (v : Z) : list Z :=',
        '  match l, i with [], _ => [] | _ :: r, O => v :: r | x :: r, S j => x :: g_upd r j v end.',
        'Fixpoint g_cstr (l : list Z) : list Z :=',
        '  match l with [] => [] | x :: r => if Z.eqb x 0 then [] else x :: g_cstr r end.', '',
        '(* the string `addon` points to after the switch ([] = null pointer: the byte is copied) *)',
        'Definition g_json_addon (byte : Z) : list Z :=',
        '  let c_0 := wrapu 8 byte in let addon_0 := [] in %s%s).' % (pre, code), ''])
    vlib.write_if_changed(os.path.join(vlib.COQ, 'gen', 'Gen_json_esc.v'), txt)


# ----------------------------------------------------------------------------------------------
# tie T for the reader: the dispatch switch of tockenizer::next, the escape switch of parse_string and the byte
# tests of parse_string / read_4_digits.  A switch is read from the clang AST as: case constants -> summary of the
# statements that run for them (member calls with their string-literal arguments, returned names, increments,
# appended characters, break, loops), robust against renamings and casts; the summaries are mapped to class numbers
# below and anything unexpected is Unsupported (tie broken).  The byte tests are translated by cxx2v's expression
# translator.  Result: coq/gen/Gen_json_tok.v.
# ----------------------------------------------------------------------------------------------
def _strip(n):
    while n.get('kind') in ('ImplicitCastExpr', 'ParenExpr', 'ExprWithCleanups', 'MaterializeTemporaryExpr', 'ConstantExpr',
                            'CXXFunctionalCastExpr', 'CStyleCastExpr', 'CXXStaticCastExpr'):
        n = n['inner'][0]
    return n


def _events(n, out):
    """summary events of one statement, in source order"""
    k = n.get('kind')
    if k in ('BreakStmt',):
        out.append('break')
    elif k == 'ReturnStmt':
        e = _strip(n['inner'][0]) if n.get('inner') else None
        if e is None:
            out.append('ret')
        elif e['kind'] == 'DeclRefExpr':
            out.append('ret:' + e['referencedDecl']['name'])
        elif e['kind'] == 'CXXBoolLiteralExpr':
            out.append('ret:' + ('true' if e['value'] else 'false'))
        else:
            out.append('ret:?' + e['kind'])
    elif k == 'UnaryOperator' and n.get('opcode') in ('++', '--'):
        e = _strip(n['inner'][0])
        out.append('%s:%s' % (n['opcode'], e.get('name') or (e.get('referencedDecl') or {}).get('name')))
    elif k == 'CXXMemberCallExpr':
        callee = n['inner'][0]
        args = []
        for a in n['inner'][1:]:
            a = _strip(a)
            args.append(a['value'] if a['kind'] == 'StringLiteral' else '?')
        out.append('call:%s(%s)' % (callee.get('name'), ','.join(args)))
    elif k == 'CXXOperatorCallExpr' and _strip(n['inner'][0]).get('referencedDecl', {}).get('name') == 'operator+=' or \
            k == 'CXXOperatorCallExpr' and n['inner'][0].get('kind') == 'ImplicitCastExpr' and \
            _strip(n['inner'][0]).get('referencedDecl', {}).get('name') == 'operator+=':
        tgt = _strip(n['inner'][1])
        val = _strip(n['inner'][2])
        tn = tgt.get('name') or (tgt.get('referencedDecl') or {}).get('name')
        if val['kind'] == 'CharacterLiteral':
            out.append('append:%s:%d' % (tn, val['value']))
        elif val['kind'] == 'DeclRefExpr':
            out.append('append:%s:var:%s' % (tn, val['referencedDecl']['name']))
        else:
            out.append('append:%s:?' % tn)
    elif k == 'CXXOperatorCallExpr' and _strip(n['inner'][0]).get('referencedDecl', {}).get('name') == 'operator<<':
        _events(n['inner'][1], out)
        val = _strip(n['inner'][2])
        if val['kind'] == 'CharacterLiteral':
            out.append('out:%d' % val['value'])
        elif val['kind'] == 'StringLiteral':
            out.append('out:str:' + val['value'])
        elif val['kind'] == 'DeclRefExpr':
            out.append('out:var:' + val['referencedDecl']['name'])
        else:
            out.append('out:?')
    elif k == 'CallExpr' and _strip(n['inner'][0]).get('kind') == 'DeclRefExpr':
        out.append('fcall:' + _strip(n['inner'][0])['referencedDecl']['name'])
    elif k in ('WhileStmt', 'ForStmt', 'DoStmt'):
        out.append('loop')
        for c in n.get('inner', []):
            if c:
                _events(c, out)
    elif k in ('IfStmt', 'CompoundStmt', 'BinaryOperator', 'UnaryOperator', 'DeclStmt', 'VarDecl', 'ParenExpr', 'ImplicitCastExpr',
               'ExprWithCleanups', 'NullStmt', 'CXXOperatorCallExpr', 'CallExpr'):
        for c in n.get('inner', []):
            if c:
                _events(c, out)
    # leaves (DeclRefExpr, literals, MemberExpr ...) carry no event


def _switch_groups(sw):
    """[(set of case constants or 'default', [events])]"""
    import cxx2v
    body = sw['inner'][-1]
    groups = []
    open_groups = []
    closed = True
    for st in body['inner']:
        labels = []
        while st.get('kind') in ('CaseStmt', 'DefaultStmt'):
            if st['kind'] == 'CaseStmt':
                labels.append(int(_strip(st['inner'][0]).get('value', cxx2v.const_int(st['inner'][0]))))
            else:
                labels.append('default')
            st = st['inner'][-1]
        if labels:
            g = (labels, [])
            groups.append(g)
            if closed:
                open_groups = [g]
            else:
                open_groups.append(g)
            closed = False
        ev = []
        _events(st, ev)
        for g in open_groups:
            g[1].extend(ev)
        if st.get('kind') in ('BreakStmt', 'ReturnStmt'):
            closed = True
    return groups


def _find_all(n, kind, out):
    if isinstance(n, dict):
        if n.get('kind') == kind:
            out.append(n)
        for c in n.get('inner', []):
            _find_all(c, kind, out)


def _method(src, name, marker_kind=None):
    import cxx2v
    objs = cxx2v.run_clang(src, name, vlib.repo_incs())
    ms = [o for o in objs if o.get('kind') == 'CXXMethodDecl' and o.get('name') == name and any(c.get('kind') == 'CompoundStmt' for c in o.get('inner', []))]
    if len(ms) != 1:
        raise cxx2v.Unsupported('%s: %d method definitions found' % (name, len(ms)))
    return ms[0]


TOK_CLASS = {
    ('ret:c',): 1,
    ('break',): 2,
    ('++:line', 'break'): 3,
    ('call:sungetc()', 'call:parse_string()', 'ret:tock_str', 'ret:tock_err'): 4,
    ('call:sungetc()', 'call:parse_number()', 'ret:tock_number', 'ret:tock_err'): 8,
    ('ret:tock_err',): 0,
}
KW_TOKEN = {'tock_true': 5, 'tock_null': 6, 'tock_false': 7}


def gen_token_leafs():
    import cxx2v
    src = os.path.join(vlib.REPO, 'src/json.cpp')
    lines = ['(* GENERATED by checks/C11.py from %s (tockenizer::next, parse_string, read_4_digits) -- do not edit *)' % src,
             'From Coq Require Import ZArith List Bool.', 'From CppcmsV Require Import Base.CSem.',
             'Local Open Scope Z_scope.', 'Import ListNotations.', '']
    # --- tockenizer::next: byte -> class, keyword tails -------------------------------------------
    m = _method(src, 'next')
    sws = []
    _find_all(m, 'SwitchStmt', sws)
    if len(sws) != 1:
        raise cxx2v.Unsupported('next: %d switch statements' % len(sws))
    cls, kws = {}, {}
    dflt = None
    for labels, ev in _switch_groups(sws[0]):
        ev = tuple(ev)
        k = TOK_CLASS.get(ev)
        kw = None
        if k is None and len(ev) == 3 and ev[0].startswith('call:check("') and ev[2] == 'ret:tock_err' and ev[1][4:] in KW_TOKEN:
            k = KW_TOKEN[ev[1][4:]]
            kw = json.loads(ev[0][len('call:check('):-1])
        if k is None and ev and ev[0] == 'call:check("/")' and ev == ('call:check("/")', 'loop', 'call:sbumpc()', 'break', 'ret:tock_eof', 'ret:tock_err'):
            k = 9
        if k is None:
            raise cxx2v.Unsupported('next: unexpected case body %r for %r' % (ev, labels))
        for l in labels:
            if l == 'default':
                dflt = k
            else:
                cls[l] = k
                if kw is not None:
                    kws[l] = kw
    if dflt is None:
        raise cxx2v.Unsupported('next: no default case')
    chain = ''.join('if Z.eqb c %d then %d else ' % (c, k) for c, k in sorted(cls.items()))
    lines += ['(* class of the first byte of a token: 1 structural (returned as is), 2 skipped, 3 newline (line++), 4 string, 5 true,',
              '   6 null, 7 false, 8 number, 9 comment start, 0 error *)',
              'Definition g_json_tokclass (c : Z) : Z := %s%d.' % (chain, dflt),
              'Definition g_json_kw (c : Z) : list Z := %s[].' % ''.join(
                  'if Z.eqb c %d then [%s] else ' % (c, '; '.join(str(ord(x)) for x in kw)) for c, kw in sorted(kws.items())), '']
    # --- parse_string: escape switch ----------------------------------------------------------------
    m = _method(src, 'parse_string')
    sws = []
    _find_all(m, 'SwitchStmt', sws)
    if len(sws) != 1:
        raise cxx2v.Unsupported('parse_string: %d switch statements' % len(sws))
    esc = {}
    dflt = None
    for labels, ev in _switch_groups(sws[0]):
        ev = tuple(ev)
        if ev == ('append:str:var:c', 'break'):
            v = -3
        elif len(ev) == 2 and ev[1] == 'break' and re.match(r'append:str:\d+\Z', ev[0]):
            v = int(ev[0].split(':')[2])
        elif ev == ('ret:false',):
            v = -1
        elif ev and ev[0] == 'call:read_4_digits(?)' and ev[-1] == 'break':
            v = -2
        else:
            raise cxx2v.Unsupported('parse_string: unexpected case body %r for %r' % (ev, labels))
        for l in labels:
            if l == 'default':
                dflt = v
            else:
                esc[l] = v
    if dflt is None:
        raise cxx2v.Unsupported('parse_string: no default case')
    lines += ['(* byte after a backslash: the character appended, -3 the byte itself, -2 the \\u path, -1 rejected *)',
              'Definition g_json_unesc (c : Z) : Z := %s(%d).' % (''.join('if Z.eqb c %d then (%d) else ' % (c, v) for c, v in sorted(esc.items())), dflt), '']
    # --- byte tests: control character in parse_string, hex digit in read_4_digits --------------------
    def cond_fn(meth, pick, coqname, width_signed):
        mm = _method(src, meth)
        ifs = []
        _find_all(mm, 'IfStmt', ifs)
        cands = [i for i in ifs if pick(i)]
        if len(cands) != 1:
            raise cxx2v.Unsupported('%s: %d candidate tests for %s' % (meth, len(cands), coqname))
        cond = cands[0]['inner'][0]
        refs = []
        _find_all(cond, 'DeclRefExpr', refs)
        ids = set(r['referencedDecl']['id'] for r in refs if r['referencedDecl'].get('kind') == 'VarDecl')
        if len(ids) != 1:
            raise cxx2v.Unsupported('%s: test for %s mentions %d variables' % (meth, coqname, len(ids)))
        tr = cxx2v.Tr('', {}, {})
        tr.consts = {}
        tr.ids[ids.pop()] = 'c'
        return 'Definition %s (c : Z) : bool := %s.' % (coqname, tr.expr(cond))

    def has_kind(n, kind):
        out = []
        _find_all(n, kind, out)
        return bool(out)

    def lits(n):
        out = []
        _find_all(n, 'IntegerLiteral', out)
        _find_all(n, 'CharacterLiteral', out)
        return sorted(int(x['value']) for x in out)
    lines += ['(* parse_string: if(0<= c && c <= 0x1F) return false;   (c is an int holding a byte) *)',
              cond_fn('parse_string', lambda i: len(lits(i['inner'][0])) == 2 and lits(i['inner'][0])[0] == 0 and _strip(i['inner'][0]).get('opcode') == '&&', 'g_json_is_ctl', False),
              '(* read_4_digits: the test under which the loop continues (c is a char) *)',
              cond_fn('read_4_digits', lambda i: has_kind(i['inner'][1], 'ContinueStmt'), 'g_json_is_hex', True), '']
    # --- writer layout: indent(out,c,tabs) and pad(out,tb) ------------------------------------------------
    objs = cxx2v.run_clang(src, 'indent', vlib.repo_incs())
    fs = [o for o in objs if o.get('kind') == 'FunctionDecl' and o.get('name') == 'indent' and any(c.get('kind') == 'CompoundStmt' for c in o.get('inner', []))]
    if len(fs) != 1:
        raise cxx2v.Unsupported('indent: %d definitions' % len(fs))
    sws = []
    _find_all(fs[0], 'SwitchStmt', sws)
    ifs = []
    _find_all(fs[0], 'IfStmt', ifs)
    if len(sws) != 1 or len(ifs) != 1:
        raise cxx2v.Unsupported('indent: expected one if and one switch')
    ev = []
    _events(ifs[0], ev)
    cond = _strip(ifs[0]['inner'][0])
    if ev != ['out:var:c', 'ret'] or cond.get('opcode') != '<' or lits(cond) != [0]:
        raise cxx2v.Unsupported('indent: compact branch is not `if(tabs < 0) { out<<c; return; }`: %r' % ev)

    def code(e, where):
        if e == 'out:var:c':
            return ['(-1)']
        if e == '++:tabs':
            return ['(-2)']
        if e == '--:tabs':
            return ['(-3)']
        if e == 'fcall:pad':
            return ['(-4)']
        mm = re.match(r'out:(\d+)\Z', e)
        if mm:
            return [mm.group(1)]
        if e.startswith('out:str:'):
            return [str(ord(ch)) for ch in json.loads(e[len('out:str:'):])]
        raise cxx2v.Unsupported('indent: unexpected statement %r in case %r' % (e, where))
    table = {}
    for labels, ev in _switch_groups(sws[0]):
        if not ev or ev[-1] != 'break':
            raise cxx2v.Unsupported('indent: case %r does not end with break' % labels)
        codes = [x for e in ev[:-1] for x in code(e, labels)]
        for l in labels:
            table[l] = codes
    objs = cxx2v.run_clang(src, 'pad', vlib.repo_incs())
    fs = [o for o in objs if o.get('kind') == 'FunctionDecl' and o.get('name') == 'pad' and any(c.get('kind') == 'CompoundStmt' for c in o.get('inner', []))]
    if len(fs) != 1:
        raise cxx2v.Unsupported('pad: %d definitions' % len(fs))
    ev = []
    _events([c for c in fs[0]['inner'] if c.get('kind') == 'CompoundStmt'][0], ev)
    mm = re.match(r'out:(\d+)\Z', ev[-1]) if ev else None
    if len(ev) != 3 or ev[0] != 'loop' or ev[1] != '--:tb' or not mm:
        raise cxx2v.Unsupported('pad: not `for(;tb > 0;tb--) out<<CHAR`: %r' % ev)
    lines += ['(* indent(out,c,tabs) for tabs >= 0: the statements of each case as codes: a byte = that character is written, -1 = c is written,',
              '   -2 = tabs++, -3 = tabs--, -4 = pad(out,tabs); for tabs < 0 only c is written.  pad writes tb times the character g_json_pad_char *)',
              'Definition g_json_indent (c : Z) : list Z := %s[].' % ''.join(
                  'if Z.eqb c %d then [%s] else ' % (c, '; '.join(v)) for c, v in sorted(table.items())),
              'Definition g_json_pad_char : Z := %s.' % mm.group(1), '']
    vlib.write_if_changed(os.path.join(vlib.COQ, 'gen', 'Gen_json_tok.v'), '\n'.join(lines))


def gen_all():
    import cxx2v
    errs = vlib.gen_coq(GEN)
    try:
        with vlib.Lock('gen-Gen_json_tok'):
            gen_token_leafs()
    except cxx2v.Unsupported as e:
        errs.append(('Gen_json_tok', str(e)))
        vlib.write_if_changed(os.path.join(vlib.COQ, 'gen', 'Gen_json_tok.v'),
                              '(* translator failed *)\nDefinition broken : False := I.\n')
    try:
        with vlib.Lock('gen-Gen_json_esc'):
            gen_escape_leaf()
    except cxx2v.Unsupported as e:
        errs.append(('Gen_json_esc', str(e)))
        vlib.write_if_changed(os.path.join(vlib.COQ, 'gen', 'Gen_json_esc.v'),
                              '(* translator failed *)\nDefinition broken : False := I.\n')
    return errs


# ----------------------------------------------------------------------------------------------
# tree notation (shared with harness and model driver)
# ----------------------------------------------------------------------------------------------
def parse_tree(s):
    """notation -> python: None=undefined marker 'U', ('N',), True/False, ('D', bits int), ('S', bytes), list, ('O', [(k,v)])"""
    pos = [0]
    n = len(s)

    def hexrun():
        j = pos[0]
        while j < n and s[j] in '0123456789abcdef-':
            j += 1
        r = unhex(s[pos[0]:j])
        pos[0] = j
        return r

    def val():
        stack = []
        # iterative to survive deep nesting
        cur = None
        while True:
            c = s[pos[0]]
            pos[0] += 1
            if c == 'U':
                v = ('U',)
            elif c == 'N':
                v = ('N',)
            elif c == 'T':
                v = True
            elif c == 'F':
                v = False
            elif c == 'D':
                v = ('D', int(s[pos[0]:pos[0] + 16], 16))
                pos[0] += 16
            elif c == 'S':
                v = ('S', hexrun())
            elif c == '[':
                if s[pos[0]] == ']':
                    pos[0] += 1
                    v = []
                else:
                    stack.append(('A', []))
                    continue
            elif c == '{':
                if s[pos[0]] == '}':
                    pos[0] += 1
                    v = ('O', [])
                else:
                    pos[0] += 1   # S
                    k = hexrun()
                    pos[0] += 1   # :
                    stack.append(('O', [], k))
                    continue
            else:
                raise ValueError('bad tree at %d' % pos[0])
            # value finished: plug
            while True:
                if not stack:
                    return v
                top = stack[-1]
                if top[0] == 'A':
                    top[1].append(v)
                    d = s[pos[0]]
                    pos[0] += 1
                    if d == ',':
                        break
                    stack.pop()
                    v = top[1]
                    continue
                else:
                    top[1].append((top[2], v))
                    d = s[pos[0]]
                    pos[0] += 1
                    if d == ',':
                        pos[0] += 1
                        k = hexrun()
                        pos[0] += 1
                        stack[-1] = ('O', top[1], k)
                        break
                    stack.pop()
                    v = ('O', top[1])
                    continue
    v = val()
    if pos[0] != n:
        raise ValueError('trailing text in tree')
    return v


def tree_iter(v):
    """all nodes, iteratively"""
    st = [v]
    while st:
        x = st.pop()
        yield x
        if isinstance(x, list):
            st.extend(x)
        elif isinstance(x, tuple) and x[0] == 'O':
            for k, y in x[1]:
                yield ('K', k)
                st.append(y)


def tree_depth(v):
    best = 0
    st = [(v, 0)]
    while st:
        x, d = st.pop()
        if isinstance(x, list):
            best = max(best, d + 1)
            st.extend((y, d + 1) for y in x)
        elif isinstance(x, tuple) and x[0] == 'O':
            best = max(best, d + 1)
            st.extend((y, d + 1) for k, y in x[1])
    return best


def fmt_tree(v):
    out = []
    st = [v]
    while st:
        x = st.pop()
        if isinstance(x, str):
            out.append(x)
        elif x is True:
            out.append('T')
        elif x is False:
            out.append('F')
        elif isinstance(x, list):
            st.append(']')
            for i, y in reversed(list(enumerate(x))):
                st.append(y)
                if i:
                    st.append(',')
            st.append('[')
        elif x[0] == 'O':
            st.append('}')
            for i, (k, y) in reversed(list(enumerate(x[1]))):
                st.append(y)
                st.append('S' + hexs(k) + ':')
                if i:
                    st.append(',')
            st.append('{')
        elif x[0] == 'D':
            out.append('D%016x' % x[1])
        elif x[0] == 'S':
            out.append('S' + hexs(x[1]))
        else:
            out.append(x[0])
    return ''.join(out)


def bits_of(x):
    return struct.unpack('>Q', struct.pack('>d', x))[0]


def dbl(bits):
    return struct.unpack('>d', struct.pack('>Q', bits))[0]


def is_utf8(b):
    try:
        b.decode('utf-8')
        return True
    except UnicodeDecodeError:
        return False


# ----------------------------------------------------------------------------------------------
# independent strict RFC 8259 reader (Python json + the restrictions of the property)
# ----------------------------------------------------------------------------------------------
class _Reject(Exception):
    pass


def _pairs(ps):
    ks = [k for k, _ in ps]
    if len(set(ks)) != len(ks):
        raise _Reject('dup')
    return ('O', ps)


def _const(x):
    raise _Reject('constant')


_dec = json.JSONDecoder(object_pairs_hook=_pairs, parse_float=lambda x: ('L', x), parse_int=lambda x: ('L', x),
                        parse_constant=_const, strict=True)


def _pairs_lax(ps):
    seen = {}
    for k, v in ps:
        seen.setdefault(k, v)
    return ('O', list(seen.items()))


_dec_lax = json.JSONDecoder(object_pairs_hook=_pairs_lax, parse_float=lambda x: ('L', x), parse_int=lambda x: ('L', x),
                            parse_constant=_const, strict=True)


def py_rfc(doc, allow_dup=False):
    """bytes -> tree in the notation of parse_tree (numbers as ('D', bits)) when doc is an RFC 8259 text with unique
    keys (unless allow_dup), finite numbers, properly paired surrogates; else None"""
    try:
        s = doc.decode('utf-8')
    except UnicodeDecodeError:
        return None
    if s[:1] == '\ufeff':
        return None
    try:
        v = (_dec_lax if allow_dup else _dec).decode(s)
    except (ValueError, _Reject, RecursionError):
        return None

    def conv(x):
        if x is None:
            return ('N',)
        if x is True or x is False:
            return x
        if isinstance(x, str):
            return ('S', x.encode('utf-8'))      # raises on lone surrogates
        if isinstance(x, list):
            return [conv(y) for y in x]
        if x[0] == 'L':
            f = float(x[1])
            if math.isinf(f) or math.isnan(f):
                raise _Reject('non-finite')
            return ('D', bits_of(f))
        if x[0] == 'O':
            m = [(k.encode('utf-8'), conv(y)) for k, y in x[1]]
            m.sort(key=lambda kv: kv[0])
            return ('O', m)
        raise _Reject('?')
    try:
        return conv(v)
    except (UnicodeEncodeError, _Reject, RecursionError):
        return None


_NUMRUN_RE = re.compile(rb'[-+0-9.eE]+')
_LEN_PARTS_RE = re.compile(rb'(-?)([0-9]*)(\.?)([0-9]*)((?:[eE][+-]?[0-9]+)?)\Z')


def normalise_extensions(doc):
    """rewrite the documented extensions of the reader into RFC 8259: `// ...` comments (outside strings) become a newline; a number
    lexeme of the three lenient classes (leading zeros, empty integer part after the minus, empty fraction) becomes the RFC lexeme of the
    same value; a comma directly (up to whitespace) before a closing bracket or brace is dropped.  Everything else is copied, so that a
    document accepted for any other reason still fails the strict reader."""
    seg = []                                            # (kind, bytes): 's' string, 'w' whitespace, 'n' number, 'o' other byte
    i, n = 0, len(doc)
    while i < n:
        c = doc[i]
        if c == 0x22:                                   # string literal: copy to the closing quote
            j = i + 1
            while j < n and doc[j] != 0x22:
                j += 2 if doc[j] == 0x5c else 1
            seg.append(('s', doc[i:min(j + 1, n)]))
            i = j + 1
        elif c == 0x2f and doc[i + 1:i + 2] == b'/':    # comment to end of line / input
            j = doc.find(b'\n', i)
            seg.append(('w', b'\n'))
            i = n if j < 0 else j + 1
        elif c in b' \t\r\n':
            seg.append(('w', doc[i:i + 1]))
            i += 1
        elif c in b'-0123456789':
            m = _NUMRUN_RE.match(doc, i)
            run = m.group(0)
            # the scanner takes a minus only in front and stops at a second point / exponent: the accepted lexeme is the longest lenient prefix
            best = None
            for k in range(len(run), 0, -1):
                if LENIENT_NUM_RE.match(run[:k]) and run[:1] != b'.':
                    best = k
                    break
            if best is None:
                seg.append(('o', run))
                i = m.end()
                continue
            sgn, ip, pt, fp, ex = _LEN_PARTS_RE.match(run[:best]).groups()
            ip = ip.lstrip(b'0') or b'0'
            seg.append(('n', sgn + ip + ((b'.' + fp) if fp else b'') + ex))
            i += best
        else:
            seg.append(('o', doc[i:i + 1]))
            i += 1
    nxt_of = [None] * len(seg)                          # next / previous segment that is not whitespace
    cur = None
    for k in range(len(seg) - 1, -1, -1):
        nxt_of[k] = cur
        if seg[k][0] != 'w':
            cur = seg[k][1]
    out = bytearray()
    prv = None
    for k, (kind, b) in enumerate(seg):
        if kind == 'o' and b == b',' and nxt_of[k] in (b']', b'}') and prv not in (None, b'[', b'{', b',', b':'):
            prv = b
            continue
        if kind != 'w':
            prv = b
        out += b
    return bytes(out)


NUMLIKE_RE = re.compile(rb'[-+0-9.eE]+\Z')
LENIENT_NUM_RE = re.compile(rb'-?([0-9]+\.?[0-9]*|\.[0-9]+)([eE][+-]?[0-9]+)?\Z')
NUM_RE = re.compile(rb'-?(0|[1-9][0-9]*)(\.[0-9]+)?(e[+-]?[0-9]+)?\Z')


def p16(x):
    return '%.16g' % x


def round_to_float_bits(x):
    """correctly rounded (nearest even) binary32 bit pattern of the finite double x, by exact arithmetic"""
    if x == 0:
        return 0x80000000 if math.copysign(1, x) < 0 else 0
    sign = 0x80000000 if x < 0 else 0
    q = Fraction(abs(x))
    e = math.frexp(abs(x))[1] - 1          # 2^e <= |x| < 2^(e+1)
    if e < -126:
        e = -126
    ulp = Fraction(2) ** (e - 23)
    n = q / ulp
    fl = n.numerator // n.denominator
    rem = n - fl
    if rem > Fraction(1, 2) or (rem == Fraction(1, 2) and fl % 2 == 1):
        fl += 1
    # fl in [0, 2^24]; value = fl * 2^(e-23)
    if e == -126 and fl < 2 ** 23:
        return sign | fl                   # subnormal (or zero)
    if fl == 2 ** 24:
        fl = 2 ** 23
        e += 1
    if e > 127:
        return sign | 0x7f800000
    return sign | ((e + 127) << 23) | (fl - 2 ** 23)


INT_TYPES = [('c', -2 ** 7, 2 ** 7 - 1), ('uc', 0, 2 ** 8 - 1), ('sc', -2 ** 7, 2 ** 7 - 1), ('wc', -2 ** 31, 2 ** 31 - 1),
             ('s', -2 ** 15, 2 ** 15 - 1), ('us', 0, 2 ** 16 - 1), ('i', -2 ** 31, 2 ** 31 - 1), ('u', 0, 2 ** 32 - 1),
             ('l', -2 ** 63, 2 ** 63 - 1), ('ul', 0, 2 ** 64 - 1), ('ll', -2 ** 63, 2 ** 63 - 1), ('ull', 0, 2 ** 64 - 1)]


# ----------------------------------------------------------------------------------------------
# property oracle (implementation output only)
# ----------------------------------------------------------------------------------------------
def classify_tree_input(t):
    ill = False
    ovf = False
    undef = False
    for x in tree_iter(t):
        if isinstance(x, tuple):
            if x[0] in ('S', 'K') and not is_utf8(x[1]):
                ill = True
            elif x[0] == 'D':
                f = dbl(x[1])
                if math.isinf(float(p16(f))):
                    ovf = True
            elif x[0] == 'U':
                undef = True
    return ill, ovf, undef


def same_up_to_printed_precision(a, b):
    """trees equal except that numbers may differ while printing to the same 16 digits"""
    st = [(a, b)]
    while st:
        x, y = st.pop()
        if isinstance(x, list):
            if not isinstance(y, list) or len(x) != len(y):
                return False
            st.extend(zip(x, y))
        elif isinstance(x, tuple) and x[0] == 'O':
            if not (isinstance(y, tuple) and y[0] == 'O') or len(x[1]) != len(y[1]):
                return False
            for (k1, v1), (k2, v2) in zip(x[1], y[1]):
                if k1 != k2:
                    return False
                st.append((v1, v2))
        elif isinstance(x, tuple) and x[0] == 'D':
            if not (isinstance(y, tuple) and y[0] == 'D'):
                return False
            if x[1] != y[1] and p16(dbl(x[1])) != p16(dbl(y[1])):
                return False
        else:
            if x != y or type(x) != type(y):
                return False
    return True


def sort_tree(t):
    """objects by key bytes (what the std::map does), iteratively bottom-up is not needed for the generator's sizes"""
    if isinstance(t, list):
        return [sort_tree(x) for x in t]
    if isinstance(t, tuple) and t[0] == 'O':
        return ('O', sorted(((k, sort_tree(v)) for k, v in t[1]), key=lambda kv: kv[0]))
    return t


def oracle(case, out):
    c = case.split()
    op = c[0]
    if out.startswith('<crash') or out == '<missing>':
        return ('crash-' + op, 'harness died on this input: ' + out)
    o = out.split()
    if not o or o[0] != op or len(o) < 2:
        return ('bad-output-' + op, 'unexpected harness answer ' + out[:200])
    if 'PATHS-DIFFER' in out:
        if 'LOCALE-NOT-RESTORED' in out:
            return (op + '-stream-locale-not-restored', 'the stream locale was not restored after the call')
        return (op + '-entry-points-disagree', 'the entry points (char range / istream / operator>> / locales) disagree: ' + out[:300])
    if op == 'p':
        full = c[1] == '1'
        doc = unhex(c[2])
        ref = py_rfc(doc)
        must = ref is not None and tree_depth(ref) <= DEPTH_BOUND
        if o[1] == 'fail':
            if o[3] != '1':
                return ('failed-parse-modified-target', 'load() returned false but the target value changed')
            if must:
                return ('rfc-document-rejected', 'an RFC 8259 document with unique keys, finite numbers, paired surrogates and nesting <= 512 was rejected')
            return None
        if o[1] != 'ok':
            return ('bad-output-p', out[:200])
        consumed = int(o[2])
        try:
            t = parse_tree(o[3])
        except Exception as e:
            return ('bad-output-p', 'unreadable tree: %s' % e)
        if consumed > len(doc) or (full and consumed != len(doc)):
            return ('parse-consumed-wrong', 'accepted with full=%d but consumed %d of %d bytes' % (full, consumed, len(doc)))
        for x in tree_iter(t):
            if isinstance(x, tuple) and x[0] in ('S', 'K') and not is_utf8(x[1]):
                return ('parsed-string-not-utf8', 'accepted tree holds a string or key that is not valid UTF-8: ' + x[1].hex())
            if isinstance(x, tuple) and x[0] == 'O':
                ks = [k for k, _ in x[1]]
                if any(not (a < b) for a, b in zip(ks, ks[1:])):
                    return ('parsed-keys-not-unique', 'accepted object has duplicate or unordered keys')
            if isinstance(x, tuple) and x[0] == 'D':
                f = dbl(x[1])
                if math.isinf(f) or math.isnan(f):
                    return ('parsed-number-not-finite', 'accepted tree holds a non-finite number')
            if isinstance(x, tuple) and x[0] == 'U':
                return ('parsed-undefined', 'accepted tree holds an undefined value')
        if tree_depth(t) > DEPTH_BOUND:
            return ('parsed-depth-over-bound', 'accepted tree nests deeper than 512')
        if NUMLIKE_RE.match(doc) and consumed == len(doc):
            # a document that is one number-like lexeme: accepted only inside the documented language (RFC 8259 numbers plus
            # leading zeros / empty integer part after the minus / empty fraction, see docs/C11.md section 2b), with the correctly rounded value
            if not LENIENT_NUM_RE.match(doc) or doc[:1] == b'.':
                return ('number-accepted-outside-documented-language', 'the lexeme %r was accepted as a number' % doc[:80])
            if t != ('D', bits_of(float(doc.decode('ascii')))):
                return ('number-value-wrong', 'the lexeme %r was read as %s' % (doc[:80], fmt_tree(t)))
        if must and (full or consumed == len(doc.rstrip(b' \t\r\n'))):
            if t != ref:
                return ('rfc-document-parsed-differently', 'independent reader gives %s' % fmt_tree(ref)[:300])
        if ref is not None and not must and full:
            return ('depth-over-bound-accepted', 'RFC document nested deeper than 512 accepted')
        if ref is None:
            # exactness: whatever is accepted must be an RFC 8259 document up to the documented extensions (comments, lenient number lexemes),
            # and denote the same tree
            nd = normalise_extensions(doc[:consumed])
            nref = py_rfc(nd)
            if nref is None and py_rfc(nd, allow_dup=True) is None:
                return ('accepted-outside-documented-language', 'the accepted text is not RFC 8259 even after removing // comments, trailing commas and normalising lenient numbers')
            if nref is not None and t != nref:
                return ('rfc-document-parsed-differently', 'normalised document denotes %s' % fmt_tree(nref)[:300])
        if ref is None and full and py_rfc(doc, allow_dup=True) is not None:
            # well-formed in every other respect: accepting it means a member was silently dropped
            return ('duplicate-key-document-accepted', 'a document whose only defect is a repeated key in one object was accepted')
        return None
    if op in ('w', 'wd'):
        try:
            t = parse_tree(c[1])
        except Exception as e:
            return ('bad-case', str(e))
        ill, ovf, undef = classify_tree_input(t)
        if o[1] == 'throw':
            return None if undef else ('write-throws', 'save() threw on a tree without undefined members')
        if undef:
            return ('write-undefined-no-throw', 'save() of a tree holding undefined did not throw')
        f = dict(x.split('=', 1) for x in o[1:])
        if f.get('loc') != '1':
            return ('write-depends-on-locale', 'save() output differs under a comma-decimal/grouping locale, or the stream locale was not restored')
        st = sort_tree(t)
        deep = tree_depth(t) > DEPTH_BOUND
        cls = ('json-write-illformed-utf8-string' if ill else 'json-write-number-rounds-to-infinity' if ovf else None)
        texts = {'C': unhex(f['C'])}
        if op == 'w':
            texts['R'] = unhex(f['R'])
        if not ill:
            for lay, txt in texts.items():
                pr = py_rfc(txt) if not ovf else None
                if ovf:
                    continue
                if pr is None:
                    return ('written-text-not-rfc', 'save(%s) produced text an independent RFC 8259 reader rejects' % lay)
                # expected: same tree with every number replaced by the double nearest to its 16-digit decimal
                exp = map_nums(st, lambda b: bits_of(float(p16(dbl(b)))))
                if pr != exp:
                    return ('written-text-denotes-other-value', 'independent reader gets a different tree from save(%s)' % lay)
        for fld in (('rc', 'rr') if op == 'w' else ('rc',)):
            r = f.get(fld)
            if r == 'F':
                if cls:
                    return (cls, {'json-write-illformed-utf8-string': 'a string or key holding ill-formed UTF-8 is written verbatim and the reader rejects the text',
                                  'json-write-number-rounds-to-infinity': 'a finite number whose 16-digit decimal exceeds DBL_MAX is written to text the reader rejects'}[cls])
                if deep:
                    continue     # nesting above the parser bound: outside the round-trip claim (see docs/C11.md)
                return ('roundtrip-rejected', 'load(save(v)) failed (%s)' % fld)
            if deep:
                return ('depth-over-bound-accepted', 'tree nested deeper than 512 was reloaded')
            if r != '=':
                try:
                    rt = parse_tree(r)
                except Exception as e:
                    return ('bad-output-w', str(e))
                if not same_up_to_printed_precision(st, rt):
                    return ('roundtrip-differs', 'load(save(v)) differs from v beyond the printed precision (%s)' % fld)
        if f.get('rc') != 'F':
            if f.get('r2') != '=':
                return ('roundtrip-second-round-not-exact', 'second save/load round changed the value: r2=%s' % f.get('r2')[:200])
            if f.get('rc') == '=' and f.get('eq') != '1':
                return ('roundtrip-operator-eq', 'bit-identical reload but operator== says different')
        return None
    if op == 'g':
        bits = int(c[1], 16)
        x = dbl(bits)
        f = dict(y.split('=', 1) for y in o[1:])
        if math.isinf(x) or math.isnan(x):
            return None
        for nm, lo, hi in INT_TYPES:
            if x == math.floor(x) and lo <= int(x) <= hi:
                exp = str(int(x))
            else:
                exp = 'X'
            if f.get(nm) != exp:
                return ('get-int-not-exact', 'get_value<%s>(%r) gave %s, exact answer %s' % (nm, x, f.get(nm), exp))
        expf = '%08x' % round_to_float_bits(x) if abs(x) <= FLT_MAX else 'X'
        if f.get('f') != expf:
            return ('get-float-wrong', 'get_value<float>(%r) gave %s, expected %s' % (x, f.get('f'), expf))
        if f.get('d') != '%016x' % bits:
            return ('get-double-wrong', 'get_value<double> changed the number')
        return None
    if op == 'q':
        s = unhex(c[1])
        r = unhex(o[1])
        if len(r) < 2 or r[:1] != b'"' or r[-1:] != b'"':
            return ('to_json-not-quoted', 'to_json output is not a quoted string')
        body = r[1:-1]
        if any(ch < 0x20 for ch in body) or re.search(rb'(?<!\\)(\\\\)*"', body):
            return ('to_json-unescaped', 'to_json left a control character or a bare quote')
        try:
            back = json.loads(r.decode('latin-1')).encode('latin-1')
        except Exception as e:
            return ('to_json-not-json', 'to_json output is not a JSON string: %s' % e)
        if back != s:
            return ('to_json-not-invertible', 'un-escaping to_json(s) does not give s')
        return None
    return ('bad-case', 'unknown op')


def map_nums(t, fn):
    if isinstance(t, list):
        return [map_nums(x, fn) for x in t]
    if isinstance(t, tuple) and t[0] == 'O':
        return ('O', [(k, map_nums(v, fn)) for k, v in t[1]])
    if isinstance(t, tuple) and t[0] == 'D':
        return ('D', fn(t[1]))
    return t


# ----------------------------------------------------------------------------------------------
# generators
# ----------------------------------------------------------------------------------------------
WS = [b' ', b'\t', b'\n', b'\r', b'', b'', b'', b'  ', b'\r\n']
ESC_SIMPLE = [b'\\"', b'\\\\', b'\\/', b'\\b', b'\\f', b'\\n', b'\\r', b'\\t']
EDGE_DOUBLES = [0.0, -0.0, 5e-324, -5e-324, 2.2250738585072014e-308, 2.225073858507201e-308, 1.7976931348623157e308,
                -1.7976931348623157e308, 1.7976931348623155e308, 1.797693134862315e308, 1.0, -1.0, 0.1, 1 / 3., 2 / 3., 1e15, 1e16, 1e17,
                123456789012345680.0, 9007199254740992.0, 9007199254740993.0, 9007199254740994.0, 1e-4, 1e-5, 9.999999999999999e-5,
                0.0001, 1e21, 1e22, 1e23, 1e-7, 4.35, 0.3, 2.675, 1e100, 1e-100, 1.5, 255.0, 256.0, 65535.0, 4294967296.0,
                0.1 + 0.2, 100.0, 1e5, 123456.789, 5e-5, 999999999999999.9, 9999999999999998.0, 9999999999999999.0]


def rnd_finite_bits(rng):
    k = rng.random()
    if k < 0.15:
        return bits_of(rng.choice(EDGE_DOUBLES))
    if k < 0.35:
        return bits_of(float(rng.randrange(-10 ** rng.randrange(1, 18), 10 ** rng.randrange(1, 18))))
    if k < 0.5:
        return bits_of(round(rng.uniform(-1000, 1000), rng.randrange(0, 6)))
    while True:
        b = rng.getrandbits(64)
        if (b >> 52) & 0x7ff != 0x7ff:
            # keep away from the two doubles of the known number finding unless asked for
            if (b & 0x7fffffffffffffff) >= 0x7feffffffffffffe and rng.random() < 0.9:
                continue
            return b


def rnd_utf8(rng, n):
    out = []
    for _ in range(n):
        k = rng.random()
        if k < 0.5:
            cp = rng.randrange(0x20, 0x7f)
        elif k < 0.6:
            cp = rng.randrange(0, 0x20)
        elif k < 0.7:
            cp = rng.choice([0x22, 0x5c, 0x2f, 0x7f, 0])
        elif k < 0.8:
            cp = rng.randrange(0x80, 0x800)
        elif k < 0.9:
            cp = rng.choice([0x800, 0xd7ff, 0xe000, 0xfffd, 0xffff, 0xfffe]) if rng.random() < 0.5 else rng.randrange(0xe000, 0x10000)
        else:
            cp = rng.choice([0x10000, 0x10ffff, 0x1f600]) if rng.random() < 0.5 else rng.randrange(0x10000, 0x110000)
        out.append(chr(cp))
    return ''.join(out).encode('utf-8')


def enc_string(rng, b, style):
    """a JSON string literal denoting the (valid UTF-8) bytes b, random choice among the escape forms"""
    s = b.decode('utf-8')
    out = [b'"']
    for ch in s:
        cp = ord(ch)
        k = rng.random()
        if cp == 0x22 or cp == 0x5c:
            out.append(b'\\' + bytes([cp]) if k < 0.7 else b'\\u%04x' % cp)
        elif cp == 0x2f:
            out.append(b'/' if k < 0.5 else b'\\/' if k < 0.8 else b'\\u002f')
        elif cp < 0x20:
            short = {8: b'\\b', 12: b'\\f', 10: b'\\n', 13: b'\\r', 9: b'\\t'}.get(cp)
            out.append(short if short and k < 0.6 else (b'\\u%04x' if k < 0.8 else b'\\u%04X') % cp)
        elif style > 0 and k < 0.25 * style:
            if cp >= 0x10000:
                v = cp - 0x10000
                hi, lo = 0xd800 | (v >> 10), 0xdc00 | (v & 0x3ff)
                f = rng.choice([b'\\u%04x\\u%04x', b'\\u%04X\\u%04X', b'\\u%04x\\u%04X'])
                out.append(f % (hi, lo))
            else:
                out.append((b'\\u%04x' if rng.random() < 0.5 else b'\\u%04X') % cp)
        else:
            out.append(ch.encode('utf-8'))
    out.append(b'"')
    return b''.join(out)


def rnd_number_lexeme(rng):
    k = rng.random()
    if k < 0.12:
        return rng.choice([b'0', b'-0', b'0.0', b'-0.0', b'0e0', b'0E+0', b'1', b'-1', b'10', b'1.0', b'1e0', b'1E0', b'1e+0', b'1e-0',
                           b'1.7976931348623157e308', b'1.7976931348623158e308', b'1.797693134862315807e308', b'-1.7976931348623157E+308',
                           b'4.9e-324', b'5e-324', b'2.4703282292062327e-324', b'2.4703282292062328e-324', b'2.4703282292062329e-324',
                           b'2.2250738585072011e-308', b'2.2250738585072014e-308', b'9007199254740993', b'9007199254740992.5',
                           b'0.1', b'0.30000000000000004', b'123456789012345678901234567890', b'0.000000000000000000000000000001',
                           b'1e22', b'1e23', b'1E400', b'1e-400', b'-1e400', b'1e308', b'1e309', b'17976931348623157' + b'0' * 292,
                           b'17976931348623158' + b'0' * 292, b'17976931348623159' + b'0' * 292, b'0.' + b'0' * 323 + b'49',
                           b'0.' + b'0' * 323 + b'24', b'0.' + b'0' * 323 + b'25', b'1' + b'0' * 309, b'1e00000000000000000001',
                           b'1.0000000000000002', b'1.00000000000000011102230246251565404236316680908203125',
                           b'1.00000000000000011102230246251565404236316680908203126', b'1.00000000000000011102230246251565404236316680908203124'])
    sign = b'-' if rng.random() < 0.3 else b''
    nd = rng.choice([1, 1, 2, 3, 5, 10, 15, 16, 17, 18, 20, 25, 40])
    ip = b'0' if rng.random() < 0.2 else bytes([rng.choice(b'123456789')]) + bytes(rng.choice(b'0123456789') for _ in range(nd - 1))
    fp = b''
    if rng.random() < 0.5:
        fp = b'.' + bytes(rng.choice(b'0123456789') for _ in range(rng.choice([1, 1, 2, 5, 15, 16, 17, 20, 30])))
    ep = b''
    if rng.random() < 0.5:
        e = rng.choice([0, 1, -1, 5, -5, 15, 16, 17, 22, 23, 100, -100, 300, -300, 307, 308, 309, -307, -308, -323, -324, -325, 400, -400])
        if rng.random() < 0.3:
            e = rng.randrange(-340, 330)
        ep = rng.choice([b'e', b'E']) + (b'+' if e >= 0 and rng.random() < 0.5 else b'') + (b'%d' % e if rng.random() < 0.9 else b'%03d' % e)
    return sign + ip + fp + ep


def rnd_value(rng, depth, style, keys_escape=True):
    """(text bytes) of a random RFC 8259 value"""
    k = rng.random()
    if depth <= 0 or k < 0.45:
        j = rng.random()
        if j < 0.12:
            return b'null'
        if j < 0.2:
            return b'true'
        if j < 0.28:
            return b'false'
        if j < 0.62:
            return rnd_number_lexeme(rng)
        return enc_string(rng, rnd_utf8(rng, rng.choice([0, 1, 2, 3, 5, 8, 20])), style)
    ws = lambda: rng.choice(WS) if style > 0 else b''
    n = rng.choice([0, 1, 1, 2, 3, 4, 6])
    if k < 0.72:
        if n == 0:
            return b'[' + ws() + b']'
        return b'[' + b','.join(ws() + rnd_value(rng, depth - 1, style) + ws() for _ in range(n)) + b']'
    keys = set()
    while len(keys) < n:
        keys.add(rnd_utf8(rng, rng.choice([0, 1, 1, 2, 3, 5])))
    if n == 0:
        return b'{' + ws() + b'}'
    parts = []
    for kk in keys:
        parts.append(ws() + enc_string(rng, kk, style if keys_escape else 0) + ws() + b':' + ws() + rnd_value(rng, depth - 1, style) + ws())
    return b'{' + b','.join(parts) + b'}'


def rnd_tree(rng, depth, special=0.0):
    """random API tree in notation; special = probability weight of ill-formed strings"""
    k = rng.random()
    if depth <= 0 or k < 0.5:
        j = rng.random()
        if j < 0.1:
            return ('N',)
        if j < 0.2:
            return rng.random() < 0.5
        if j < 0.6:
            return ('D', rnd_finite_bits(rng))
        return ('S', rnd_string_bytes(rng, special))
    n = rng.choice([0, 1, 1, 2, 3, 5])
    if k < 0.75:
        return [rnd_tree(rng, depth - 1, special) for _ in range(n)]
    keys = set()
    while len(keys) < n:
        keys.add(rnd_string_bytes(rng, special, short=True))
    keys = list(keys)
    rng.shuffle(keys)
    return ('O', [(kk, rnd_tree(rng, depth - 1, special)) for kk in keys])


def rnd_string_bytes(rng, special=0.0, short=False):
    if special and rng.random() < special:
        return rng.choice([b'\xff', b'\x80', b'a\xc3', b'\xc0\x80', b'\xed\xa0\x80', b'\xf4\x90\x80\x80', b'\xe2\x82', b'ok\xfe!',
                           b'\xc3\xa9\xc3', b'\xf8\x88\x80\x80\x80', b'\xe0\x80\x80'])
    n = rng.choice([0, 1, 1, 2, 3, 5] if short else [0, 1, 2, 3, 5, 8, 16, 40])
    return rnd_utf8(rng, n)


SMALL_DOCS = [b'{"a":1,"b":[true,null]}', b'[1,2.5e3,"x\\n\\u00e9"]', b'"\\ud83d\\ude00"', b'{"k":{"k":{}}}', b' [ ] ', b'-12.5E-3',
              b'{"a":"b","c":"d"}', b'[[],{},""]', b'true', b'[false,null,0]', b'// c\n[1]', b'{"\\u0061":1,"b":2}', b'"\xc3\xa9\xe2\x82\xac\xf0\x9f\x98\x80"',
              b'[1,\n2,\r\n3]', b'{"":0}', b'[-0,0.1e+2]', b'"\\"\\\\\\/\\b\\f\\n\\r\\t"', b'{"a":[{"b":null}]}']
ALPHA3 = b'[]{}:,"\\/ \n\t\r0129-+.eEtruefalsn\x00\x1f\x7f\x80\xc3\xa9\xef\xbfxX'
MUT_BYTES = b'[]{}:,"\\/ \n0159-+.eEtnfu\x00\x1f\x7f\x80\xbf\xc3\xe0\xf0\xff'


def P(doc, full=1, tag=''):
    return 'p %d %s %s' % (full, hexs(doc), tag)


def gen_cases(ctx):
    rng = ctx.rng
    q = ctx.quick()
    cases = []
    # ---- exhaustive small documents -----------------------------------------------------------
    for a in range(256):
        cases.append(P(bytes([a]), 1, 'ex1'))
        cases.append(P(bytes([a]), 0, 'ex1'))
    for a in range(256):
        for b in range(256):
            cases.append(P(bytes([a, b]), 1, 'ex2'))
    al = sorted(set(ALPHA3))
    for t in itertools.product(al, repeat=3):
        cases.append(P(bytes(t), 1, 'ex3'))
    if not q:
        al4 = sorted(set(b'[]{}:,"\\/ \n019-.etrufalsn\xc3\xa9'))
        for t in itertools.product(al4, repeat=4):
            cases.append(P(bytes(t), 1, 'ex4'))
    # ---- strings: every byte raw / after a backslash; all \uXXXX; surrogate pairs --------------
    for a in range(256):
        cases.append(P(b'"' + bytes([a]) + b'"', 1, 'strbyte'))
        cases.append(P(b'"\\' + bytes([a]) + b'"', 1, 'strbyte'))
        cases.append(P(b'"\\u00' + bytes([a]) + b'0"', 1, 'strbyte'))
        cases.append(P(b'["a' + bytes([a]) + b'b"]', 1, 'strbyte'))
    edges = set()
    for cpt in [0, 0x20, 0x7f, 0x80, 0x7ff, 0x800, 0xd7ff, 0xd800, 0xdbff, 0xdc00, 0xdfff, 0xe000, 0xfffe, 0xffff]:
        for d in range(-3, 4):
            if 0 <= cpt + d <= 0xffff:
                edges.add(cpt + d)
    allu = range(0x10000) if not q else sorted(edges | set(range(0, 0x120)) | set(rng.randrange(0x10000) for _ in range(3000)))
    for x in allu:
        cases.append(P(b'"\\u%04x"' % x, 1, 'uXXXX'))
    for x in sorted(edges):
        cases.append(P(b'"\\u%04X"' % x, 1, 'uXXXX'))
    his = [0xd7ff, 0xd800, 0xd801, 0xdbfe, 0xdbff, 0xdc00, 0xdfff, 0xe000, 0x0041]
    los = [0xdbff, 0xdc00, 0xdc01, 0xdffe, 0xdfff, 0xe000, 0x0041, 0xd800]
    for hi in his:
        for lo in los:
            cases.append(P(b'"\\u%04x\\u%04x"' % (hi, lo), 1, 'surr'))
            cases.append(P(b'"x\\u%04X\\u%04x y"' % (hi, lo), 1, 'surr'))
        for tail in [b'', b'x', b'\\n', b'\\', b'\\u', b'\\u12', b'\\udc0', b'\\udc0g', b'"', b'\\\\udc00', b' \\udc00', b'\\U0041', b'\\udc00\\udc00']:
            cases.append(P(b'"\\u%04x' % hi + tail + b'"', 1, 'surr'))
    # something between the two halves of a pair: the pending-surrogate tests before and after the backslash
    for hi in (0xd800, 0xdbff, 0xd83d):
        for mid in ESC_SIMPLE + [b'\\u0041', b'\\u0000', b'x', b' ', b'\\', b'\\x', b'\\ud800', b'\\U', b'\\u']:
            for lo in (0xdc00, 0xdfff, 0xde00):
                cases.append(P(b'"\\u%04x' % hi + mid + b'\\u%04x"' % lo, 1, 'surr'))
                cases.append(P(b'["a\\u%04x' % hi + mid + b'\\u%04x", 1]' % lo, 1, 'surr'))
    for _ in range(ctx.scale(1500, 30000)):
        hi = rng.randrange(0xd800, 0xdc00)
        lo = rng.randrange(0xdc00, 0xe000)
        cases.append(P(b'"\\u%04x\\u%04x"' % (hi, lo), 1, 'surr'))
    for h in [b'12\n4', b'12', b'', b'123', b'12 4', b'1\x004', b'+123', b'-123', b'0x12', b'12g4', b'G000', b'00e9', b'00E9', b'00eG', b' 0e9']:
        cases.append(P(b'"\\u' + h + b'"', 1, 'u4'))
        cases.append(P(b'"\\u' + h, 1, 'u4'))
    # raw UTF-8 inside strings: boundaries of table 3-7 and all two-byte combinations of high bytes
    b1 = [0x7f, 0x80, 0xbf, 0xc0, 0xc1, 0xc2, 0xdf, 0xe0, 0xe1, 0xec, 0xed, 0xee, 0xef, 0xf0, 0xf1, 0xf3, 0xf4, 0xf5, 0xf7, 0xf8, 0xff]
    b2 = [0x00, 0x7f, 0x80, 0x8f, 0x90, 0x9f, 0xa0, 0xbf, 0xc0, 0xff]
    for a in b1:
        for b in b2:
            cases.append(P(b'"' + bytes([a, b]) + b'"', 1, 'utf8raw'))
            for c3 in [0x7f, 0x80, 0xbf, 0xc0]:
                cases.append(P(b'"' + bytes([a, b, c3]) + b'"', 1, 'utf8raw'))
                for d4 in [0x7f, 0x80, 0xbf, 0xc0]:
                    cases.append(P(b'"' + bytes([a, b, c3, d4]) + b'"', 1, 'utf8raw'))
    if not q:
        for a in range(0x80, 0x100):
            for b in range(0x70, 0x100):
                cases.append(P(b'"' + bytes([a, b]) + b'"', 1, 'utf8raw'))
                cases.append(P(b'"' + bytes([a, b, 0x80]) + b'"', 1, 'utf8raw'))
                cases.append(P(b'"' + bytes([a, b, 0x80, 0x80]) + b'"', 1, 'utf8raw'))
    # ---- numbers -------------------------------------------------------------------------------
    oddnum = [b'007', b'00', b'-00.5e-00', b'1.', b'.5', b'-.5', b'-', b'--1', b'+1', b'1e', b'1e+', b'1e-', b'1E+5', b'1e5e5', b'1.2.3',
              b'0x10', b'1_000', b'Infinity', b'-Infinity', b'NaN', b'nan', b'inf', b'-inf', b'1e5.5', b'1.e5', b'-e5', b'-.e5', b'1-2', b'1+2',
              b'1e1-2', b'01', b'-01', b'0.', b'0e', b'1,5', b'1.5,', b'1 .5', b'1e 5', b'- 1', b'1E', b'1.e', b'1.E+', b'0e+', b'9' * 400,
              b'0.' + b'0' * 400 + b'1', b'-0e999', b'0e-999', b'1e+999', b'1e0000000000000000000000001', b'1e99999999999999999999',
              b'1e-99999999999999999999', b'0.1e1', b'1e+05', b'1e-05', b'1d5', b'1f', b'1L', b'0b1', b'0o7', b'1.5f', b'\xef\xbc\x91']
    for nlex in oddnum:
        for ctxt in (b'%s', b'[%s]', b'{"a":%s}', b' %s ', b'[%s,%s]', b'[%s\n]'):
            cases.append(P(ctxt.replace(b'%s', nlex), 1, 'oddnum'))
        cases.append(P(nlex + b'x', 0, 'oddnum'))
    # every short number-like document: the case splits of NumGrammar.v (sign, leading zeros, point, exponent letter and sign)
    for n in range(1, 5):
        for t in itertools.product(b'-+019.eE', repeat=n):
            cases.append(P(bytes(t), 1, 'numex'))
            if n <= 3:
                cases.append(P(b'[' + bytes(t) + b']', 1, 'numex'))
    for t in itertools.product(b'-01.e+', repeat=5):
        cases.append(P(bytes(t), 1, 'numex'))
    if not q:
        for t in itertools.product(b'-01.e', repeat=7):
            cases.append(P(bytes(t), 1, 'numex'))
    for _ in range(ctx.scale(1500, 40000)):
        # accepted-but-not-RFC shapes with random digits: leading zeros, empty integer part, empty fraction
        dg = lambda k: bytes(rng.choice(b'0123456789') for _ in range(k))
        sign = rng.choice([b'', b'-', b'-', b'+'])
        shape = rng.randrange(6)
        if shape == 0:
            body = b'0' * rng.choice([1, 2, 5]) + dg(rng.choice([1, 3, 17]))
        elif shape == 1:
            body = dg(rng.choice([1, 2, 16])) + b'.'
        elif shape == 2:
            body = b'.' + dg(rng.choice([1, 2, 20]))
        elif shape == 3:
            body = b'0' * rng.choice([1, 3]) + b'.' + dg(rng.choice([0, 1, 5]))
        elif shape == 4:
            body = dg(rng.choice([1, 5])) + b'.' + dg(rng.choice([0, 3])) + rng.choice([b'.', b'e', b'E', b'e+', b'.5', b'e5e', b'e.5', b'e-'])
        else:
            body = dg(rng.choice([0, 1, 3])) + rng.choice([b'', b'.']) + dg(rng.choice([0, 1, 3]))
        ep = rng.choice([b'', b'', b'e5', b'E-3', b'e+308', b'e309', b'e-330', b'E007', b'e', b'e+'])
        nlex = sign + body + ep
        cases.append(P(rng.choice([b'%s', b'[%s]', b'{"a":%s}', b' %s ']).replace(b'%s', nlex), 1, 'numlen'))
    for _ in range(ctx.scale(4000, 150000)):
        nlex = rnd_number_lexeme(rng)
        ctxt = rng.choice([b'%s', b'[%s]', b'{"a":%s}', b'[1,%s ]', b' %s\n', b'[%s\t,0]'])
        cases.append(P(ctxt.replace(b'%s', nlex), 1, 'num'))
    # ---- nesting 0..600 ------------------------------------------------------------------------
    depths = sorted(set(list(range(0, 12)) + list(range(505, 521)) + [100, 255, 256, 300, 400, 500, 550, 599, 600] +
                        [rng.randrange(12, 600) for _ in range(ctx.scale(10, 120))]))
    for d in depths:
        cases.append(P(b'[' * d + b']' * d, 1, 'nest') if d else P(b'0', 1, 'nest'))
        cases.append(P(b'[' * d + b'1' + b']' * d, 1, 'nest'))
        cases.append(P(b'{"a":' * d + b'null' + b'}' * d, 1, 'nest'))
        cases.append(P(b'[{"k":' * (d // 2) + (b'[' if d % 2 else b'') + b'"s"' + (b']' if d % 2 else b'') + b'}]' * (d // 2), 1, 'nest'))
        cases.append(P(b' [\n' * d + b' ] ' * d, 1, 'nest'))
        cases.append(P(b'[' * d + b']' * d, 0, 'nest'))
        cases.append(P(b'[1,[2,' * (d // 2) + b'[]' + b']]' * (d // 2), 1, 'nest'))
        cases.append(P(b'[' * d, 1, 'nest'))
        cases.append(P(b'[' * d + b']' * max(0, d - 1), 1, 'nest'))
        cases.append(P(b'[' * d + b']' * (d + 1), 1, 'nest'))
    # random mixtures of array and object levels at the bound (DepthDup.v: depth_512_accepted / depth_513_rejected)
    def mixture(d, pretty):
        opens, closes = [], []
        for i in range(d):
            w = rng.choice(WS) if pretty else b''
            if rng.random() < 0.5:
                opens.append(b'[' + w)
                closes.append(w + b']')
            else:
                key = rng.choice([b'"k"', b'""', b'"\\u006b"', b'"\xc3\xa9"', b'"a b"', b'"\\n"'])
                opens.append(b'{' + w + key + w + b':' + w)
                closes.append(w + b'}')
        return b''.join(opens), b''.join(reversed(closes))
    for d in (510, 511, 512, 513, 514):
        for _ in range(ctx.scale(3, 12)):
            o, c = mixture(d, rng.random() < 0.3)
            for inner in (b'null', b'"s"', b'-1.5e3', b'[]', b'{}', b'[[]]', b'{"a":{}}', b'[', b'{', b'x', b''):
                cases.append(P(o + inner + c, 1, 'nestmix'))
            cases.append(P(o + b'1' + c[:-1], 1, 'nestmix'))
            cases.append(P(o + b'1' + c + b']', 1, 'nestmix'))
            cases.append(P(o + b'1' + c + b' x', 0, 'nestmix'))
    # ---- objects / duplicate keys / ordering ---------------------------------------------------
    objs = [b'{"a":1,"a":2}', b'{"a":1,"b":2,"a":3}', b'{"a":{"a":1},"b":{"a":2}}', b'{"a":1,"\\u0061":2}', b'{"\\u00e9":1,"\xc3\xa9":2}',
            b'{"":1,"":2}', b'{"a":1,"A":2}', b'{"b":1,"a":2,"ab":3,"":4,"\xc3\xa9":5,"\x7f":6,"\\u0000":7}', b'{"a":[],"a":[]}',
            b'{"a":{},"a":1}', b'{"a":1,"a"}', b'{"a":1,"a":}', b'{"a":1,"a":x}', b'{"a":1,}', b'{,}', b'{"a"}', b'{"a":}', b'{:1}', b'{"a":1:2}',
            b'{"a":1,,"b":2}', b'{"a" :1 , "b": 2 }', b'{"a":1 "b":2}', b'{"a":1;"b":2}', b'{\'a\':1}', b'{a:1}', b'{"a":1}}', b'{{"a":1}}',
            b'{"\\ud83d\\ude00":1,"\xf0\x9f\x98\x80":2}', b'{"x":{"y":{"x":{"y":1}}}}', b'[{"a":1},{"a":1}]', b'{"a\\u0000b":1,"a":2,"a\\u0000":3}',
            b'[1,]', b'[,]', b'[,1]', b'[1,,2]', b'[1 2]', b'[1:2]', b'[1}', b'{"a":1]', b'[', b']', b'{', b'}', b'[]]', b'[][]', b'[] []', b'{}{}',
            b'nulll', b'nul', b'truefalse', b'true false', b'True', b'NULL', b'tru e', b't', b'n', b'f', b'[tru]', b'[nulltrue]', b'[true,false,null]']
    for d in objs:
        cases.append(P(d, 1, 'obj'))
        cases.append(P(d, 0, 'obj'))
    # ---- comments, whitespace, line counting, BOM, trailing data -------------------------------
    misc = [b'// c\n[1]', b'[1] // c', b'[1] // c\n', b'[1 // c\n,2]', b'[// c\n]', b'//', b'//\n', b'/', b'/x', b'/*c*/1', b'1 /', b'1 //', b'1 / /',
            b'[1,// c\r2]', b'"// not a comment"', b'{"a"// k\n:// v\n1// e\n}', b'\n\n[\n1,\n2\n x', b'\r\n\r\n[x', b'// a\n// b\n x', b'[1,\n// c\n\nx]',
            b'\xef\xbb\xbf[1]', b'\x0c[1]', b'\x0b[1]', b'[1]\x0c', b'\x00', b'[1]\x00', b'[1] x', b'[1] 2', b'1 2', b'"a" "b"', b'[1],[2]', b'\xa0[1]',
            b' \t\r\n[ \t\r\n1 \t\r\n, \t\r\n2 \t\r\n] \t\r\n', b'"\n"', b'"a\nb" x', b'"abc', b'"abc\\', b'"abc\\"', b'"', b'""', b'"\\', b'""""', b'"a""b"',
            b'[1]\n\n\n\nx', b'\n\n\n"a\n', b'[\n"\\u12\n34"]', b'\n[1,\n\n2 3]', b'\n//\n//\nx']
    for d in misc:
        cases.append(P(d, 1, 'misc'))
        cases.append(P(d, 0, 'misc'))
    # ---- grammar-generated RFC documents --------------------------------------------------------
    for _ in range(ctx.scale(6000, 200000)):
        style = rng.choice([0, 1, 1, 2])
        doc = rng.choice(WS) + rnd_value(rng, rng.choice([0, 1, 2, 3, 4, 6]), style) + rng.choice(WS)
        cases.append(P(doc, 1, 'rfc'))
        if rng.random() < 0.15:
            cases.append(P(doc + rng.choice([b'x', b' 1', b',', b']', b'}', b'//c', b'\n\n"', b'\x00']), rng.randrange(2), 'rfc+tail'))
    # large documents (tens of KiB)
    for _ in range(ctx.scale(6, 60)):
        parts = [rnd_value(rng, 3, 1) for _ in range(rng.choice([200, 600, 1500]))]
        cases.append(P(b'[' + b',\n'.join(parts) + b']', 1, 'big'))
    cases.append(P(b'"' + rnd_utf8(rng, 20000).replace(b'"', b'q').replace(b'\\', b'/').translate(None, bytes(range(32))) + b'"', 1, 'big'))
    cases.append(P(b'[' + b','.join(b'%d' % i for i in range(8000)) + b']', 1, 'big'))
    # ---- single-byte mutations of small documents -----------------------------------------------
    for doc in SMALL_DOCS:
        for i in range(len(doc) + 1):
            if i < len(doc):
                cases.append(P(doc[:i] + doc[i + 1:], 1, 'mut'))
                cases.append(P(doc[:i + 1] + doc[i:], 1, 'mut'))
            for b in (MUT_BYTES if q else range(256)):
                bb = bytes([b])
                if i < len(doc) and bb != doc[i:i + 1]:
                    cases.append(P(doc[:i] + bb + doc[i + 1:], 1, 'mut'))
                if q and rng.random() < 0.7:
                    continue
                cases.append(P(doc[:i] + bb + doc[i:], 1, 'mut'))
    for _ in range(ctx.scale(3000, 100000)):
        doc = bytearray(rnd_value(rng, 3, 1))
        if not doc:
            continue
        for _ in range(rng.choice([1, 1, 2])):
            i = rng.randrange(len(doc))
            k = rng.random()
            if k < 0.4:
                doc[i] = rng.choice(MUT_BYTES)
            elif k < 0.6:
                del doc[i]
                if not doc:
                    break
            elif k < 0.8:
                doc.insert(i, rng.choice(MUT_BYTES))
            else:
                doc[i] = rng.getrandbits(8)
        cases.append(P(bytes(doc), rng.choice([1, 1, 0]), 'mut'))
    # ---- random bytes ----------------------------------------------------------------------------
    for _ in range(ctx.scale(3000, 100000)):
        n = rng.choice([1, 2, 3, 4, 5, 8, 16, 64])
        if rng.random() < 0.5:
            doc = bytes(rng.getrandbits(8) for _ in range(n))
        else:
            doc = bytes(rng.choice(ALPHA3) for _ in range(n))
        cases.append(P(doc, rng.choice([1, 1, 0]), 'rand'))
    # ---- API-built trees ---------------------------------------------------------------------------
    W = lambda t: 'w ' + fmt_tree(t)
    fixed_trees = [[], ('O', []), ('S', b''), ('S', b'\x00'), ('S', b'a\x00b'), ('S', bytes(range(0x20))), ('S', b'"\\/\x7f'), ('N',), True, False,
                   [[], ('O', []), [[]], ('O', [(b'', [])])], ('O', [(b'\x00', ('N',)), (b'"', True), (b'\\', False), (b'\n', []), (b'a\tb', ('S', b'\r'))]),
                   ('O', [(b'\xc3\xa9', ('D', bits_of(1.0))), (b'z', ('D', bits_of(2.0))), (b'\x7f', ('N',)), (b'', ('N',)), (b'a', ('N',)), (b'ab', ('N',)),
                          (b'\xf0\x9f\x98\x80', ('N',)), (b'\xef\xbf\xbf', ('N',))]),
                   ('U',), [('U',)], ('O', [(b'a', ('U',))]), [1 == 1, [('N',), [('U',)]]],
                   ('S', b'\xff'), ('O', [(b'\xff', ('N',))]), [('S', b'ok'), ('S', b'\xc3')], ('S', b'\xed\xa0\x80'), ('S', b'\xc0\x80'), ('S', b'\xf4\x90\x80\x80'),
                   ('D', 0x7fefffffffffffff), ('D', 0xffefffffffffffff), ('D', 0x7feffffffffffffe), ('D', 0x7feffffffffffffd), [('D', 0x7fefffffffffffff), ('S', b'\xff')]]
    for t in fixed_trees:
        cases.append(W(t))
    for x in EDGE_DOUBLES:
        cases.append(W(('D', bits_of(x))))
        cases.append(W([('D', bits_of(x)), ('D', bits_of(-x))]))
        cases.append(W(('O', [(b'n', ('D', bits_of(x)))])))
    # integers: the class of IntRound.v (magnitude below 2^53, both signs, -0) and its edges 2^53, 10^15, 10^16, 10^17
    ints = set()
    for k in range(0, 56):
        ints.update([2 ** k - 1, 2 ** k, 2 ** k + 1])
    for k in range(0, 19):
        ints.update([10 ** k - 1, 10 ** k, 10 ** k + 1, 9 * 10 ** k, 5 * 10 ** k])
    ints.update([2 ** 53 - 2, 2 ** 53 + 2, 2 ** 53 + 4, 123456789012345, 1234567890123456, 999999999999999, 9999999999999998])
    ints.update(rng.randrange(2 ** rng.randrange(1, 54)) for _ in range(ctx.scale(300, 20000)))
    il = sorted(ints)
    for i in range(0, len(il), 6):
        cases.append(W([('D', bits_of(float(s * n))) for n in il[i:i + 6] for s in (1, -1)]))
    cases.append(W(('O', [(b'n%d' % n, ('D', bits_of(float(-n)))) for n in il[:40]])))
    for e in range(-324, 309, 1 if not q else 7):
        cases.append(W([('D', bits_of(float('1e%d' % e))), ('D', bits_of(float('9.999999999999999e%d' % e))) if e < 308 else ('N',)]))
    for _ in range(ctx.scale(3000, 100000)):
        cases.append(W(('D', rnd_finite_bits(rng))))
    for _ in range(ctx.scale(2500, 80000)):
        cases.append(W(rnd_tree(rng, rng.choice([1, 2, 3, 4, 5]), special=0.0)))
    for _ in range(ctx.scale(150, 3000)):
        cases.append(W(rnd_tree(rng, rng.choice([1, 2, 3]), special=0.15)))
    # deep trees: readable layout (quadratic text) up to depth 120, compact only (op wd) beyond
    WD = lambda t: 'wd ' + fmt_tree(t)
    for d in sorted(set([1, 2, 3, 50, 100, 120, 400, 510, 511, 512, 513, 514, 600] + [rng.randrange(4, 600) for _ in range(ctx.scale(3, 40))])):
        t = ('D', bits_of(1.5))
        t2 = ('S', b'leaf')
        t3 = []
        for i in range(d):
            t = [t]
            t2 = ('O', [(b'k', t2)])
            t3 = [t3] if i else []
        Wx = W if d <= 120 else WD
        cases.append(Wx(t))
        cases.append(Wx(t2))
        if d >= 1:
            cases.append(Wx(t3))
    cases.append(W([('S', rnd_utf8(rng, 30)) for _ in range(1500)]))
    cases.append(W(('O', [(b'key%05d' % i, ('D', rnd_finite_bits(rng))) for i in range(1500)])))
    # ---- typed extraction ----------------------------------------------------------------------------
    gv = set()
    for k in [0, 7, 8, 15, 16, 31, 32, 52, 53, 54, 62, 63, 64, 65, 127, 128]:
        for sgn in (1, -1):
            B = sgn * 2.0 ** k
            for x in [B, B - 1, B + 1, B - 0.5, B + 0.5, B - 2, B + 2, B * (1 - 2.0 ** -52), B * (1 + 2.0 ** -52), B * (1 - 2.0 ** -53)]:
                gv.add(bits_of(x))
    for x in EDGE_DOUBLES + [FLT_MAX, -FLT_MAX, float.fromhex('0x1.fffffe0000001p127'), float.fromhex('0x1.ffffffp127'), float.fromhex('0x1.fffffdfffffffp127'),
                             2.0 ** 128, -2.0 ** 128, 1e39, -1e39, 2.0 ** -126, 2.0 ** -149, 2.0 ** -150, 2.0 ** -151, float.fromhex('0x1.0000010000000p-150'),
                             float.fromhex('0x1.0000020000000p0'), float.fromhex('0x1.0000010000000p0'), float.fromhex('0x1.0000030000000p0'),
                             float.fromhex('0x1.0000010000001p0'), float.fromhex('0x1.000000fffffffp0'), float.fromhex('0x1.fffffefffffffp-127'),
                             float.fromhex('0x1.fffffcp-127'), float.fromhex('0x1.fffffdp-127'), float.fromhex('0x1.ffffffp-127'), 0.5, -0.5, 1e-320,
                             127.0, 128.0, -128.0, -129.0, 255.0, 256.0, 32767.0, 32768.0, -32768.0, -32769.0, 65535.0, 65536.0, 2147483647.0, 2147483648.0,
                             -2147483648.0, -2147483649.0, 4294967295.0, 4294967296.0, 9223372036854775807.0, 9223372036854774784.0, -9223372036854775808.0,
                             -9223372036854777856.0, 18446744073709551615.0, 18446744073709549568.0, 127.5, 254.99999999999997, -0.9999999999999999]:
        gv.add(bits_of(x))
    for _ in range(ctx.scale(3000, 100000)):
        k = rng.random()
        if k < 0.3:
            gv.add(bits_of(float(rng.randrange(-2 ** rng.randrange(1, 66), 2 ** rng.randrange(1, 66)))))
        elif k < 0.5:
            gv.add(bits_of(rng.randrange(-70000, 70000) + rng.choice([0.0, 0.5, 0.25, 1e-9, -1e-9])))
        else:
            gv.add(rnd_finite_bits(rng))
    for b in sorted(gv):
        if (b >> 52) & 0x7ff != 0x7ff:
            cases.append('g %016x' % b)
    # ---- to_json -----------------------------------------------------------------------------------------
    for a in range(256):
        cases.append('q ' + hexs(bytes([a])))
        cases.append('q ' + hexs(bytes([0x61, a, 0x5c])))
    for _ in range(ctx.scale(1000, 30000)):
        n = rng.choice([0, 2, 3, 8, 40])
        cases.append('q ' + hexs(bytes(rng.choice(b'"\\/\x00\x01\x08\x09\x0a\x0c\x0d\x1f\x20\x7f\x80\xffabc') for _ in range(n))))
    return cases


def nontrivial(case, out):
    c = case.split()
    if c[0] == 'p':
        return c[2] != '-'
    return True


def classify(case, out):
    c = case.split()
    o = out.split()
    if c[0] == 'p':
        tag = c[3] if len(c) > 3 else 'replay'
        res = o[1] if len(o) > 1 else '?'
        if res == 'ok':
            doc = unhex(c[2])
            res = 'accepted' if py_rfc(doc) is not None else 'accepted-beyond-rfc'
        return 'p:%s:%s' % (tag, res)
    if c[0] in ('w', 'wd'):
        if len(o) > 1 and o[1] == 'throw':
            return 'w:throw'
        m = re.search(r' rc=(\S)', out)
        return 'w:' + {'=': 'reload-identical', 'F': 'reload-rejected'}.get(m.group(1) if m else '?', 'reload-within-precision')
    return c[0]


def run(ctx):
    errs = gen_all()
    for n, e in errs:
        ctx.broke('translator cxx2v failed on %s (tie to source broken)' % n, e)
    res = vlib.coq_props('C11')
    ctx.proof(res)
    ctx.coverage['trusted_base'] = [
        'Coq 8.16.1 kernel, vm_compute (sweeps, boundary documents)',
        'tools/cxx2v.py + clang 14 JSON AST (utf8/utf16 helpers of private/utf_iterator.h, json_max_depth, byte tests) and the escape-switch / switch-table extractors in checks/C11.py',
        'extraction: ExtrOcamlBasic, OCaml 4.13.1',
        'harness/C11_json.cpp, ocaml/C11_driver.ml, checks/C11.py (generators, oracles using Python json/float/struct)',
        'hand model of tockenizer::next, parse_string, libstdc++ num_get float accumulation, parse_stream loop, write_value layout (coq/C11/Defs.v)',
        'strtod / printf %.16g / double->float conversion: parameters of the model, instantiated in the driver by the platform functions']
    ctx.assumptions = [
        'to_double (strtod on the text accumulated by num_get, None when the result is not finite), print16 (ostream<<setprecision(16)<<double under the C locale) '
        'and to_float are parameters of the model, universally quantified in every theorem; write_parse / save_load_roundtrip assume for each number x of the value '
        '(num_ok): print16 x is an RFC 8259 number lexeme and to_double of it is Some (rt x); write_parse_second_round_exact also assumes the same for rt x and '
        'rt (rt x) = rt x (checked on every generated number by the oracle with Python %.16g / float(); false for the two largest finite doubles of each sign: known finding)',
        'number_token_exact / number_document_rejected: strtod_law = forall x, to_double x <> None <-> (strtod_dec x = true /\\ rounds_finite x = true) with rounds_finite abstract '
        '(the value of a number stays an oracle; the driver checks the syntactic half on every conversion, the oracle checks every number-like document against Python float)',
        'integers_roundtrip_exact: print_int_law (the platform %.16g equals the computed print16_int on integers below 2^53 in magnitude) and strtod_int_law (strtod equals the computed '
        'to_double_int on integer lexemes below 2^53); both checked by the model driver on every case (answer MODEL-HYPOTHESIS-VIOLATED otherwise)',
        'rfc8259_accepted: the grammar Val requires the decoded content of each string literal and key to be valid UTF-8 (utf8_valid) and to_double of each number lexeme to be finite',
        'write_parse: wgood v = no undefined member, strings and keys valid UTF-8 (known finding otherwise), objects sorted by key (std::map invariant), depth v <= 512',
        'signed arithmetic in translated leaf functions does not overflow; char is signed 8-bit, unsigned char 8-bit',
        'libstdc++ num_get<char>::_M_extract_float accumulation rule under the classic locale as modelled by scan_number (tied by correspondence only)',
        'the stream handed to load() is in good state; stream flags other than the locale are the defaults; locale imbue/restore is exercised by the harness, not modelled']
    exe, err = vlib.build_harness('C11_json', ['C11_json.cpp'])
    if not exe:
        ctx.broke('harness build failed', err)
        return
    mexe, err = vlib.build_model('C11', 'C11_driver.ml', 'c11m')
    if not mexe:
        ctx.broke('model extraction/build failed', err)
    sys.setrecursionlimit(20000)
    if ctx.replay_cases is not None:
        cases = ctx.replay_cases
    else:
        cases = vlib.corpus_cases('C11') + gen_cases(ctx)
    ctx.coverage['rule'] = (
        'cases: p <full> <hex document> | w <tree built through the API> | wd <deep tree, compact layout only> | g <bits of a double> | q <hex string>. Exhaustive: every document of 1 and 2 bytes, '
        'every 3-byte document over a 42-byte JSON alphabet, every byte raw and escaped inside a string, every \\uXXXX (thorough; quick: all boundaries + 3000 random), '
        'surrogate pair boundary grid incl. escapes between the halves, table 3-7 boundary grid of raw UTF-8, every number-like document of <= 4 bytes over -+019.eE and of 5 bytes over -01.e+, '
        'nesting 0..11 and 505..520 in nine shapes, random array/object mixtures at depth 510..514, every 1-byte string through to_json. '
        'Random (seeded): RFC 8259 grammar documents with all escape forms and numbers across the double range, number lexemes, single-byte mutations of 18 small '
        'documents (every position), mutated grammar documents, random bytes, API trees (finite doubles incl. all powers of ten, integers 2^k, 2^k+-1, 10^k+-1 and random below 2^53, NUL/control/multi-byte strings, '
        'ill-formed UTF-8, undefined members, depth up to 600, 1500-member containers), extraction at every integer-width and float edge. '
        'non-trivial = non-empty input; distinct = distinct case lines.')
    ctx.coverage['exhaustive'] = False
    ctx.coverage['exhaustive_parts'] = ['all documents of length 1 (x full/partial) and 2', 'all 3-byte documents over a 42-byte alphabet',
                                        '"<b>", "\\<b>" for every byte b', 'to_json of every 1-byte string',
                                        'all number-like documents of length <= 4 over -+019.eE and of length 5 over -01.e+']
    vlib.differential(ctx, cases, exe, mexe, oracle, nontrivial, classify)
