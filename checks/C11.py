"""C11 -- JSON parsing accepts exactly well-formed documents; serialization round-trips."""
import os, re, json, struct, sys, math, itertools
from fractions import Fraction
import vlib
from vlib import hexs, unhex

META = dict(
    property_id='C11',
    design_ref='DESIGN.md section 4, C11',
    technique='Coq proof (token/stack-machine model, induction over grammar derivations and values) + source-generated leaf functions + extracted-model correspondence + Python json as independent parser',
    level_text=('Theorems in coq/C11/Props.v (34, all closed under the global context) about the executable model of tockenizer::next/'
                'parse_string/read_4_digits/parse_number, parse_stream, generic_append/write_value and the extraction traits, for all '
                'byte strings / values (unbounded): parsing terminates with Ok/Fail (fuel S|input| never exhausted); an accepted tree has only '
                'valid UTF-8 strings and keys, strictly sorted hence pairwise different keys, no undefined member and nesting <= 512, and '
                'the bound is tight (512 accepted, 513 rejected); a failed load returns the old target; every text of an inductive '
                'RFC 8259 grammar (whitespace anywhere allowed, all escapes, paired surrogates, full number grammar, unique keys, nesting '
                'budget <= 512) is accepted with exactly the denoted value, also in prefix mode; the writer output of a value without '
                'undefined members, with valid UTF-8 strings and printable numbers lies in that grammar for the compact and every readable '
                'layout, so save then load returns the value (numbers through the 16-digit printer) and every later round is exact; '
                'integer extraction returns the exact value or fails. Refuted and recorded as known findings: a string holding ill-formed '
                'UTF-8 and the two largest finite doubles are written to text the reader rejects. Leaf functions (UTF-8/UTF-16 helpers, '
                'escape switch, depth constant) are regenerated from the current source and proved equal to the model leafs.'),
    level_note=('Trusted: Coq kernel + vm_compute; cxx2v translator / clang AST (plus the escape-switch extractor in checks/C11.py); '
                'extraction; the hand model of the tokenizer loop, of libstdc++ num_get float accumulation and of the explicit-stack '
                'loop (tied by correspondence on every generated case, exhaustive for documents of <= 2 bytes); '
                'strtod, the 16-digit printer and double->float rounding are parameters of the model (universally quantified in the theorems, '
                'instantiated by the platform functions in the model driver and cross-checked against Python float()/repr in the oracle). '
                'The grammar theorem takes "the decoded content of each string literal is valid UTF-8" as a premise of the grammar. '
                'Stream locale handling (imbue) is exercised by the harness only; stream flags other than the locale are not covered.'),
)

GEN = {
    'Gen_json': dict(src='src/json.cpp',
                     consts=[('json_max_depth', 'g_json_max_depth')],
                     functions=[('is_trail', 'g_is_trail', 'utf8::is_trail'), ('trail_length', 'g_trail_length', 'utf8::trail_length'),
                                ('width', 'g_width', 'utf8::width'), ('valid', 'g_valid', 'utf::valid'),
                                ('is_first_surrogate', 'g_is_first_surrogate'), ('is_second_surrogate', 'g_is_second_surrogate'),
                                ('combine_surrogate', 'g_combine_surrogate')]),
}

FLT_MAX = float.fromhex('0x1.fffffep127')
DEPTH_BOUND = 512


# ----------------------------------------------------------------------------------------------
# tie T for the escape switch of generic_append: cxx2v's statement translator extended by the two
# things the switch needs (a `const char *` local holding a string constant, a local char buffer
# patched element-wise).  Result: g_json_addon (byte) : list Z, [] standing for the null pointer.
# ----------------------------------------------------------------------------------------------
def gen_escape_leaf():
    import cxx2v

    def strip(n):
        while n['kind'] in ('ImplicitCastExpr', 'ParenExpr', 'ExprWithCleanups', 'MaterializeTemporaryExpr'):
            n = n['inner'][0]
        return n

    class EscTr(cxx2v.Tr):
        def __init__(self):
            cxx2v.Tr.__init__(self, '', {}, {})
            self.consts = {}
            self.ptr = {}      # decl id of `const char *` locals -> current coq name
            self.buf = {}      # decl id of local char arrays -> current coq name
            self.result_id = None

        def stmts(self, ss, brk=None, void=False):
            if not ss and brk is None:
                return self.ptr[self.result_id]
            if ss:
                s, rest = ss[0], ss[1:]
                k = s['kind']
                if k == 'BinaryOperator' and s.get('opcode') == '=':
                    lhs, rhs = s['inner']
                    l = strip(lhs)
                    if l['kind'] == 'DeclRefExpr' and l['referencedDecl']['id'] in self.ptr:
                        r = strip(rhs)
                        if r['kind'] == 'StringLiteral':
                            val = '[%s]' % '; '.join(str(ord(ch)) for ch in json.loads(r['value']))
                        elif r['kind'] == 'DeclRefExpr' and r['referencedDecl']['id'] in self.buf:
                            val = '(g_cstr %s)' % self.buf[r['referencedDecl']['id']]
                        else:
                            raise cxx2v.Unsupported('addon assigned from ' + r['kind'])
                        nm = self.fresh('addon')
                        saved = dict(self.ptr)
                        self.ptr[l['referencedDecl']['id']] = nm
                        body = self.stmts(rest, brk, void)
                        self.ptr = saved
                        return '(let %s := %s in %s)' % (nm, val, body)
                    if l['kind'] == 'ArraySubscriptExpr':
                        base, idx = l['inner']
                        b = strip(base)
                        if b['kind'] == 'DeclRefExpr' and b['referencedDecl']['id'] in self.buf:
                            i = cxx2v.const_int(idx)
                            nm = self.fresh('buf')
                            bid = b['referencedDecl']['id']
                            val = '(g_upd %s %d%%nat (wrapu 8 %s))' % (self.buf[bid], i, self.expr(rhs))
                            saved = dict(self.buf)
                            self.buf[bid] = nm
                            body = self.stmts(rest, brk, void)
                            self.buf = saved
                            return '(let %s := %s in %s)' % (nm, val, body)
            return cxx2v.Tr.stmts(self, ss, brk, void)

    src = os.path.join(vlib.REPO, 'src/json.cpp')
    objs = cxx2v.run_clang(src, 'generic_append', vlib.repo_incs())
    loops = []
    for o in objs:
        cxx2v.find_loops(o, loops)
    if not loops:
        raise cxx2v.Unsupported('generic_append: no loop')
    tr = EscTr()
    body = tr.flatten(loops[0]['inner'][-1])
    # char buf[8] = "\\u00" declared before the loop
    bufd = cxx2v.find_decl(objs, 'VarDecl', 'buf', lambda n: 'inner' in n)
    if not bufd:
        raise cxx2v.Unsupported('generic_append: buf not found')
    m = re.search(r'\[(\d+)\]', bufd[0]['type']['qualType'])
    vals = cxx2v.const_array(bufd[0])
    vals = vals + [0] * (int(m.group(1)) - len(vals))
    tr.buf[bufd[0]['id']] = 'buf_0'
    pre = '(let buf_0 := [%s] in ' % '; '.join(str(v) for v in vals)
    # addon = 0 ; unsigned char c = *i ; switch
    if len(body) < 3 or body[0]['kind'] != 'DeclStmt' or body[1]['kind'] != 'DeclStmt' or body[2]['kind'] != 'SwitchStmt':
        raise cxx2v.Unsupported('generic_append: loop body is not `addon=0; c=*i; switch...`')
    ad = body[0]['inner'][0]
    if strip(ad['inner'][0])['kind'] != 'IntegerLiteral' or ad['type']['qualType'] != 'const char *':
        raise cxx2v.Unsupported('generic_append: addon is not a null-initialised const char *')
    tr.ptr[ad['id']] = 'addon_0'
    tr.result_id = ad['id']
    cd = body[1]['inner'][0]
    kk, w = cxx2v.tyinfo(cd['type'])
    if (kk, w) != ('u', 8):
        raise cxx2v.Unsupported('generic_append: c is not unsigned char')
    tr.ids[cd['id']] = 'c_0'
    code = tr.stmts([body[2]])
    # the statement after the switch must be `if(addon) {... a.append(addon) ...} else`
    txt = '\n'.join([
        '(* GENERATED by checks/C11.py (cxx2v statement translator) from %s generic_append -- do not edit *)' % src,
        'From Coq Require Import ZArith List Bool.', 'From CppcmsV Require Import Base.CSem.',
        'Local Open Scope Z_scope.', 'Import ListNotations.', '',
        'Fixpoint g_upd (l : list Z) (i : nat) (v : Z) : list Z :=',
        '  match l, i with [], _ => [] | _ :: r, O => v :: r | x :: r, S j => x :: g_upd r j v end.',
        'Fixpoint g_cstr (l : list Z) : list Z :=',
        '  match l with [] => [] | x :: r => if Z.eqb x 0 then [] else x :: g_cstr r end.', '',
        '(* the string `addon` points to after the switch ([] = null pointer: the byte is copied) *)',
        'Definition g_json_addon (byte : Z) : list Z :=',
        '  let c_0 := wrapu 8 byte in let addon_0 := [] in %s%s).' % (pre, code), ''])
    vlib.write_if_changed(os.path.join(vlib.COQ, 'gen', 'Gen_json_esc.v'), txt)


def gen_all():
    import cxx2v
    errs = vlib.gen_coq(GEN)
    try:
        with vlib.Lock('gen-Gen_json_esc'):
            gen_escape_leaf()
    except cxx2v.Unsupported as e:
        errs.append(('Gen_json_esc', str(e)))
        vlib.write_if_changed(os.path.join(vlib.COQ, 'gen', 'Gen_json_esc.v'),
                              '(* translator failed *)\nDefinition broken : False := I.\n')
    return errs


# ----------------------------------------------------------------------------------------------
# tree notation (shared with harness and model driver)
# ----------------------------------------------------------------------------------------------
def parse_tree(s):
    """notation -> python: None=undefined marker 'U', ('N',), True/False, ('D', bits int), ('S', bytes), list, ('O', [(k,v)])"""
    pos = [0]
    n = len(s)

    def hexrun():
        j = pos[0]
        while j < n and s[j] in '0123456789abcdef-':
            j += 1
        r = unhex(s[pos[0]:j])
        pos[0] = j
        return r

    def val():
        stack = []
        # iterative to survive deep nesting
        cur = None
        while True:
            c = s[pos[0]]
            pos[0] += 1
            if c == 'U':
                v = ('U',)
            elif c == 'N':
                v = ('N',)
            elif c == 'T':
                v = True
            elif c == 'F':
                v = False
            elif c == 'D':
                v = ('D', int(s[pos[0]:pos[0] + 16], 16))
                pos[0] += 16
            elif c == 'S':
                v = ('S', hexrun())
            elif c == '[':
                if s[pos[0]] == ']':
                    pos[0] += 1
                    v = []
                else:
                    stack.append(('A', []))
                    continue
            elif c == '{':
                if s[pos[0]] == '}':
                    pos[0] += 1
                    v = ('O', [])
                else:
                    pos[0] += 1   # S
                    k = hexrun()
                    pos[0] += 1   # :
                    stack.append(('O', [], k))
                    continue
            else:
                raise ValueError('bad tree at %d' % pos[0])
            # value finished: plug
            while True:
                if not stack:
                    return v
                top = stack[-1]
                if top[0] == 'A':
                    top[1].append(v)
                    d = s[pos[0]]
                    pos[0] += 1
                    if d == ',':
                        break
                    stack.pop()
                    v = top[1]
                    continue
                else:
                    top[1].append((top[2], v))
                    d = s[pos[0]]
                    pos[0] += 1
                    if d == ',':
                        pos[0] += 1
                        k = hexrun()
                        pos[0] += 1
                        stack[-1] = ('O', top[1], k)
                        break
                    stack.pop()
                    v = ('O', top[1])
                    continue
    v = val()
    if pos[0] != n:
        raise ValueError('trailing text in tree')
    return v


def tree_iter(v):
    """all nodes, iteratively"""
    st = [v]
    while st:
        x = st.pop()
        yield x
        if isinstance(x, list):
            st.extend(x)
        elif isinstance(x, tuple) and x[0] == 'O':
            for k, y in x[1]:
                yield ('K', k)
                st.append(y)


def tree_depth(v):
    best = 0
    st = [(v, 0)]
    while st:
        x, d = st.pop()
        if isinstance(x, list):
            best = max(best, d + 1)
            st.extend((y, d + 1) for y in x)
        elif isinstance(x, tuple) and x[0] == 'O':
            best = max(best, d + 1)
            st.extend((y, d + 1) for k, y in x[1])
    return best


def fmt_tree(v):
    out = []
    st = [v]
    while st:
        x = st.pop()
        if isinstance(x, str):
            out.append(x)
        elif x is True:
            out.append('T')
        elif x is False:
            out.append('F')
        elif isinstance(x, list):
            st.append(']')
            for i, y in reversed(list(enumerate(x))):
                st.append(y)
                if i:
                    st.append(',')
            st.append('[')
        elif x[0] == 'O':
            st.append('}')
            for i, (k, y) in reversed(list(enumerate(x[1]))):
                st.append(y)
                st.append('S' + hexs(k) + ':')
                if i:
                    st.append(',')
            st.append('{')
        elif x[0] == 'D':
            out.append('D%016x' % x[1])
        elif x[0] == 'S':
            out.append('S' + hexs(x[1]))
        else:
            out.append(x[0])
    return ''.join(out)


def bits_of(x):
    return struct.unpack('>Q', struct.pack('>d', x))[0]


def dbl(bits):
    return struct.unpack('>d', struct.pack('>Q', bits))[0]


def is_utf8(b):
    try:
        b.decode('utf-8')
        return True
    except UnicodeDecodeError:
        return False


# ----------------------------------------------------------------------------------------------
# independent strict RFC 8259 reader (Python json + the restrictions of the property)
# ----------------------------------------------------------------------------------------------
class _Reject(Exception):
    pass


def _pairs(ps):
    ks = [k for k, _ in ps]
    if len(set(ks)) != len(ks):
        raise _Reject('dup')
    return ('O', ps)


def _const(x):
    raise _Reject('constant')


_dec = json.JSONDecoder(object_pairs_hook=_pairs, parse_float=lambda x: ('L', x), parse_int=lambda x: ('L', x),
                        parse_constant=_const, strict=True)


def py_rfc(doc):
    """bytes -> tree in the notation of parse_tree (numbers as ('D', bits)) when doc is an RFC 8259 text with unique
    keys, finite numbers, properly paired surrogates; else None"""
    try:
        s = doc.decode('utf-8')
    except UnicodeDecodeError:
        return None
    if s[:1] == '\ufeff':
        return None
    try:
        v = _dec.decode(s)
    except (ValueError, _Reject, RecursionError):
        return None

    def conv(x):
        if x is None:
            return ('N',)
        if x is True or x is False:
            return x
        if isinstance(x, str):
            return ('S', x.encode('utf-8'))      # raises on lone surrogates
        if isinstance(x, list):
            return [conv(y) for y in x]
        if x[0] == 'L':
            f = float(x[1])
            if math.isinf(f) or math.isnan(f):
                raise _Reject('non-finite')
            return ('D', bits_of(f))
        if x[0] == 'O':
            m = [(k.encode('utf-8'), conv(y)) for k, y in x[1]]
            m.sort(key=lambda kv: kv[0])
            return ('O', m)
        raise _Reject('?')
    try:
        return conv(v)
    except (UnicodeEncodeError, _Reject, RecursionError):
        return None


NUM_RE = re.compile(rb'-?(0|[1-9][0-9]*)(\.[0-9]+)?(e[+-]?[0-9]+)?\Z')


def p16(x):
    return '%.16g' % x


def round_to_float_bits(x):
    """correctly rounded (nearest even) binary32 bit pattern of the finite double x, by exact arithmetic"""
    if x == 0:
        return 0x80000000 if math.copysign(1, x) < 0 else 0
    sign = 0x80000000 if x < 0 else 0
    q = Fraction(abs(x))
    e = math.frexp(abs(x))[1] - 1          # 2^e <= |x| < 2^(e+1)
    if e < -126:
        e = -126
    ulp = Fraction(2) ** (e - 23)
    n = q / ulp
    fl = n.numerator // n.denominator
    rem = n - fl
    if rem > Fraction(1, 2) or (rem == Fraction(1, 2) and fl % 2 == 1):
        fl += 1
    # fl in [0, 2^24]; value = fl * 2^(e-23)
    if e == -126 and fl < 2 ** 23:
        return sign | fl                   # subnormal (or zero)
    if fl == 2 ** 24:
        fl = 2 ** 23
        e += 1
    if e > 127:
        return sign | 0x7f800000
    return sign | ((e + 127) << 23) | (fl - 2 ** 23)


INT_TYPES = [('c', -2 ** 7, 2 ** 7 - 1), ('uc', 0, 2 ** 8 - 1), ('sc', -2 ** 7, 2 ** 7 - 1), ('wc', -2 ** 31, 2 ** 31 - 1),
             ('s', -2 ** 15, 2 ** 15 - 1), ('us', 0, 2 ** 16 - 1), ('i', -2 ** 31, 2 ** 31 - 1), ('u', 0, 2 ** 32 - 1),
             ('l', -2 ** 63, 2 ** 63 - 1), ('ul', 0, 2 ** 64 - 1), ('ll', -2 ** 63, 2 ** 63 - 1), ('ull', 0, 2 ** 64 - 1)]


# ----------------------------------------------------------------------------------------------
# property oracle (implementation output only)
# ----------------------------------------------------------------------------------------------
def classify_tree_input(t):
    ill = False
    ovf = False
    undef = False
    for x in tree_iter(t):
        if isinstance(x, tuple):
            if x[0] in ('S', 'K') and not is_utf8(x[1]):
                ill = True
            elif x[0] == 'D':
                f = dbl(x[1])
                if math.isinf(float(p16(f))):
                    ovf = True
            elif x[0] == 'U':
                undef = True
    return ill, ovf, undef


def same_up_to_printed_precision(a, b):
    """trees equal except that numbers may differ while printing to the same 16 digits"""
    st = [(a, b)]
    while st:
        x, y = st.pop()
        if isinstance(x, list):
            if not isinstance(y, list) or len(x) != len(y):
                return False
            st.extend(zip(x, y))
        elif isinstance(x, tuple) and x[0] == 'O':
            if not (isinstance(y, tuple) and y[0] == 'O') or len(x[1]) != len(y[1]):
                return False
            for (k1, v1), (k2, v2) in zip(x[1], y[1]):
                if k1 != k2:
                    return False
                st.append((v1, v2))
        elif isinstance(x, tuple) and x[0] == 'D':
            if not (isinstance(y, tuple) and y[0] == 'D'):
                return False
            if x[1] != y[1] and p16(dbl(x[1])) != p16(dbl(y[1])):
                return False
        else:
            if x != y or type(x) != type(y):
                return False
    return True


def sort_tree(t):
    """objects by key bytes (what the std::map does), iteratively bottom-up is not needed for the generator's sizes"""
    if isinstance(t, list):
        return [sort_tree(x) for x in t]
    if isinstance(t, tuple) and t[0] == 'O':
        return ('O', sorted(((k, sort_tree(v)) for k, v in t[1]), key=lambda kv: kv[0]))
    return t


def oracle(case, out):
    c = case.split()
    op = c[0]
    if out.startswith('<crash') or out == '<missing>':
        return ('crash-' + op, 'harness died on this input: ' + out)
    o = out.split()
    if not o or o[0] != op or len(o) < 2:
        return ('bad-output-' + op, 'unexpected harness answer ' + out[:200])
    if 'PATHS-DIFFER' in out:
        if 'LOCALE-NOT-RESTORED' in out:
            return (op + '-stream-locale-not-restored', 'the stream locale was not restored after the call')
        return (op + '-entry-points-disagree', 'the entry points (char range / istream / operator>> / locales) disagree: ' + out[:300])
    if op == 'p':
        full = c[1] == '1'
        doc = unhex(c[2])
        ref = py_rfc(doc)
        must = ref is not None and tree_depth(ref) <= DEPTH_BOUND
        if o[1] == 'fail':
            if o[3] != '1':
                return ('failed-parse-modified-target', 'load() returned false but the target value changed')
            if must:
                return ('rfc-document-rejected', 'an RFC 8259 document with unique keys, finite numbers, paired surrogates and nesting <= 512 was rejected')
            return None
        if o[1] != 'ok':
            return ('bad-output-p', out[:200])
        consumed = int(o[2])
        try:
            t = parse_tree(o[3])
        except Exception as e:
            return ('bad-output-p', 'unreadable tree: %s' % e)
        if consumed > len(doc) or (full and consumed != len(doc)):
            return ('parse-consumed-wrong', 'accepted with full=%d but consumed %d of %d bytes' % (full, consumed, len(doc)))
        for x in tree_iter(t):
            if isinstance(x, tuple) and x[0] in ('S', 'K') and not is_utf8(x[1]):
                return ('parsed-string-not-utf8', 'accepted tree holds a string or key that is not valid UTF-8: ' + x[1].hex())
            if isinstance(x, tuple) and x[0] == 'O':
                ks = [k for k, _ in x[1]]
                if any(not (a < b) for a, b in zip(ks, ks[1:])):
                    return ('parsed-keys-not-unique', 'accepted object has duplicate or unordered keys')
            if isinstance(x, tuple) and x[0] == 'D':
                f = dbl(x[1])
                if math.isinf(f) or math.isnan(f):
                    return ('parsed-number-not-finite', 'accepted tree holds a non-finite number')
            if isinstance(x, tuple) and x[0] == 'U':
                return ('parsed-undefined', 'accepted tree holds an undefined value')
        if tree_depth(t) > DEPTH_BOUND:
            return ('parsed-depth-over-bound', 'accepted tree nests deeper than 512')
        if must and (full or consumed == len(doc.rstrip(b' \t\r\n'))):
            if t != ref:
                return ('rfc-document-parsed-differently', 'independent reader gives %s' % fmt_tree(ref)[:300])
        if ref is not None and not must and full:
            return ('depth-over-bound-accepted', 'RFC document nested deeper than 512 accepted')
        return None
    if op in ('w', 'wd'):
        try:
            t = parse_tree(c[1])
        except Exception as e:
            return ('bad-case', str(e))
        ill, ovf, undef = classify_tree_input(t)
        if o[1] == 'throw':
            return None if undef else ('write-throws', 'save() threw on a tree without undefined members')
        if undef:
            return ('write-undefined-no-throw', 'save() of a tree holding undefined did not throw')
        f = dict(x.split('=', 1) for x in o[1:])
        if f.get('loc') != '1':
            return ('write-depends-on-locale', 'save() output differs under a comma-decimal/grouping locale, or the stream locale was not restored')
        st = sort_tree(t)
        deep = tree_depth(t) > DEPTH_BOUND
        cls = ('json-write-illformed-utf8-string' if ill else 'json-write-number-rounds-to-infinity' if ovf else None)
        texts = {'C': unhex(f['C'])}
        if op == 'w':
            texts['R'] = unhex(f['R'])
        if not ill:
            for lay, txt in texts.items():
                pr = py_rfc(txt) if not ovf else None
                if ovf:
                    continue
                if pr is None:
                    return ('written-text-not-rfc', 'save(%s) produced text an independent RFC 8259 reader rejects' % lay)
                # expected: same tree with every number replaced by the double nearest to its 16-digit decimal
                exp = map_nums(st, lambda b: bits_of(float(p16(dbl(b)))))
                if pr != exp:
                    return ('written-text-denotes-other-value', 'independent reader gets a different tree from save(%s)' % lay)
        for fld in (('rc', 'rr') if op == 'w' else ('rc',)):
            r = f.get(fld)
            if r == 'F':
                if cls:
                    return (cls, {'json-write-illformed-utf8-string': 'a string or key holding ill-formed UTF-8 is written verbatim and the reader rejects the text',
                                  'json-write-number-rounds-to-infinity': 'a finite number whose 16-digit decimal exceeds DBL_MAX is written to text the reader rejects'}[cls])
                if deep:
                    continue     # nesting above the parser bound: outside the round-trip claim (see docs/C11.md)
                return ('roundtrip-rejected', 'load(save(v)) failed (%s)' % fld)
            if deep:
                return ('depth-over-bound-accepted', 'tree nested deeper than 512 was reloaded')
            if r != '=':
                try:
                    rt = parse_tree(r)
                except Exception as e:
                    return ('bad-output-w', str(e))
                if not same_up_to_printed_precision(st, rt):
                    return ('roundtrip-differs', 'load(save(v)) differs from v beyond the printed precision (%s)' % fld)
        if f.get('rc') != 'F':
            if f.get('r2') != '=':
                return ('roundtrip-second-round-not-exact', 'second save/load round changed the value: r2=%s' % f.get('r2')[:200])
            if f.get('rc') == '=' and f.get('eq') != '1':
                return ('roundtrip-operator-eq', 'bit-identical reload but operator== says different')
        return None
    if op == 'g':
        bits = int(c[1], 16)
        x = dbl(bits)
        f = dict(y.split('=', 1) for y in o[1:])
        if math.isinf(x) or math.isnan(x):
            return None
        for nm, lo, hi in INT_TYPES:
            if x == math.floor(x) and lo <= int(x) <= hi:
                exp = str(int(x))
            else:
                exp = 'X'
            if f.get(nm) != exp:
                return ('get-int-not-exact', 'get_value<%s>(%r) gave %s, exact answer %s' % (nm, x, f.get(nm), exp))
        expf = '%08x' % round_to_float_bits(x) if abs(x) <= FLT_MAX else 'X'
        if f.get('f') != expf:
            return ('get-float-wrong', 'get_value<float>(%r) gave %s, expected %s' % (x, f.get('f'), expf))
        if f.get('d') != '%016x' % bits:
            return ('get-double-wrong', 'get_value<double> changed the number')
        return None
    if op == 'q':
        s = unhex(c[1])
        r = unhex(o[1])
        if len(r) < 2 or r[:1] != b'"' or r[-1:] != b'"':
            return ('to_json-not-quoted', 'to_json output is not a quoted string')
        body = r[1:-1]
        if any(ch < 0x20 for ch in body) or re.search(rb'(?<!\\)(\\\\)*"', body):
            return ('to_json-unescaped', 'to_json left a control character or a bare quote')
        try:
            back = json.loads(r.decode('latin-1')).encode('latin-1')
        except Exception as e:
            return ('to_json-not-json', 'to_json output is not a JSON string: %s' % e)
        if back != s:
            return ('to_json-not-invertible', 'un-escaping to_json(s) does not give s')
        return None
    return ('bad-case', 'unknown op')


def map_nums(t, fn):
    if isinstance(t, list):
        return [map_nums(x, fn) for x in t]
    if isinstance(t, tuple) and t[0] == 'O':
        return ('O', [(k, map_nums(v, fn)) for k, v in t[1]])
    if isinstance(t, tuple) and t[0] == 'D':
        return ('D', fn(t[1]))
    return t


# ----------------------------------------------------------------------------------------------
# generators
# ----------------------------------------------------------------------------------------------
WS = [b' ', b'\t', b'\n', b'\r', b'', b'', b'', b'  ', b'\r\n']
ESC_SIMPLE = [b'\\"', b'\\\\', b'\\/', b'\\b', b'\\f', b'\\n', b'\\r', b'\\t']
EDGE_DOUBLES = [0.0, -0.0, 5e-324, -5e-324, 2.2250738585072014e-308, 2.225073858507201e-308, 1.7976931348623157e308,
                -1.7976931348623157e308, 1.7976931348623155e308, 1.797693134862315e308, 1.0, -1.0, 0.1, 1 / 3., 2 / 3., 1e15, 1e16, 1e17,
                123456789012345680.0, 9007199254740992.0, 9007199254740993.0, 9007199254740994.0, 1e-4, 1e-5, 9.999999999999999e-5,
                0.0001, 1e21, 1e22, 1e23, 1e-7, 4.35, 0.3, 2.675, 1e100, 1e-100, 1.5, 255.0, 256.0, 65535.0, 4294967296.0,
                0.1 + 0.2, 100.0, 1e5, 123456.789, 5e-5, 999999999999999.9, 9999999999999998.0, 9999999999999999.0]


def rnd_finite_bits(rng):
    k = rng.random()
    if k < 0.15:
        return bits_of(rng.choice(EDGE_DOUBLES))
    if k < 0.35:
        return bits_of(float(rng.randrange(-10 ** rng.randrange(1, 18), 10 ** rng.randrange(1, 18))))
    if k < 0.5:
        return bits_of(round(rng.uniform(-1000, 1000), rng.randrange(0, 6)))
    while True:
        b = rng.getrandbits(64)
        if (b >> 52) & 0x7ff != 0x7ff:
            # keep away from the two doubles of the known number finding unless asked for
            if (b & 0x7fffffffffffffff) >= 0x7feffffffffffffe and rng.random() < 0.9:
                continue
            return b


def rnd_utf8(rng, n):
    out = []
    for _ in range(n):
        k = rng.random()
        if k < 0.5:
            cp = rng.randrange(0x20, 0x7f)
        elif k < 0.6:
            cp = rng.randrange(0, 0x20)
        elif k < 0.7:
            cp = rng.choice([0x22, 0x5c, 0x2f, 0x7f, 0])
        elif k < 0.8:
            cp = rng.randrange(0x80, 0x800)
        elif k < 0.9:
            cp = rng.choice([0x800, 0xd7ff, 0xe000, 0xfffd, 0xffff, 0xfffe]) if rng.random() < 0.5 else rng.randrange(0xe000, 0x10000)
        else:
            cp = rng.choice([0x10000, 0x10ffff, 0x1f600]) if rng.random() < 0.5 else rng.randrange(0x10000, 0x110000)
        out.append(chr(cp))
    return ''.join(out).encode('utf-8')


def enc_string(rng, b, style):
    """a JSON string literal denoting the (valid UTF-8) bytes b, random choice among the escape forms"""
    s = b.decode('utf-8')
    out = [b'"']
    for ch in s:
        cp = ord(ch)
        k = rng.random()
        if cp == 0x22 or cp == 0x5c:
            out.append(b'\\' + bytes([cp]) if k < 0.7 else b'\\u%04x' % cp)
        elif cp == 0x2f:
            out.append(b'/' if k < 0.5 else b'\\/' if k < 0.8 else b'\\u002f')
        elif cp < 0x20:
            short = {8: b'\\b', 12: b'\\f', 10: b'\\n', 13: b'\\r', 9: b'\\t'}.get(cp)
            out.append(short if short and k < 0.6 else (b'\\u%04x' if k < 0.8 else b'\\u%04X') % cp)
        elif style > 0 and k < 0.25 * style:
            if cp >= 0x10000:
                v = cp - 0x10000
                hi, lo = 0xd800 | (v >> 10), 0xdc00 | (v & 0x3ff)
                f = rng.choice([b'\\u%04x\\u%04x', b'\\u%04X\\u%04X', b'\\u%04x\\u%04X'])
                out.append(f % (hi, lo))
            else:
                out.append((b'\\u%04x' if rng.random() < 0.5 else b'\\u%04X') % cp)
        else:
            out.append(ch.encode('utf-8'))
    out.append(b'"')
    return b''.join(out)


def rnd_number_lexeme(rng):
    k = rng.random()
    if k < 0.12:
        return rng.choice([b'0', b'-0', b'0.0', b'-0.0', b'0e0', b'0E+0', b'1', b'-1', b'10', b'1.0', b'1e0', b'1E0', b'1e+0', b'1e-0',
                           b'1.7976931348623157e308', b'1.7976931348623158e308', b'1.797693134862315807e308', b'-1.7976931348623157E+308',
                           b'4.9e-324', b'5e-324', b'2.4703282292062327e-324', b'2.4703282292062328e-324', b'2.4703282292062329e-324',
                           b'2.2250738585072011e-308', b'2.2250738585072014e-308', b'9007199254740993', b'9007199254740992.5',
                           b'0.1', b'0.30000000000000004', b'123456789012345678901234567890', b'0.000000000000000000000000000001',
                           b'1e22', b'1e23', b'1E400', b'1e-400', b'-1e400', b'1e308', b'1e309', b'17976931348623157' + b'0' * 292,
                           b'17976931348623158' + b'0' * 292, b'17976931348623159' + b'0' * 292, b'0.' + b'0' * 323 + b'49',
                           b'0.' + b'0' * 323 + b'24', b'0.' + b'0' * 323 + b'25', b'1' + b'0' * 309, b'1e00000000000000000001',
                           b'1.0000000000000002', b'1.00000000000000011102230246251565404236316680908203125',
                           b'1.00000000000000011102230246251565404236316680908203126', b'1.00000000000000011102230246251565404236316680908203124'])
    sign = b'-' if rng.random() < 0.3 else b''
    nd = rng.choice([1, 1, 2, 3, 5, 10, 15, 16, 17, 18, 20, 25, 40])
    ip = b'0' if rng.random() < 0.2 else bytes([rng.choice(b'123456789')]) + bytes(rng.choice(b'0123456789') for _ in range(nd - 1))
    fp = b''
    if rng.random() < 0.5:
        fp = b'.' + bytes(rng.choice(b'0123456789') for _ in range(rng.choice([1, 1, 2, 5, 15, 16, 17, 20, 30])))
    ep = b''
    if rng.random() < 0.5:
        e = rng.choice([0, 1, -1, 5, -5, 15, 16, 17, 22, 23, 100, -100, 300, -300, 307, 308, 309, -307, -308, -323, -324, -325, 400, -400])
        if rng.random() < 0.3:
            e = rng.randrange(-340, 330)
        ep = rng.choice([b'e', b'E']) + (b'+' if e >= 0 and rng.random() < 0.5 else b'') + (b'%d' % e if rng.random() < 0.9 else b'%03d' % e)
    return sign + ip + fp + ep


def rnd_value(rng, depth, style, keys_escape=True):
    """(text bytes) of a random RFC 8259 value"""
    k = rng.random()
    if depth <= 0 or k < 0.45:
        j = rng.random()
        if j < 0.12:
            return b'null'
        if j < 0.2:
            return b'true'
        if j < 0.28:
            return b'false'
        if j < 0.62:
            return rnd_number_lexeme(rng)
        return enc_string(rng, rnd_utf8(rng, rng.choice([0, 1, 2, 3, 5, 8, 20])), style)
    ws = lambda: rng.choice(WS) if style > 0 else b''
    n = rng.choice([0, 1, 1, 2, 3, 4, 6])
    if k < 0.72:
        if n == 0:
            return b'[' + ws() + b']'
        return b'[' + b','.join(ws() + rnd_value(rng, depth - 1, style) + ws() for _ in range(n)) + b']'
    keys = set()
    while len(keys) < n:
        keys.add(rnd_utf8(rng, rng.choice([0, 1, 1, 2, 3, 5])))
    if n == 0:
        return b'{' + ws() + b'}'
    parts = []
    for kk in keys:
        parts.append(ws() + enc_string(rng, kk, style if keys_escape else 0) + ws() + b':' + ws() + rnd_value(rng, depth - 1, style) + ws())
    return b'{' + b','.join(parts) + b'}'


def rnd_tree(rng, depth, special=0.0):
    """random API tree in notation; special = probability weight of ill-formed strings"""
    k = rng.random()
    if depth <= 0 or k < 0.5:
        j = rng.random()
        if j < 0.1:
            return ('N',)
        if j < 0.2:
            return rng.random() < 0.5
        if j < 0.6:
            return ('D', rnd_finite_bits(rng))
        return ('S', rnd_string_bytes(rng, special))
    n = rng.choice([0, 1, 1, 2, 3, 5])
    if k < 0.75:
        return [rnd_tree(rng, depth - 1, special) for _ in range(n)]
    keys = set()
    while len(keys) < n:
        keys.add(rnd_string_bytes(rng, special, short=True))
    keys = list(keys)
    rng.shuffle(keys)
    return ('O', [(kk, rnd_tree(rng, depth - 1, special)) for kk in keys])


def rnd_string_bytes(rng, special=0.0, short=False):
    if special and rng.random() < special:
        return rng.choice([b'\xff', b'\x80', b'a\xc3', b'\xc0\x80', b'\xed\xa0\x80', b'\xf4\x90\x80\x80', b'\xe2\x82', b'ok\xfe!',
                           b'\xc3\xa9\xc3', b'\xf8\x88\x80\x80\x80', b'\xe0\x80\x80'])
    n = rng.choice([0, 1, 1, 2, 3, 5] if short else [0, 1, 2, 3, 5, 8, 16, 40])
    return rnd_utf8(rng, n)


SMALL_DOCS = [b'{"a":1,"b":[true,null]}', b'[1,2.5e3,"x\\n\\u00e9"]', b'"\\ud83d\\ude00"', b'{"k":{"k":{}}}', b' [ ] ', b'-12.5E-3',
              b'{"a":"b","c":"d"}', b'[[],{},""]', b'true', b'[false,null,0]', b'// c\n[1]', b'{"\\u0061":1,"b":2}', b'"\xc3\xa9\xe2\x82\xac\xf0\x9f\x98\x80"',
              b'[1,\n2,\r\n3]', b'{"":0}', b'[-0,0.1e+2]', b'"\\"\\\\\\/\\b\\f\\n\\r\\t"', b'{"a":[{"b":null}]}']
ALPHA3 = b'[]{}:,"\\/ \n\t\r0129-+.eEtruefalsn\x00\x1f\x7f\x80\xc3\xa9\xef\xbfxX'
MUT_BYTES = b'[]{}:,"\\/ \n0159-+.eEtnfu\x00\x1f\x7f\x80\xbf\xc3\xe0\xf0\xff'


def P(doc, full=1, tag=''):
    return 'p %d %s %s' % (full, hexs(doc), tag)


def gen_cases(ctx):
    rng = ctx.rng
    q = ctx.quick()
    cases = []
    # ---- exhaustive small documents -----------------------------------------------------------
    for a in range(256):
        cases.append(P(bytes([a]), 1, 'ex1'))
        cases.append(P(bytes([a]), 0, 'ex1'))
    for a in range(256):
        for b in range(256):
            cases.append(P(bytes([a, b]), 1, 'ex2'))
    al = sorted(set(ALPHA3))
    for t in itertools.product(al, repeat=3):
        cases.append(P(bytes(t), 1, 'ex3'))
    if not q:
        al4 = sorted(set(b'[]{}:,"\\/ \n019-.etrufalsn\xc3\xa9'))
        for t in itertools.product(al4, repeat=4):
            cases.append(P(bytes(t), 1, 'ex4'))
    # ---- strings: every byte raw / after a backslash; all \uXXXX; surrogate pairs --------------
    for a in range(256):
        cases.append(P(b'"' + bytes([a]) + b'"', 1, 'strbyte'))
        cases.append(P(b'"\\' + bytes([a]) + b'"', 1, 'strbyte'))
        cases.append(P(b'"\\u00' + bytes([a]) + b'0"', 1, 'strbyte'))
        cases.append(P(b'["a' + bytes([a]) + b'b"]', 1, 'strbyte'))
    edges = set()
    for cpt in [0, 0x20, 0x7f, 0x80, 0x7ff, 0x800, 0xd7ff, 0xd800, 0xdbff, 0xdc00, 0xdfff, 0xe000, 0xfffe, 0xffff]:
        for d in range(-3, 4):
            if 0 <= cpt + d <= 0xffff:
                edges.add(cpt + d)
    allu = range(0x10000) if not q else sorted(edges | set(range(0, 0x120)) | set(rng.randrange(0x10000) for _ in range(3000)))
    for x in allu:
        cases.append(P(b'"\\u%04x"' % x, 1, 'uXXXX'))
    for x in sorted(edges):
        cases.append(P(b'"\\u%04X"' % x, 1, 'uXXXX'))
    his = [0xd7ff, 0xd800, 0xd801, 0xdbfe, 0xdbff, 0xdc00, 0xdfff, 0xe000, 0x0041]
    los = [0xdbff, 0xdc00, 0xdc01, 0xdffe, 0xdfff, 0xe000, 0x0041, 0xd800]
    for hi in his:
        for lo in los:
            cases.append(P(b'"\\u%04x\\u%04x"' % (hi, lo), 1, 'surr'))
            cases.append(P(b'"x\\u%04X\\u%04x y"' % (hi, lo), 1, 'surr'))
        for tail in [b'', b'x', b'\\n', b'\\', b'\\u', b'\\u12', b'\\udc0', b'\\udc0g', b'"', b'\\\\udc00', b' \\udc00', b'\\U0041', b'\\udc00\\udc00']:
            cases.append(P(b'"\\u%04x' % hi + tail + b'"', 1, 'surr'))
    for _ in range(ctx.scale(1500, 30000)):
        hi = rng.randrange(0xd800, 0xdc00)
        lo = rng.randrange(0xdc00, 0xe000)
        cases.append(P(b'"\\u%04x\\u%04x"' % (hi, lo), 1, 'surr'))
    for h in [b'12\n4', b'12', b'', b'123', b'12 4', b'1\x004', b'+123', b'-123', b'0x12', b'12g4', b'G000', b'00e9', b'00E9', b'00eG', b' 0e9']:
        cases.append(P(b'"\\u' + h + b'"', 1, 'u4'))
        cases.append(P(b'"\\u' + h, 1, 'u4'))
    # raw UTF-8 inside strings: boundaries of table 3-7 and all two-byte combinations of high bytes
    b1 = [0x7f, 0x80, 0xbf, 0xc0, 0xc1, 0xc2, 0xdf, 0xe0, 0xe1, 0xec, 0xed, 0xee, 0xef, 0xf0, 0xf1, 0xf3, 0xf4, 0xf5, 0xf7, 0xf8, 0xff]
    b2 = [0x00, 0x7f, 0x80, 0x8f, 0x90, 0x9f, 0xa0, 0xbf, 0xc0, 0xff]
    for a in b1:
        for b in b2:
            cases.append(P(b'"' + bytes([a, b]) + b'"', 1, 'utf8raw'))
            for c3 in [0x7f, 0x80, 0xbf, 0xc0]:
                cases.append(P(b'"' + bytes([a, b, c3]) + b'"', 1, 'utf8raw'))
                for d4 in [0x7f, 0x80, 0xbf, 0xc0]:
                    cases.append(P(b'"' + bytes([a, b, c3, d4]) + b'"', 1, 'utf8raw'))
    if not q:
        for a in range(0x80, 0x100):
            for b in range(0x70, 0x100):
                cases.append(P(b'"' + bytes([a, b]) + b'"', 1, 'utf8raw'))
                cases.append(P(b'"' + bytes([a, b, 0x80]) + b'"', 1, 'utf8raw'))
                cases.append(P(b'"' + bytes([a, b, 0x80, 0x80]) + b'"', 1, 'utf8raw'))
    # ---- numbers -------------------------------------------------------------------------------
    oddnum = [b'007', b'00', b'-00.5e-00', b'1.', b'.5', b'-.5', b'-', b'--1', b'+1', b'1e', b'1e+', b'1e-', b'1E+5', b'1e5e5', b'1.2.3',
              b'0x10', b'1_000', b'Infinity', b'-Infinity', b'NaN', b'nan', b'inf', b'-inf', b'1e5.5', b'1.e5', b'-e5', b'-.e5', b'1-2', b'1+2',
              b'1e1-2', b'01', b'-01', b'0.', b'0e', b'1,5', b'1.5,', b'1 .5', b'1e 5', b'- 1', b'1E', b'1.e', b'1.E+', b'0e+', b'9' * 400,
              b'0.' + b'0' * 400 + b'1', b'-0e999', b'0e-999', b'1e+999', b'1e0000000000000000000000001', b'1e99999999999999999999',
              b'1e-99999999999999999999', b'0.1e1', b'1e+05', b'1e-05', b'1d5', b'1f', b'1L', b'0b1', b'0o7', b'1.5f', b'\xef\xbc\x91']
    for nlex in oddnum:
        for ctxt in (b'%s', b'[%s]', b'{"a":%s}', b' %s ', b'[%s,%s]', b'[%s\n]'):
            cases.append(P(ctxt.replace(b'%s', nlex), 1, 'oddnum'))
        cases.append(P(nlex + b'x', 0, 'oddnum'))
    for _ in range(ctx.scale(4000, 150000)):
        nlex = rnd_number_lexeme(rng)
        ctxt = rng.choice([b'%s', b'[%s]', b'{"a":%s}', b'[1,%s ]', b' %s\n', b'[%s\t,0]'])
        cases.append(P(ctxt.replace(b'%s', nlex), 1, 'num'))
    # ---- nesting 0..600 ------------------------------------------------------------------------
    depths = sorted(set(list(range(0, 12)) + list(range(505, 521)) + [100, 255, 256, 300, 400, 500, 550, 599, 600] +
                        [rng.randrange(12, 600) for _ in range(ctx.scale(10, 120))]))
    for d in depths:
        cases.append(P(b'[' * d + b']' * d, 1, 'nest') if d else P(b'0', 1, 'nest'))
        cases.append(P(b'[' * d + b'1' + b']' * d, 1, 'nest'))
        cases.append(P(b'{"a":' * d + b'null' + b'}' * d, 1, 'nest'))
        cases.append(P(b'[{"k":' * (d // 2) + (b'[' if d % 2 else b'') + b'"s"' + (b']' if d % 2 else b'') + b'}]' * (d // 2), 1, 'nest'))
        cases.append(P(b' [\n' * d + b' ] ' * d, 1, 'nest'))
        cases.append(P(b'[' * d + b']' * d, 0, 'nest'))
        cases.append(P(b'[1,[2,' * (d // 2) + b'[]' + b']]' * (d // 2), 1, 'nest'))
        cases.append(P(b'[' * d, 1, 'nest'))
        cases.append(P(b'[' * d + b']' * max(0, d - 1), 1, 'nest'))
        cases.append(P(b'[' * d + b']' * (d + 1), 1, 'nest'))
    # ---- objects / duplicate keys / ordering ---------------------------------------------------
    objs = [b'{"a":1,"a":2}', b'{"a":1,"b":2,"a":3}', b'{"a":{"a":1},"b":{"a":2}}', b'{"a":1,"\\u0061":2}', b'{"\\u00e9":1,"\xc3\xa9":2}',
            b'{"":1,"":2}', b'{"a":1,"A":2}', b'{"b":1,"a":2,"ab":3,"":4,"\xc3\xa9":5,"\x7f":6,"\\u0000":7}', b'{"a":[],"a":[]}',
            b'{"a":{},"a":1}', b'{"a":1,"a"}', b'{"a":1,"a":}', b'{"a":1,"a":x}', b'{"a":1,}', b'{,}', b'{"a"}', b'{"a":}', b'{:1}', b'{"a":1:2}',
            b'{"a":1,,"b":2}', b'{"a" :1 , "b": 2 }', b'{"a":1 "b":2}', b'{"a":1;"b":2}', b'{\'a\':1}', b'{a:1}', b'{"a":1}}', b'{{"a":1}}',
            b'{"\\ud83d\\ude00":1,"\xf0\x9f\x98\x80":2}', b'{"x":{"y":{"x":{"y":1}}}}', b'[{"a":1},{"a":1}]', b'{"a\\u0000b":1,"a":2,"a\\u0000":3}',
            b'[1,]', b'[,]', b'[,1]', b'[1,,2]', b'[1 2]', b'[1:2]', b'[1}', b'{"a":1]', b'[', b']', b'{', b'}', b'[]]', b'[][]', b'[] []', b'{}{}',
            b'nulll', b'nul', b'truefalse', b'true false', b'True', b'NULL', b'tru e', b't', b'n', b'f', b'[tru]', b'[nulltrue]', b'[true,false,null]']
    for d in objs:
        cases.append(P(d, 1, 'obj'))
        cases.append(P(d, 0, 'obj'))
    # ---- comments, whitespace, line counting, BOM, trailing data -------------------------------
    misc = [b'// c\n[1]', b'[1] // c', b'[1] // c\n', b'[1 // c\n,2]', b'[// c\n]', b'//', b'//\n', b'/', b'/x', b'/*c*/1', b'1 /', b'1 //', b'1 / /',
            b'[1,// c\r2]', b'"// not a comment"', b'{"a"// k\n:// v\n1// e\n}', b'\n\n[\n1,\n2\n x', b'\r\n\r\n[x', b'// a\n// b\n x', b'[1,\n// c\n\nx]',
            b'\xef\xbb\xbf[1]', b'\x0c[1]', b'\x0b[1]', b'[1]\x0c', b'\x00', b'[1]\x00', b'[1] x', b'[1] 2', b'1 2', b'"a" "b"', b'[1],[2]', b'\xa0[1]',
            b' \t\r\n[ \t\r\n1 \t\r\n, \t\r\n2 \t\r\n] \t\r\n', b'"\n"', b'"a\nb" x', b'"abc', b'"abc\\', b'"abc\\"', b'"', b'""', b'"\\', b'""""', b'"a""b"',
            b'[1]\n\n\n\nx', b'\n\n\n"a\n', b'[\n"\\u12\n34"]', b'\n[1,\n\n2 3]', b'\n//\n//\nx']
    for d in misc:
        cases.append(P(d, 1, 'misc'))
        cases.append(P(d, 0, 'misc'))
    # ---- grammar-generated RFC documents --------------------------------------------------------
    for _ in range(ctx.scale(6000, 200000)):
        style = rng.choice([0, 1, 1, 2])
        doc = rng.choice(WS) + rnd_value(rng, rng.choice([0, 1, 2, 3, 4, 6]), style) + rng.choice(WS)
        cases.append(P(doc, 1, 'rfc'))
        if rng.random() < 0.15:
            cases.append(P(doc + rng.choice([b'x', b' 1', b',', b']', b'}', b'//c', b'\n\n"', b'\x00']), rng.randrange(2), 'rfc+tail'))
    # large documents (tens of KiB)
    for _ in range(ctx.scale(6, 60)):
        parts = [rnd_value(rng, 3, 1) for _ in range(rng.choice([200, 600, 1500]))]
        cases.append(P(b'[' + b',\n'.join(parts) + b']', 1, 'big'))
    cases.append(P(b'"' + rnd_utf8(rng, 20000).replace(b'"', b'q').replace(b'\\', b'/').translate(None, bytes(range(32))) + b'"', 1, 'big'))
    cases.append(P(b'[' + b','.join(b'%d' % i for i in range(8000)) + b']', 1, 'big'))
    # ---- single-byte mutations of small documents -----------------------------------------------
    for doc in SMALL_DOCS:
        for i in range(len(doc) + 1):
            if i < len(doc):
                cases.append(P(doc[:i] + doc[i + 1:], 1, 'mut'))
                cases.append(P(doc[:i + 1] + doc[i:], 1, 'mut'))
            for b in (MUT_BYTES if q else range(256)):
                bb = bytes([b])
                if i < len(doc) and bb != doc[i:i + 1]:
                    cases.append(P(doc[:i] + bb + doc[i + 1:], 1, 'mut'))
                if q and rng.random() < 0.7:
                    continue
                cases.append(P(doc[:i] + bb + doc[i:], 1, 'mut'))
    for _ in range(ctx.scale(3000, 100000)):
        doc = bytearray(rnd_value(rng, 3, 1))
        if not doc:
            continue
        for _ in range(rng.choice([1, 1, 2])):
            i = rng.randrange(len(doc))
            k = rng.random()
            if k < 0.4:
                doc[i] = rng.choice(MUT_BYTES)
            elif k < 0.6:
                del doc[i]
                if not doc:
                    break
            elif k < 0.8:
                doc.insert(i, rng.choice(MUT_BYTES))
            else:
                doc[i] = rng.getrandbits(8)
        cases.append(P(bytes(doc), rng.choice([1, 1, 0]), 'mut'))
    # ---- random bytes ----------------------------------------------------------------------------
    for _ in range(ctx.scale(3000, 100000)):
        n = rng.choice([1, 2, 3, 4, 5, 8, 16, 64])
        if rng.random() < 0.5:
            doc = bytes(rng.getrandbits(8) for _ in range(n))
        else:
            doc = bytes(rng.choice(ALPHA3) for _ in range(n))
        cases.append(P(doc, rng.choice([1, 1, 0]), 'rand'))
    # ---- API-built trees ---------------------------------------------------------------------------
    W = lambda t: 'w ' + fmt_tree(t)
    fixed_trees = [[], ('O', []), ('S', b''), ('S', b'\x00'), ('S', b'a\x00b'), ('S', bytes(range(0x20))), ('S', b'"\\/\x7f'), ('N',), True, False,
                   [[], ('O', []), [[]], ('O', [(b'', [])])], ('O', [(b'\x00', ('N',)), (b'"', True), (b'\\', False), (b'\n', []), (b'a\tb', ('S', b'\r'))]),
                   ('O', [(b'\xc3\xa9', ('D', bits_of(1.0))), (b'z', ('D', bits_of(2.0))), (b'\x7f', ('N',)), (b'', ('N',)), (b'a', ('N',)), (b'ab', ('N',)),
                          (b'\xf0\x9f\x98\x80', ('N',)), (b'\xef\xbf\xbf', ('N',))]),
                   ('U',), [('U',)], ('O', [(b'a', ('U',))]), [1 == 1, [('N',), [('U',)]]],
                   ('S', b'\xff'), ('O', [(b'\xff', ('N',))]), [('S', b'ok'), ('S', b'\xc3')], ('S', b'\xed\xa0\x80'), ('S', b'\xc0\x80'), ('S', b'\xf4\x90\x80\x80'),
                   ('D', 0x7fefffffffffffff), ('D', 0xffefffffffffffff), ('D', 0x7feffffffffffffe), ('D', 0x7feffffffffffffd), [('D', 0x7fefffffffffffff), ('S', b'\xff')]]
    for t in fixed_trees:
        cases.append(W(t))
    for x in EDGE_DOUBLES:
        cases.append(W(('D', bits_of(x))))
        cases.append(W([('D', bits_of(x)), ('D', bits_of(-x))]))
        cases.append(W(('O', [(b'n', ('D', bits_of(x)))])))
    for e in range(-324, 309, 1 if not q else 7):
        cases.append(W([('D', bits_of(float('1e%d' % e))), ('D', bits_of(float('9.999999999999999e%d' % e))) if e < 308 else ('N',)]))
    for _ in range(ctx.scale(3000, 100000)):
        cases.append(W(('D', rnd_finite_bits(rng))))
    for _ in range(ctx.scale(2500, 80000)):
        cases.append(W(rnd_tree(rng, rng.choice([1, 2, 3, 4, 5]), special=0.0)))
    for _ in range(ctx.scale(150, 3000)):
        cases.append(W(rnd_tree(rng, rng.choice([1, 2, 3]), special=0.15)))
    # deep trees: readable layout (quadratic text) up to depth 120, compact only (op wd) beyond
    WD = lambda t: 'wd ' + fmt_tree(t)
    for d in sorted(set([1, 2, 3, 50, 100, 120, 400, 510, 511, 512, 513, 514, 600] + [rng.randrange(4, 600) for _ in range(ctx.scale(3, 40))])):
        t = ('D', bits_of(1.5))
        t2 = ('S', b'leaf')
        t3 = []
        for i in range(d):
            t = [t]
            t2 = ('O', [(b'k', t2)])
            t3 = [t3] if i else []
        Wx = W if d <= 120 else WD
        cases.append(Wx(t))
        cases.append(Wx(t2))
        if d >= 1:
            cases.append(Wx(t3))
    cases.append(W([('S', rnd_utf8(rng, 30)) for _ in range(1500)]))
    cases.append(W(('O', [(b'key%05d' % i, ('D', rnd_finite_bits(rng))) for i in range(1500)])))
    # ---- typed extraction ----------------------------------------------------------------------------
    gv = set()
    for k in [0, 7, 8, 15, 16, 31, 32, 52, 53, 54, 62, 63, 64, 65, 127, 128]:
        for sgn in (1, -1):
            B = sgn * 2.0 ** k
            for x in [B, B - 1, B + 1, B - 0.5, B + 0.5, B - 2, B + 2, B * (1 - 2.0 ** -52), B * (1 + 2.0 ** -52), B * (1 - 2.0 ** -53)]:
                gv.add(bits_of(x))
    for x in EDGE_DOUBLES + [FLT_MAX, -FLT_MAX, float.fromhex('0x1.fffffe0000001p127'), float.fromhex('0x1.ffffffp127'), float.fromhex('0x1.fffffdfffffffp127'),
                             2.0 ** 128, -2.0 ** 128, 1e39, -1e39, 2.0 ** -126, 2.0 ** -149, 2.0 ** -150, 2.0 ** -151, float.fromhex('0x1.0000010000000p-150'),
                             float.fromhex('0x1.0000020000000p0'), float.fromhex('0x1.0000010000000p0'), float.fromhex('0x1.0000030000000p0'),
                             float.fromhex('0x1.0000010000001p0'), float.fromhex('0x1.000000fffffffp0'), float.fromhex('0x1.fffffefffffffp-127'),
                             float.fromhex('0x1.fffffcp-127'), float.fromhex('0x1.fffffdp-127'), float.fromhex('0x1.ffffffp-127'), 0.5, -0.5, 1e-320,
                             127.0, 128.0, -128.0, -129.0, 255.0, 256.0, 32767.0, 32768.0, -32768.0, -32769.0, 65535.0, 65536.0, 2147483647.0, 2147483648.0,
                             -2147483648.0, -2147483649.0, 4294967295.0, 4294967296.0, 9223372036854775807.0, 9223372036854774784.0, -9223372036854775808.0,
                             -9223372036854777856.0, 18446744073709551615.0, 18446744073709549568.0, 127.5, 254.99999999999997, -0.9999999999999999]:
        gv.add(bits_of(x))
    for _ in range(ctx.scale(3000, 100000)):
        k = rng.random()
        if k < 0.3:
            gv.add(bits_of(float(rng.randrange(-2 ** rng.randrange(1, 66), 2 ** rng.randrange(1, 66)))))
        elif k < 0.5:
            gv.add(bits_of(rng.randrange(-70000, 70000) + rng.choice([0.0, 0.5, 0.25, 1e-9, -1e-9])))
        else:
            gv.add(rnd_finite_bits(rng))
    for b in sorted(gv):
        if (b >> 52) & 0x7ff != 0x7ff:
            cases.append('g %016x' % b)
    # ---- to_json -----------------------------------------------------------------------------------------
    for a in range(256):
        cases.append('q ' + hexs(bytes([a])))
        cases.append('q ' + hexs(bytes([0x61, a, 0x5c])))
    for _ in range(ctx.scale(1000, 30000)):
        n = rng.choice([0, 2, 3, 8, 40])
        cases.append('q ' + hexs(bytes(rng.choice(b'"\\/\x00\x01\x08\x09\x0a\x0c\x0d\x1f\x20\x7f\x80\xffabc') for _ in range(n))))
    return cases


def nontrivial(case, out):
    c = case.split()
    if c[0] == 'p':
        return c[2] != '-'
    return True


def classify(case, out):
    c = case.split()
    o = out.split()
    if c[0] == 'p':
        tag = c[3] if len(c) > 3 else 'replay'
        res = o[1] if len(o) > 1 else '?'
        if res == 'ok':
            doc = unhex(c[2])
            res = 'accepted' if py_rfc(doc) is not None else 'accepted-beyond-rfc'
        return 'p:%s:%s' % (tag, res)
    if c[0] in ('w', 'wd'):
        if len(o) > 1 and o[1] == 'throw':
            return 'w:throw'
        m = re.search(r' rc=(\S)', out)
        return 'w:' + {'=': 'reload-identical', 'F': 'reload-rejected'}.get(m.group(1) if m else '?', 'reload-within-precision')
    return c[0]


def run(ctx):
    errs = gen_all()
    for n, e in errs:
        ctx.broke('translator cxx2v failed on %s (tie to source broken)' % n, e)
    res = vlib.coq_props('C11')
    ctx.proof(res)
    ctx.coverage['trusted_base'] = [
        'Coq 8.16.1 kernel, vm_compute (sweeps, boundary documents)',
        'tools/cxx2v.py + clang 14 JSON AST (utf8/utf16 helpers of private/utf_iterator.h, json_max_depth) and the escape-switch extractor in checks/C11.py',
        'extraction: ExtrOcamlBasic, OCaml 4.13.1',
        'harness/C11_json.cpp, ocaml/C11_driver.ml, checks/C11.py (generators, oracles using Python json/float/struct)',
        'hand model of tockenizer::next, parse_string, libstdc++ num_get float accumulation, parse_stream loop, write_value layout (coq/C11/Defs.v)',
        'strtod / printf %.16g / double->float conversion: parameters of the model, instantiated in the driver by the platform functions']
    ctx.assumptions = [
        'to_double (strtod on the text accumulated by num_get, None when the result is not finite), print16 (ostream<<setprecision(16)<<double under the C locale) '
        'and to_float are parameters of the model, universally quantified in every theorem; write_parse / save_load_roundtrip assume for each number x of the value '
        '(num_ok): print16 x is an RFC 8259 number lexeme and to_double of it is Some (rt x); write_parse_second_round_exact also assumes the same for rt x and '
        'rt (rt x) = rt x (checked on every generated number by the oracle with Python %.16g / float(); false for the two largest finite doubles of each sign: known finding)',
        'rfc8259_accepted: the grammar Val requires the decoded content of each string literal and key to be valid UTF-8 (utf8_valid) and to_double of each number lexeme to be finite',
        'write_parse: wgood v = no undefined member, strings and keys valid UTF-8 (known finding otherwise), objects sorted by key (std::map invariant), depth v <= 512',
        'signed arithmetic in translated leaf functions does not overflow; char is signed 8-bit, unsigned char 8-bit',
        'libstdc++ num_get<char>::_M_extract_float accumulation rule under the classic locale as modelled by scan_number (tied by correspondence only)',
        'the stream handed to load() is in good state; stream flags other than the locale are the defaults; locale imbue/restore is exercised by the harness, not modelled']
    exe, err = vlib.build_harness('C11_json', ['C11_json.cpp'])
    if not exe:
        ctx.broke('harness build failed', err)
        return
    mexe, err = vlib.build_model('C11', 'C11_driver.ml', 'c11m')
    if not mexe:
        ctx.broke('model extraction/build failed', err)
    sys.setrecursionlimit(20000)
    if ctx.replay_cases is not None:
        cases = ctx.replay_cases
    else:
        cases = vlib.corpus_cases('C11') + gen_cases(ctx)
    ctx.coverage['rule'] = (
        'cases: p <full> <hex document> | w <tree built through the API> | wd <deep tree, compact layout only> | g <bits of a double> | q <hex string>. Exhaustive: every document of 1 and 2 bytes, '
        'every 3-byte document over a 42-byte JSON alphabet, every byte raw and escaped inside a string, every \\uXXXX (thorough; quick: all boundaries + 3000 random), '
        'surrogate pair boundary grid, table 3-7 boundary grid of raw UTF-8, nesting 0..11 and 505..520 in nine shapes, every 1-byte string through to_json. '
        'Random (seeded): RFC 8259 grammar documents with all escape forms and numbers across the double range, number lexemes, single-byte mutations of 18 small '
        'documents (every position), mutated grammar documents, random bytes, API trees (finite doubles incl. all powers of ten, NUL/control/multi-byte strings, '
        'ill-formed UTF-8, undefined members, depth up to 600, 1500-member containers), extraction at every integer-width and float edge. '
        'non-trivial = non-empty input; distinct = distinct case lines.')
    ctx.coverage['exhaustive'] = False
    ctx.coverage['exhaustive_parts'] = ['all documents of length 1 (x full/partial) and 2', 'all 3-byte documents over a 42-byte alphabet',
                                        '"<b>", "\\<b>" for every byte b', 'to_json of every 1-byte string']
    vlib.differential(ctx, cases, exe, mexe, oracle, nontrivial, classify)
