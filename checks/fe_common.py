"""Shared by C01/C02/C03: protocol encoders (the generator's own, independent of the model), response
de-framers and helpers for the front-end harness (harness/fe_service.cpp)."""
import struct, re, zlib


def hx(b):
    return bytes(b).hex() if b else '-'


def unhx(s):
    return b'' if s == '-' else bytes.fromhex(s)


# ---------------------------------------------------------------- request description
class Req:
    """method, script (one of the configured script names), path (raw, may contain %XX), query (raw or None),
    headers: list of (name, value-as-sent incl. folding) ; body bytes; http11; content_type"""

    def __init__(self, method=b'GET', script=b'/sync', path=b'', query=None, headers=(), body=b'', http11=True,
                 content_type=None, keep_alive=False):
        self.method, self.script, self.path, self.query = method, script, path, query
        self.headers, self.body, self.http11, self.content_type, self.keep_alive = list(headers), body, http11, content_type, keep_alive


def enc_http(r):
    uri = r.script + r.path + (b'?' + r.query if r.query is not None else b'')
    out = r.method + b' ' + uri + (b' HTTP/1.1' if r.http11 else b' HTTP/1.0') + b'\r\n'
    hs = list(r.headers)
    if r.content_type is not None:
        hs.append((b'Content-Type', r.content_type))
    if r.body or r.method == b'POST':
        hs.append((b'Content-Length', str(len(r.body)).encode()))
    if r.keep_alive:
        hs.append((b'Connection', b'keep-alive'))
    for n, v in hs:
        out += n + b': ' + v + b'\r\n'
    return out + b'\r\n' + r.body


def unfold(v):
    """what an HTTP header value means after LWS folding (CRLF + SP/HT -> the SP/HT stays, CRLF removed) and
    trimming of leading white space"""
    return re.sub(rb'\r\n([ \t])', rb'\1', v)


def urldecode(b):
    out = bytearray()
    i = 0
    while i < len(b):
        c = b[i]
        if c == 0x2b:
            out.append(0x20)
        elif c == 0x25:
            if i + 2 < len(b) + 0 and len(b) - i >= 3 and re.match(rb'[0-9a-fA-F]{2}', b[i + 1:i + 3]):
                out.append(int(b[i + 1:i + 3], 16))
                i += 2
        else:
            out.append(c)
        i += 1
    return bytes(out)


def cgi_env(r, proto):
    """the CGI variables a web server would hand over for this request (what SCGI/FastCGI clients send and
    what the embedded HTTP server must derive): dict name -> value, only request-derived ones"""
    env = {}
    env[b'REQUEST_METHOD'] = r.method
    env[b'SCRIPT_NAME'] = r.script
    env[b'PATH_INFO'] = urldecode(r.path)
    if r.query is not None:
        env[b'QUERY_STRING'] = r.query
    for n, v in r.headers:
        key = b'HTTP_' + n.upper().replace(b'-', b'_')
        env[key] = unfold(v).lstrip(b' \t')
    if r.content_type is not None:
        env[b'CONTENT_TYPE'] = r.content_type
    if r.body or r.method == b'POST':
        env[b'CONTENT_LENGTH'] = str(len(r.body)).encode()
    if r.keep_alive:
        env[b'HTTP_CONNECTION'] = b'keep-alive'
    return env


def enc_scgi(r):
    env = cgi_env(r, 'scgi')
    cl = env.pop(b'CONTENT_LENGTH', b'0')
    items = [(b'CONTENT_LENGTH', cl), (b'SCGI', b'1')] + sorted(env.items())
    blob = b''.join(k + b'\0' + v + b'\0' for k, v in items)
    return str(len(blob)).encode() + b':' + blob + b',' + r.body


def fcgi_rec(typ, rid, content, pad=0, version=1):
    return struct.pack('>BBHHBB', version, typ, rid, len(content), pad, 0) + content + b'\0' * pad


def fcgi_len(n):
    return bytes([n]) if n < 128 else struct.pack('>I', n | 0x80000000)


def fcgi_pairs(items):
    return b''.join(fcgi_len(len(k)) + fcgi_len(len(v)) + k + v for k, v in items)


def enc_fcgi(r, rid=1, keep_conn=False, params_cuts=(), stdin_cuts=(), pads=None, rng=None):
    """params_cuts / stdin_cuts: sorted offsets where the PARAMS / STDIN streams are cut into records;
    pads: callable -> padding length per record"""
    pad = (lambda: 0) if pads is None else pads
    env = cgi_env(r, 'fcgi')
    if b'CONTENT_LENGTH' not in env:
        env[b'CONTENT_LENGTH'] = b'0'
    blob = fcgi_pairs(sorted(env.items()))
    out = fcgi_rec(1, rid, struct.pack('>HB5x', 1, 1 if keep_conn else 0), pad())

    def stream(typ, data, cuts):
        o = b''
        pts = [0] + [c for c in cuts if 0 < c < len(data)] + [len(data)]
        for a, b in zip(pts, pts[1:]):
            if b > a:
                # a record holds at most 65535 bytes
                for i in range(a, b, 65535):
                    o += fcgi_rec(typ, rid, data[i:min(b, i + 65535)], pad())
        return o + fcgi_rec(typ, rid, b'', pad())
    out += stream(4, blob, params_cuts)
    out += stream(5, r.body, stdin_cuts)
    return out


# ---------------------------------------------------------------- responses
def split_http_response(b):
    """-> (status_line, headers[list of (name,value)], body_after_deframing, framing, rest) or None"""
    he = b.find(b'\r\n\r\n')
    if he < 0:
        return None
    head = b[:he].split(b'\r\n')
    status = head[0]
    hdrs = []
    for l in head[1:]:
        n, _, v = l.partition(b':')
        hdrs.append((n.strip(), v.strip()))
    body = b[he + 4:]
    d = {n.lower(): v for n, v in hdrs}
    if b'content-length' in d:
        n = int(d[b'content-length'])
        return status, hdrs, body[:n], 'content-length', body[n:]
    if d.get(b'transfer-encoding', b'').lower() == b'chunked':
        out = b''
        q = 0
        while True:
            e = body.find(b'\r\n', q)
            if e < 0:
                return status, hdrs, out, 'chunked-truncated', b''
            try:
                n = int(body[q:e], 16)
            except ValueError:
                return status, hdrs, out, 'chunked-bad', b''
            q = e + 2
            if n == 0:
                if body[q:q + 2] != b'\r\n':
                    return status, hdrs, out, 'chunked-bad-trailer', b''
                return status, hdrs, out, 'chunked', body[q + 2:]
            if body[q + n:q + n + 2] != b'\r\n':
                return status, hdrs, out, 'chunked-bad', b''
            out += body[q:q + n]
            q += n + 2
    return status, hdrs, body, 'close', b''


def split_cgi_response(b):
    """SCGI / de-recorded FastCGI stdout: CGI header block + body"""
    he = b.find(b'\r\n\r\n')
    if he < 0:
        return None
    hdrs = []
    for l in b[:he].split(b'\r\n'):
        n, _, v = l.partition(b':')
        hdrs.append((n.strip(), v.strip()))
    return hdrs, b[he + 4:]


def unrecord_fcgi(b):
    """-> (stdout bytes, list of (type, rid, content_len, pad_len), end_request_body or None, rest, ok)"""
    q = 0
    out = b''
    recs = []
    end = None
    while len(b) >= q + 8:
        ver, typ, rid, cl, pl, _ = struct.unpack('>BBHHBB', b[q:q + 8])
        if len(b) < q + 8 + cl + pl:
            return out, recs, end, b[q:], False
        content = b[q + 8:q + 8 + cl]
        recs.append((typ, rid, cl, pl))
        q += 8 + cl + pl
        if typ == 6:
            out += content
        elif typ == 3:
            end = content
            return out, recs, end, b[q:], True
    return out, recs, end, b[q:], False


def parse_echo(body):
    """echo application body -> dict of canonical fields"""
    d = {'E': {}, 'G': [], 'O': [], 'C': {}, 'F': []}
    for l in body.split(b'\n'):
        if not l:
            continue
        l = l.decode('ascii', 'replace')
        if l[0] in 'EGOC' and l[1] == ':':
            k, _, v = l[2:].partition('=')
            k, v = unhx(k), unhx(v)
            if l[0] in 'EC':
                d[l[0]][k] = v
            else:
                d[l[0]].append((k, v))
        elif l.startswith('F:'):
            meta, _, v = l[2:].partition('=')
            d['F'].append(tuple(unhx(x) for x in meta.split(',')) + (unhx(v),))
        else:
            k, _, v = l.partition('=')
            d[k] = v if k == 'CL' else unhx(v)
    return d
